//! Compile-fail witnesses for type-level clauses (engine E3).  Each `compile_fail,E0xxx` doc-test
//! has a compiling twin that differs only by the offending line, so a witness cannot pass merely
//! because its paths are wrong.  Twins are `no_run`: they must compile, nothing of html2text is executed.  Run with `cargo +nightly test --doc --offline` (the error code is
//! only checked on nightly).

/// C10-D: rendering consumes the tree — a tree handed to `render_to_string` cannot be used again,
/// so no layout cache computed in one render can be observed by a later one.
///
/// ```compile_fail,E0382
/// let cfg = html2text::config::plain();
/// let dom = cfg.parse_html(&b"<p>x</p>"[..]).unwrap();
/// let tree = cfg.dom_to_render_tree(&dom).unwrap();
/// let _a = cfg.render_to_string(tree, 10).unwrap();
/// let _b = cfg.render_to_string(tree, 20).unwrap(); // use after move
/// ```
///
/// Twin: cloning first compiles.
/// ```no_run
/// let cfg = html2text::config::plain();
/// let dom = cfg.parse_html(&b"<p>x</p>"[..]).unwrap();
/// let tree = cfg.dom_to_render_tree(&dom).unwrap();
/// let _a = cfg.render_to_string(tree.clone(), 10).unwrap();
/// let _b = cfg.render_to_string(tree, 20).unwrap();
/// ```
pub struct TreeIsConsumedByRenderToString;

/// Same for the line-oriented entry point.
///
/// ```compile_fail,E0382
/// let cfg = html2text::config::rich();
/// let dom = cfg.parse_html(&b"<p>x</p>"[..]).unwrap();
/// let tree = cfg.dom_to_render_tree(&dom).unwrap();
/// let _a = cfg.render_to_lines(tree, 10).unwrap();
/// let _b = cfg.render_to_lines(tree, 20).unwrap(); // use after move
/// ```
///
/// ```no_run
/// let cfg = html2text::config::rich();
/// let dom = cfg.parse_html(&b"<p>x</p>"[..]).unwrap();
/// let tree = cfg.dom_to_render_tree(&dom).unwrap();
/// let _a = cfg.render_to_lines(tree.clone(), 10).unwrap();
/// let _b = cfg.render_to_lines(tree, 20).unwrap();
/// ```
pub struct TreeIsConsumedByRenderToLines;

/// The one-shot routes consume the configuration (and with it the decorator): a `Config` cannot be
/// reused after `string_from_read`, so no per-render state can leak through it.
///
/// ```compile_fail,E0382
/// let cfg = html2text::config::plain();
/// let _a = cfg.string_from_read(&b"<p>x</p>"[..], 10).unwrap();
/// let _b = cfg.string_from_read(&b"<p>x</p>"[..], 10).unwrap(); // use after move
/// ```
///
/// ```no_run
/// let cfg = html2text::config::plain();
/// let _a = cfg.string_from_read(&b"<p>x</p>"[..], 10).unwrap();
/// let cfg = html2text::config::plain();
/// let _b = cfg.string_from_read(&b"<p>x</p>"[..], 10).unwrap();
/// ```
pub struct ConfigIsConsumedByOneShotRoutes;
