//! h2t-lint: a rustc_private driver that dumps the type-checked, drop-elaborated MIR of the
//! `html2text` crate (as built by the real cargo invocation) as a structured JSON fact base.
//! The rule engine (verif/h2t/*.py) decides the properties from these facts; nothing of
//! html2text is executed.
#![feature(rustc_private)]
#![allow(clippy::all)]

extern crate rustc_abi;
extern crate rustc_data_structures;
extern crate rustc_driver;
extern crate rustc_hir;
extern crate rustc_interface;
extern crate rustc_middle;
extern crate rustc_span;

mod json;

use json::J;
use rustc_driver::Compilation;
use rustc_hir::def::DefKind;
use rustc_hir::def_id::{DefId, LOCAL_CRATE};
use rustc_middle::mir::{
    self, AggregateKind, AssertKind, BasicBlockData, Body, CastKind, Const, ConstOperand, Operand,
    Place, ProjectionElem, Rvalue, StatementKind, TerminatorKind, UnwindAction,
};
use rustc_middle::ty::print::with_no_trimmed_paths;
use rustc_middle::ty::{self, Instance, Ty, TyCtxt, TypingEnv};
use rustc_span::Span;

struct Cb;

impl rustc_driver::Callbacks for Cb {
    fn after_analysis<'tcx>(
        &mut self,
        _c: &rustc_interface::interface::Compiler,
        tcx: TyCtxt<'tcx>,
    ) -> Compilation {
        if tcx.crate_name(LOCAL_CRATE).as_str() == "html2text" {
            if let Ok(out) = std::env::var("H2T_FACTS_OUT") {
                let j = dump_crate(tcx);
                let mut s = String::with_capacity(1 << 24);
                j.write(&mut s);
                // one write per process
                std::fs::write(&out, s).expect("cannot write facts");
            }
        }
        Compilation::Continue
    }
}

fn main() {
    let mut args: Vec<String> = std::env::args().collect();
    // cargo (RUSTC_WORKSPACE_WRAPPER) passes: <wrapper> <rustc> <args...>
    if args.len() >= 2 {
        args.remove(1);
    }
    args[0] = "rustc".to_string();
    rustc_driver::run_compiler(&args, &mut Cb);
}

fn s(x: impl Into<String>) -> J {
    J::Str(x.into())
}

fn tystr<'tcx>(ty: Ty<'tcx>) -> String {
    with_no_trimmed_paths!(format!("{}", ty))
}

fn defstr(tcx: TyCtxt<'_>, did: DefId) -> String {
    with_no_trimmed_paths!(tcx.def_path_str(did))
}

fn loc(tcx: TyCtxt<'_>, span: Span) -> (String, bool) {
    let exp = span.from_expansion();
    let sp = if exp { span.source_callsite() } else { span };
    let d = tcx.sess.source_map().span_to_diagnostic_string(sp);
    // "src/lib.rs:12:5: 12:10" -> "src/lib.rs:12"
    let mut it = d.split(':');
    let f = it.next().unwrap_or("?");
    let l = it.next().unwrap_or("0");
    (format!("{}:{}", f, l), exp)
}

fn dump_crate<'tcx>(tcx: TyCtxt<'tcx>) -> J {
    let mut root: Vec<(String, J)> = Vec::new();
    root.push(("crate".into(), s("html2text")));
    root.push((
        "config".into(),
        s(std::env::var("H2T_CONFIG").unwrap_or_default()),
    ));
    root.push((
        "nonce".into(),
        s(std::env::var("H2T_NONCE").unwrap_or_default()),
    ));

    // ---- ADTs, traits, impls, statics (item inventory) ----
    let mut adts = Vec::new();
    let mut impls = Vec::new();
    let mut statics = Vec::new();
    let mut traits = Vec::new();
    let mut unsafe_items = Vec::new();
    let ev = tcx.effective_visibilities(());
    for id in tcx.hir_crate_items(()).definitions() {
        let did = id.to_def_id();
        match tcx.def_kind(did) {
            DefKind::Struct | DefKind::Enum | DefKind::Union => {
                let adt = tcx.adt_def(did);
                let mut variants = Vec::new();
                for (vi, v) in adt.variants().iter_enumerated() {
                    let mut fields = Vec::new();
                    for f in v.fields.iter() {
                        let fty = tcx.type_of(f.did).instantiate_identity().skip_norm_wip();
                        fields.push(J::obj(vec![
                            ("name", s(f.name.as_str())),
                            ("ty", s(tystr(fty))),
                        ]));
                    }
                    let discr = if adt.is_enum() {
                        adt.discriminant_for_variant(tcx, vi).val as i128
                    } else {
                        0
                    };
                    variants.push(J::obj(vec![
                        ("name", s(v.name.as_str())),
                        ("idx", J::Num(vi.as_u32() as i128)),
                        ("discr", J::Num(discr)),
                        ("fields", J::Arr(fields)),
                    ]));
                }
                let (l, _) = loc(tcx, tcx.def_span(did));
                adts.push(J::obj(vec![
                    ("path", s(defstr(tcx, did))),
                    (
                        "kind",
                        s(if adt.is_enum() {
                            "enum"
                        } else if adt.is_union() {
                            "union"
                        } else {
                            "struct"
                        }),
                    ),
                    ("variants", J::Arr(variants)),
                    ("span", s(l)),
                    ("public", J::Bool(ev.is_reachable(id))),
                ]));
            }
            DefKind::Static { .. } => {
                let ty = tcx.type_of(did).instantiate_identity().skip_norm_wip();
                let (l, _) = loc(tcx, tcx.def_span(did));
                statics.push(J::obj(vec![
                    ("path", s(defstr(tcx, did))),
                    ("ty", s(tystr(ty))),
                    ("mutable", J::Bool(tcx.is_mutable_static(did))),
                    (
                        "freeze",
                        J::Bool(ty.is_freeze(tcx, TypingEnv::fully_monomorphized())),
                    ),
                    ("span", s(l)),
                ]));
            }
            DefKind::Trait => {
                let mut items = Vec::new();
                for it in tcx.associated_items(did).in_definition_order() {
                    if it.is_fn() {
                        items.push(J::obj(vec![
                            ("name", s(it.name().as_str())),
                            ("def", s(defstr(tcx, it.def_id))),
                            ("has_default", J::Bool(it.defaultness(tcx).has_value())),
                        ]));
                    }
                }
                traits.push(J::obj(vec![
                    ("path", s(defstr(tcx, did))),
                    ("items", J::Arr(items)),
                ]));
            }
            DefKind::Impl { of_trait } => {
                let self_ty = tcx.type_of(did).instantiate_identity().skip_norm_wip();
                let mut o = vec![
                    ("self_ty", s(tystr(self_ty))),
                    ("def", s(defstr(tcx, did))),
                ];
                let mut methods = Vec::new();
                if of_trait {
                    let tr = tcx.impl_trait_ref(did).instantiate_identity().skip_norm_wip();
                    o.push(("trait", s(defstr(tcx, tr.def_id))));
                    o.push(("trait_ref", s(with_no_trimmed_paths!(format!("{}", tr)))));
                    let map = tcx.impl_item_implementor_ids(did);
                    for it in tcx.associated_items(tr.def_id).in_definition_order() {
                        if !it.is_fn() {
                            continue;
                        }
                        let (imp, is_default) = match map.get(&it.def_id) {
                            Some(d) => (defstr(tcx, *d), false),
                            None => (defstr(tcx, it.def_id), true),
                        };
                        methods.push(J::obj(vec![
                            ("name", s(it.name().as_str())),
                            ("trait_item", s(defstr(tcx, it.def_id))),
                            ("impl_item", s(imp)),
                            ("inherited_default", J::Bool(is_default)),
                        ]));
                    }
                } else {
                    for it in tcx.associated_items(did).in_definition_order() {
                        if it.is_fn() {
                            methods.push(J::obj(vec![
                                ("name", s(it.name().as_str())),
                                ("impl_item", s(defstr(tcx, it.def_id))),
                            ]));
                        }
                    }
                }
                o.push(("methods", J::Arr(methods)));
                impls.push(J::obj(o));
            }
            _ => {}
        }
    }
    root.push(("adts".into(), J::Arr(adts)));
    root.push(("statics".into(), J::Arr(statics)));
    root.push(("traits".into(), J::Arr(traits)));
    root.push(("impls".into(), J::Arr(impls)));

    // ---- bodies ----
    let mut fns = Vec::new();
    for ldid in tcx.mir_keys(()) {
        let did = ldid.to_def_id();
        let kind = tcx.def_kind(did);
        let kstr = match kind {
            DefKind::Fn => "Fn",
            DefKind::AssocFn => "AssocFn",
            DefKind::Closure => "Closure",
            _ => continue,
        };
        let body = tcx.optimized_mir(did);
        let mut o: Vec<(&str, J)> = Vec::new();
        o.push(("id", s(defstr(tcx, did))));
        o.push(("kind", s(kstr)));
        let (l, exp) = loc(tcx, tcx.def_span(did));
        o.push(("span", s(l)));
        o.push(("from_expansion", J::Bool(exp)));
        if matches!(kind, DefKind::Fn | DefKind::AssocFn) {
            o.push(("public", J::Bool(ev.is_reachable(*ldid))));
            o.push(("name", s(tcx.item_name(did).as_str())));
            let sig = tcx.fn_sig(did).instantiate_identity().skip_norm_wip();
            o.push(("sig", s(with_no_trimmed_paths!(format!("{}", sig)))));
            let hs = tcx.fn_sig(did).skip_binder().safety();
            if hs.is_unsafe() {
                unsafe_items.push(s(defstr(tcx, did)));
            }
            if let Some(assoc) = tcx.opt_associated_item(did) {
                if let Some(ti) = assoc.trait_item_def_id() {
                    o.push(("implements", s(defstr(tcx, ti))));
                }
                let cont = assoc.container_id(tcx);
                o.push(("container", s(defstr(tcx, cont))));
                match tcx.def_kind(cont) {
                    DefKind::Impl { .. } => {
                        let st = tcx.type_of(cont).instantiate_identity().skip_norm_wip();
                        o.push(("self_ty", s(tystr(st))));
                    }
                    _ => {}
                }
            }
        } else {
            let parent = tcx.typeck_root_def_id(did);
            o.push(("root", s(defstr(tcx, parent))));
            o.push(("parent", s(defstr(tcx, tcx.parent(did)))));
        }
        o.push(("arg_count", J::Num(body.arg_count as i128)));
        dump_body(tcx, did, body, &mut o);
        // promoted bodies
        let mut proms = Vec::new();
        for pb in tcx.promoted_mir(did).iter() {
            let mut po: Vec<(&str, J)> = Vec::new();
            dump_body(tcx, did, pb, &mut po);
            proms.push(J::obj(po));
        }
        o.push(("promoted", J::Arr(proms)));
        fns.push(J::obj(o));
    }
    root.push(("fns".into(), J::Arr(fns)));
    root.push(("unsafe_fns".into(), J::Arr(unsafe_items)));
    J::Obj(root)
}

fn dump_body<'tcx>(tcx: TyCtxt<'tcx>, owner: DefId, body: &Body<'tcx>, o: &mut Vec<(&str, J)>) {
    // locals
    let mut names: Vec<Option<String>> = vec![None; body.local_decls.len()];
    let mut dbg = Vec::new();
    for vdi in &body.var_debug_info {
        match &vdi.value {
            mir::VarDebugInfoContents::Place(p) => {
                if p.projection.is_empty() {
                    names[p.local.as_usize()] = Some(vdi.name.as_str().to_string());
                }
                dbg.push(J::obj(vec![
                    ("name", s(vdi.name.as_str())),
                    ("place", place(tcx, body, *p)),
                ]));
            }
            mir::VarDebugInfoContents::Const(c) => {
                dbg.push(J::obj(vec![
                    ("name", s(vdi.name.as_str())),
                    ("const", constant(tcx, owner, c)),
                ]));
            }
        }
    }
    let mut locals = Vec::new();
    for (i, d) in body.local_decls.iter_enumerated() {
        let mut lo = vec![("ty", s(tystr(d.ty)))];
        if let Some(n) = &names[i.as_usize()] {
            lo.push(("name", s(n.clone())));
        }
        locals.push(J::obj(lo));
    }
    o.push(("locals", J::Arr(locals)));
    o.push(("debug", J::Arr(dbg)));
    let mut blocks = Vec::new();
    for (_bb, data) in body.basic_blocks.iter_enumerated() {
        blocks.push(block(tcx, owner, body, data));
    }
    o.push(("blocks", J::Arr(blocks)));
}

fn place<'tcx>(tcx: TyCtxt<'tcx>, body: &Body<'tcx>, p: Place<'tcx>) -> J {
    let mut proj = Vec::new();
    let mut pty = mir::PlaceTy::from_ty(body.local_decls[p.local].ty);
    for elem in p.projection.iter() {
        match elem {
            ProjectionElem::Deref => proj.push(s("*")),
            ProjectionElem::Field(f, fty) => {
                let mut name = format!("{}", f.as_u32());
                let mut owner = String::new();
                match pty.ty.kind() {
                    ty::Adt(adt, _) => {
                        let vi = pty.variant_index.unwrap_or(rustc_abi::FIRST_VARIANT);
                        let v = adt.variant(vi);
                        name = v.fields[f].name.as_str().to_string();
                        owner = defstr(tcx, adt.did());
                        if adt.is_enum() {
                            owner = format!("{}::{}", owner, v.name.as_str());
                        }
                    }
                    ty::Closure(did, _) => {
                        owner = format!("closure:{}", defstr(tcx, *did));
                        let caps = tcx.closure_captures(did.expect_local());
                        if let Some(c) = caps.get(f.as_usize()) {
                            name = c.var_ident.name.as_str().to_string();
                        }
                    }
                    ty::Tuple(_) => {
                        owner = "tuple".into();
                    }
                    _ => {}
                }
                proj.push(J::obj(vec![
                    ("f", J::Num(f.as_u32() as i128)),
                    ("n", s(name)),
                    ("o", s(owner)),
                    ("ty", s(tystr(fty))),
                ]));
            }
            ProjectionElem::Index(l) => {
                proj.push(J::obj(vec![("idx", J::Num(l.as_u32() as i128))]));
            }
            ProjectionElem::ConstantIndex {
                offset,
                min_length,
                from_end,
            } => {
                proj.push(J::obj(vec![
                    ("cidx", J::Num(offset as i128)),
                    ("min", J::Num(min_length as i128)),
                    ("from_end", J::Bool(from_end)),
                ]));
            }
            ProjectionElem::Subslice { from, to, from_end } => {
                proj.push(J::obj(vec![
                    ("sub_from", J::Num(from as i128)),
                    ("sub_to", J::Num(to as i128)),
                    ("from_end", J::Bool(from_end)),
                ]));
            }
            ProjectionElem::Downcast(name, vi) => {
                let n = name
                    .map(|x| x.as_str().to_string())
                    .unwrap_or_else(|| format!("{}", vi.as_u32()));
                proj.push(J::obj(vec![
                    ("dc", s(n)),
                    ("vi", J::Num(vi.as_u32() as i128)),
                ]));
            }
            ProjectionElem::OpaqueCast(_) => proj.push(s("opaque")),
            ProjectionElem::UnwrapUnsafeBinder(_) => proj.push(s("unwrap_binder")),
        }
        pty = pty.projection_ty(tcx, elem);
    }
    J::obj(vec![
        ("l", J::Num(p.local.as_u32() as i128)),
        ("p", J::Arr(proj)),
        ("ty", s(tystr(pty.ty))),
    ])
}

fn resolve_callee<'tcx>(
    tcx: TyCtxt<'tcx>,
    owner: DefId,
    did: DefId,
    args: ty::GenericArgsRef<'tcx>,
) -> Vec<(&'static str, J)> {
    let mut o: Vec<(&'static str, J)> = Vec::new();
    o.push(("def", s(defstr(tcx, did))));
    o.push((
        "path",
        s(with_no_trimmed_paths!(tcx.def_path_str_with_args(did, args))),
    ));
    o.push(("local", J::Bool(did.is_local())));
    let mut gargs = Vec::new();
    for a in args.iter() {
        if let Some(t) = a.as_type() {
            gargs.push(s(tystr(t)));
        }
    }
    o.push(("targs", J::Arr(gargs)));
    if let Some(assoc) = tcx.opt_associated_item(did) {
        let cont = assoc.container_id(tcx);
        if matches!(tcx.def_kind(cont), DefKind::Trait) {
            o.push(("trait", s(defstr(tcx, cont))));
            o.push(("method", s(assoc.name().as_str())));
            if let Some(t) = args.types().next() {
                o.push(("self_ty", s(tystr(t))));
            }
        } else if let DefKind::Impl { of_trait } = tcx.def_kind(cont) {
            o.push(("method", s(assoc.name().as_str())));
            let st = tcx.type_of(cont).instantiate(tcx, args).skip_norm_wip();
            o.push(("self_ty", s(tystr(st))));
            if of_trait {
                if let Some(ti) = assoc.trait_item_def_id() {
                    o.push(("trait", s(defstr(tcx, tcx.parent(ti)))));
                }
            }
        }
    }
    let env = TypingEnv::post_analysis(tcx, owner);
    match Instance::try_resolve(tcx, env, did, args) {
        Ok(Some(inst)) => {
            let rd = inst.def_id();
            o.push(("resolved", s(defstr(tcx, rd))));
            o.push(("resolved_local", J::Bool(rd.is_local())));
            let k = match inst.def {
                ty::InstanceKind::Item(_) => "item",
                ty::InstanceKind::Virtual(..) => "virtual",
                ty::InstanceKind::Intrinsic(_) => "intrinsic",
                ty::InstanceKind::ClosureOnceShim { .. } => "closure_once_shim",
                ty::InstanceKind::FnPtrShim(..) => "fnptr_shim",
                ty::InstanceKind::DropGlue(..) => "drop_glue",
                ty::InstanceKind::CloneShim(..) => "clone_shim",
                ty::InstanceKind::ReifyShim(..) => "reify_shim",
                ty::InstanceKind::VTableShim(..) => "vtable_shim",
                _ => "other",
            };
            o.push(("inst", s(k)));
            o.push((
                "resolved_path",
                s(with_no_trimmed_paths!(
                    tcx.def_path_str_with_args(rd, inst.args)
                )),
            ));
        }
        _ => {
            o.push(("resolved", J::Null));
        }
    }
    // does the callee diverge?
    let sig = tcx.fn_sig(did).instantiate(tcx, args).skip_norm_wip();
    if sig.output().skip_binder().is_never() {
        o.push(("diverges", J::Bool(true)));
    }
    o
}

fn constant<'tcx>(tcx: TyCtxt<'tcx>, owner: DefId, c: &ConstOperand<'tcx>) -> J {
    let ty = c.const_.ty();
    let mut o: Vec<(&str, J)> = vec![("ty", s(tystr(ty)))];
    match ty.kind() {
        ty::FnDef(did, args) => {
            o.push(("fn", J::obj(resolve_callee(tcx, owner, *did, args))));
        }
        _ => {}
    }
    match c.const_ {
        Const::Unevaluated(uv, _) => {
            if let Some(p) = uv.promoted {
                o.push(("promoted", J::Num(p.as_u32() as i128)));
            } else {
                o.push(("unevaluated", s(defstr(tcx, uv.def))));
            }
        }
        _ => {}
    }
    // scalar value if cheaply available
    // a named constant (`const N: usize = 3;`) is Unevaluated in MIR: evaluate it when that needs no generic parameter
    let scalar = c.const_.try_to_scalar_int().or_else(|| match (c.const_, ty.kind()) {
        (Const::Unevaluated(uv, _), ty::Int(_) | ty::Uint(_) | ty::Bool | ty::Char)
            if uv.promoted.is_none() && uv.args.is_empty() =>
        {
            c.const_.try_eval_scalar_int(tcx, ty::TypingEnv::post_analysis(tcx, owner))
        }
        _ => None,
    });
    if let Some(si) = scalar {
        let bits = si.to_bits_unchecked();
        let v: i128 = match ty.kind() {
            ty::Int(_) => {
                let size = si.size();
                size.sign_extend(bits) as i128
            }
            _ => bits as i128,
        };
        o.push(("int", J::Num(v)));
        if let ty::Char = ty.kind() {
            if let Some(ch) = char::from_u32(bits as u32) {
                o.push(("char", s(ch.to_string())));
            }
        }
    }
    o.push(("v", s(with_no_trimmed_paths!(format!("{}", c.const_)))));
    J::obj(vec![("k", J::obj(o))])
}

fn operand<'tcx>(tcx: TyCtxt<'tcx>, owner: DefId, body: &Body<'tcx>, op: &Operand<'tcx>) -> J {
    match op {
        Operand::Copy(p) => J::obj(vec![("c", place(tcx, body, *p))]),
        Operand::Move(p) => J::obj(vec![("m", place(tcx, body, *p))]),
        Operand::Constant(c) => constant(tcx, owner, c),
        #[allow(unreachable_patterns)]
        _ => J::obj(vec![("other", s(format!("{:?}", op)))]),
    }
}

fn rvalue<'tcx>(tcx: TyCtxt<'tcx>, owner: DefId, body: &Body<'tcx>, rv: &Rvalue<'tcx>) -> J {
    match rv {
        Rvalue::Use(op, _) => J::obj(vec![("use", operand(tcx, owner, body, op))]),
        Rvalue::Repeat(op, n) => J::obj(vec![
            ("repeat", operand(tcx, owner, body, op)),
            ("count", s(format!("{}", n))),
        ]),
        Rvalue::Ref(_, bk, p) => J::obj(vec![
            ("ref", place(tcx, body, *p)),
            (
                "mut",
                J::Bool(matches!(bk, mir::BorrowKind::Mut { .. })),
            ),
        ]),
        Rvalue::ThreadLocalRef(d) => J::obj(vec![("tls", s(defstr(tcx, *d)))]),
        Rvalue::RawPtr(k, p) => J::obj(vec![
            ("rawptr", place(tcx, body, *p)),
            ("mut", J::Bool(matches!(k, mir::RawPtrKind::Mut))),
        ]),
        Rvalue::Cast(k, op, ty) => {
            let ks = match k {
                CastKind::PointerExposeProvenance => "ptr_expose".to_string(),
                CastKind::PointerWithExposedProvenance => "ptr_from_exposed".to_string(),
                CastKind::PointerCoercion(pc, _) => format!("coerce:{:?}", pc),
                CastKind::IntToInt => "int_to_int".into(),
                CastKind::FloatToInt => "float_to_int".into(),
                CastKind::FloatToFloat => "float_to_float".into(),
                CastKind::IntToFloat => "int_to_float".into(),
                CastKind::PtrToPtr => "ptr_to_ptr".into(),
                CastKind::FnPtrToPtr => "fnptr_to_ptr".into(),
                CastKind::Transmute => "transmute".into(),
                #[allow(unreachable_patterns)]
                _ => format!("{:?}", k),
            };
            J::obj(vec![
                ("cast", operand(tcx, owner, body, op)),
                ("kind", s(ks)),
                ("to", s(tystr(*ty))),
                ("from", s(tystr(op.ty(body, tcx)))),
            ])
        }
        Rvalue::BinaryOp(op, ab) => J::obj(vec![
            ("bin", s(format!("{:?}", op))),
            ("a", operand(tcx, owner, body, &ab.0)),
            ("b", operand(tcx, owner, body, &ab.1)),
            ("opty", s(tystr(ab.0.ty(body, tcx)))),
        ]),
        Rvalue::UnaryOp(op, a) => J::obj(vec![
            ("un", s(format!("{:?}", op))),
            ("a", operand(tcx, owner, body, a)),
        ]),
        Rvalue::Discriminant(p) => J::obj(vec![("discr", place(tcx, body, *p))]),
        Rvalue::Aggregate(k, ops) => {
            let mut o: Vec<(&str, J)> = Vec::new();
            match &**k {
                AggregateKind::Array(t) => {
                    o.push(("agg", s("array")));
                    o.push(("elem_ty", s(tystr(*t))));
                }
                AggregateKind::Tuple => o.push(("agg", s("tuple"))),
                AggregateKind::Adt(did, vi, _args, _, active) => {
                    let adt = tcx.adt_def(*did);
                    let v = adt.variant(*vi);
                    o.push(("agg", s("adt")));
                    o.push(("adt", s(defstr(tcx, *did))));
                    o.push(("variant", s(v.name.as_str())));
                    o.push(("vi", J::Num(vi.as_u32() as i128)));
                    let mut fields = Vec::new();
                    if let Some(a) = active {
                        fields.push(s(v.fields[*a].name.as_str()));
                    } else {
                        for f in v.fields.iter() {
                            fields.push(s(f.name.as_str()));
                        }
                    }
                    o.push(("fields", J::Arr(fields)));
                }
                AggregateKind::Closure(did, _) => {
                    o.push(("agg", s("closure")));
                    o.push(("def", s(defstr(tcx, *did))));
                    let mut caps = Vec::new();
                    for c in tcx.closure_captures(did.expect_local()) {
                        caps.push(s(c.var_ident.name.as_str()));
                    }
                    o.push(("fields", J::Arr(caps)));
                }
                AggregateKind::Coroutine(did, _) | AggregateKind::CoroutineClosure(did, _) => {
                    o.push(("agg", s("coroutine")));
                    o.push(("def", s(defstr(tcx, *did))));
                }
                AggregateKind::RawPtr(..) => o.push(("agg", s("rawptr"))),
            }
            let mut v = Vec::new();
            for op in ops.iter() {
                v.push(operand(tcx, owner, body, op));
            }
            o.push(("ops", J::Arr(v)));
            J::obj(o)
        }
        Rvalue::CopyForDeref(p) => J::obj(vec![("use", J::obj(vec![("c", place(tcx, body, *p))]))]),
        Rvalue::WrapUnsafeBinder(op, _) => J::obj(vec![("use", operand(tcx, owner, body, op))]),
        #[allow(unreachable_patterns)]
        _ => J::obj(vec![("other", s(format!("{:?}", rv)))]),
    }
}

fn unwind_target(u: &UnwindAction) -> J {
    match u {
        UnwindAction::Cleanup(bb) => J::Num(bb.as_u32() as i128),
        _ => J::Null,
    }
}

fn block<'tcx>(
    tcx: TyCtxt<'tcx>,
    owner: DefId,
    body: &Body<'tcx>,
    data: &BasicBlockData<'tcx>,
) -> J {
    let mut stmts = Vec::new();
    for st in &data.statements {
        let (l, exp) = loc(tcx, st.source_info.span);
        match &st.kind {
            StatementKind::Assign(b) => {
                let (p, rv) = &**b;
                stmts.push(J::obj(vec![
                    ("k", s("assign")),
                    ("lhs", place(tcx, body, *p)),
                    ("rv", rvalue(tcx, owner, body, rv)),
                    ("span", s(l)),
                    ("exp", J::Bool(exp)),
                ]));
            }
            StatementKind::SetDiscriminant {
                place: p,
                variant_index,
            } => {
                stmts.push(J::obj(vec![
                    ("k", s("setdiscr")),
                    ("lhs", place(tcx, body, **p)),
                    ("vi", J::Num(variant_index.as_u32() as i128)),
                    ("span", s(l)),
                ]));
            }
            StatementKind::Intrinsic(i) => {
                stmts.push(J::obj(vec![
                    ("k", s("intrinsic")),
                    ("v", s(format!("{:?}", i))),
                    ("span", s(l)),
                ]));
            }
            _ => {}
        }
    }
    let term = data.terminator();
    let (l, exp) = loc(tcx, term.source_info.span);
    let mut t: Vec<(&str, J)> = vec![("span", s(l)), ("exp", J::Bool(exp))];
    match &term.kind {
        TerminatorKind::Goto { target } => {
            t.push(("k", s("goto")));
            t.push(("target", J::Num(target.as_u32() as i128)));
        }
        TerminatorKind::SwitchInt { discr, targets } => {
            t.push(("k", s("switch")));
            t.push(("discr", operand(tcx, owner, body, discr)));
            t.push(("ty", s(tystr(discr.ty(body, tcx)))));
            let mut ts = Vec::new();
            for (v, bb) in targets.iter() {
                ts.push(J::Arr(vec![
                    J::Num(v as i128),
                    J::Num(bb.as_u32() as i128),
                ]));
            }
            t.push(("targets", J::Arr(ts)));
            t.push(("otherwise", J::Num(targets.otherwise().as_u32() as i128)));
        }
        TerminatorKind::UnwindResume => t.push(("k", s("resume"))),
        TerminatorKind::UnwindTerminate(_) => t.push(("k", s("terminate"))),
        TerminatorKind::Return => t.push(("k", s("return"))),
        TerminatorKind::Unreachable => t.push(("k", s("unreachable"))),
        TerminatorKind::Drop {
            place: p,
            target,
            unwind,
            replace,
            ..
        } => {
            t.push(("k", s("drop")));
            t.push(("place", place(tcx, body, *p)));
            t.push(("target", J::Num(target.as_u32() as i128)));
            t.push(("unwind", unwind_target(unwind)));
            t.push(("replace", J::Bool(*replace)));
        }
        TerminatorKind::Call {
            func,
            args,
            destination,
            target,
            unwind,
            fn_span,
            ..
        } => {
            t.push(("k", s("call")));
            let fty = func.ty(body, tcx);
            match fty.kind() {
                ty::FnDef(did, gargs) => {
                    t.push(("callee", J::obj(resolve_callee(tcx, owner, *did, gargs))));
                }
                _ => {
                    t.push(("callee", J::Null));
                    t.push(("func", operand(tcx, owner, body, func)));
                    t.push(("func_ty", s(tystr(fty))));
                }
            }
            let mut av = Vec::new();
            for a in args.iter() {
                av.push(operand(tcx, owner, body, &a.node));
            }
            t.push(("args", J::Arr(av)));
            t.push(("dest", place(tcx, body, *destination)));
            t.push((
                "target",
                match target {
                    Some(bb) => J::Num(bb.as_u32() as i128),
                    None => J::Null,
                },
            ));
            t.push(("unwind", unwind_target(unwind)));
            let (fl, _) = loc(tcx, *fn_span);
            t.push(("fn_span", s(fl)));
        }
        TerminatorKind::TailCall { func, args, .. } => {
            t.push(("k", s("tailcall")));
            t.push(("func", operand(tcx, owner, body, func)));
            let mut av = Vec::new();
            for a in args.iter() {
                av.push(operand(tcx, owner, body, &a.node));
            }
            t.push(("args", J::Arr(av)));
        }
        TerminatorKind::Assert {
            cond,
            expected,
            msg,
            target,
            unwind,
        } => {
            t.push(("k", s("assert")));
            t.push(("cond", operand(tcx, owner, body, cond)));
            t.push(("expected", J::Bool(*expected)));
            t.push(("target", J::Num(target.as_u32() as i128)));
            t.push(("unwind", unwind_target(unwind)));
            let (mk, ops): (String, Vec<&Operand<'tcx>>) = match &**msg {
                AssertKind::BoundsCheck { len, index } => ("BoundsCheck".into(), vec![len, index]),
                AssertKind::Overflow(op, a, b) => (format!("Overflow:{:?}", op), vec![a, b]),
                AssertKind::OverflowNeg(a) => ("OverflowNeg".into(), vec![a]),
                AssertKind::DivisionByZero(a) => ("DivisionByZero".into(), vec![a]),
                AssertKind::RemainderByZero(a) => ("RemainderByZero".into(), vec![a]),
                other => (format!("{:?}", other), vec![]),
            };
            t.push(("msg", s(mk)));
            let mut ov = Vec::new();
            for a in ops {
                ov.push(operand(tcx, owner, body, a));
            }
            t.push(("ops", J::Arr(ov)));
        }
        TerminatorKind::FalseEdge { real_target, .. } => {
            t.push(("k", s("goto")));
            t.push(("target", J::Num(real_target.as_u32() as i128)));
        }
        TerminatorKind::FalseUnwind { real_target, .. } => {
            t.push(("k", s("goto")));
            t.push(("target", J::Num(real_target.as_u32() as i128)));
        }
        other => {
            t.push(("k", s("other")));
            t.push(("v", s(format!("{:?}", other))));
        }
    }
    J::obj(vec![
        ("cleanup", J::Bool(data.is_cleanup)),
        ("stmts", J::Arr(stmts)),
        ("term", J::obj(t)),
    ])
}
