"""FIN — finite-domain abstract interpreter for loop-free MIR bodies.

Values are small integers (bools, enum discriminants, chars), tuples of values, references to
places, and opaque symbols whose value ranges over a declared finite domain (inputs: parameters
and fields of `self`; oracle calls such as `Specificity::lt`).  The interpreter enumerates all
assignments of the symbols that the body actually consults (forking lazily) and reports, for each
leaf, the consulted assignment and the effects executed (stores to fields, calls).  It is abstract
interpretation over a finite lattice, not an execution of html2text on concrete data; a construct
outside the fragment raises NotAnalysable and the rule fails closed."""
from .facts import callee_def, op_const, op_place, is_bare
from .util import callee_method, ends


class NotAnalysable(Exception):
    pass


class Need(Exception):
    def __init__(self, key, ty, hint=None):
        self.key, self.ty, self.hint = key, ty, hint


class Fin:
    def __init__(self, F, body, domain, oracle=None, max_leaves=5000, on_call=None):
        """domain(key, ty, hint) -> list of ints for a symbol; oracle(self, term, env) -> value or None
        to request default handling; on_call(term) -> 'skip' to treat a call as an opaque effect."""
        self.F, self.b = F, body
        self.domain, self.oracle, self.on_call = domain, oracle, on_call
        self.max_leaves = max_leaves
        self.leaves = []

    # ---- public
    def run(self):
        self._explore({})
        return self.leaves

    def _explore(self, env):
        if len(self.leaves) > self.max_leaves:
            raise NotAnalysable("too many leaves")
        try:
            eff, ret = self._interp(env)
            self.leaves.append((dict(env), eff, ret))
        except Need as n:
            dom = self.domain(n.key, n.ty, n.hint)
            if not dom:
                raise NotAnalysable("no finite domain for %s : %s" % (n.key, n.ty))
            for v in dom:
                e2 = dict(env)
                e2[n.key] = v
                self._explore(e2)

    # ---- interpretation of one path under env
    def _interp(self, env):
        b = self.b
        vals = {}
        effects = []
        bb = 0
        steps = 0
        visited = set()
        while True:
            steps += 1
            if bb in visited:
                raise NotAnalysable("loop in %s at bb%d" % (b.id, bb))
            visited.add(bb)
            for st in b.stmts(bb):
                if st["k"] == "assign":
                    v = self._rvalue(st["rv"], vals, env)
                    lhs = st["lhs"]
                    if is_bare(lhs):
                        vals[lhs["l"]] = v
                    else:
                        effects.append(("store", b.expr(lhs), self._show(v, vals, env)))
                        # remember stores to symbols so later reads see them
                        env_key = "place:" + b.expr(lhs)
                        vals[env_key] = v
                elif st["k"] == "setdiscr":
                    raise NotAnalysable("SetDiscriminant")
            t = b.term(bb)
            k = t["k"]
            if k == "goto":
                bb = t["target"]
            elif k == "switch":
                v = self._int(self._operand(t["discr"], vals, env), vals, env)
                nxt = None
                for val, tb in t["targets"]:
                    if val == v:
                        nxt = tb
                        break
                if nxt is None:
                    nxt = t["otherwise"]
                bb = nxt
            elif k == "return":
                return effects, vals.get(0)
            elif k == "unreachable":
                return effects + [("unreachable",)], None
            elif k == "drop":
                bb = t["target"]
            elif k == "assert":
                bb = t["target"]
            elif k == "call":
                r = None
                handled = False
                if self.oracle:
                    r = self.oracle(self, t, vals, env)
                    handled = r is not None
                if not handled:
                    if self.on_call and self.on_call(t) == "skip":
                        effects.append(("call", callee_def(t)))
                        r = ("opaque", callee_def(t))
                    else:
                        raise NotAnalysable("call to %s" % callee_def(t))
                if is_bare(t["dest"]):
                    vals[t["dest"]["l"]] = r
                if t["target"] is None:
                    return effects + [("diverge", callee_def(t))], None
                bb = t["target"]
            else:
                raise NotAnalysable("terminator %s" % k)

    def _show(self, v, vals, env):
        try:
            return self._int(v, vals, env)
        except (NotAnalysable, Need):
            return str(v)[:40]

    # ---- values
    def _rvalue(self, rv, vals, env):
        if "use" in rv:
            return self._operand(rv["use"], vals, env)
        if "ref" in rv:
            return ("ref", rv["ref"])
        if "discr" in rv:
            return ("discr_of", rv["discr"])
        if "agg" in rv:
            if rv["agg"] == "tuple":
                return ("tuple", [self._operand(o, vals, env) for o in rv["ops"]])
            if rv["agg"] == "adt":
                a = self.F.adts.get(rv.get("adt"))
                d = rv["vi"]
                if a:
                    for v in a["variants"]:
                        if v["idx"] == rv["vi"]:
                            d = v["discr"]
                return ("adt", rv.get("adt"), d, [self._operand(o, vals, env) for o in rv["ops"]])
            return ("opaque", "agg")
        if "bin" in rv:
            return ("lazybin", rv["bin"], self._operand(rv["a"], vals, env), self._operand(rv["b"], vals, env))
        if "un" in rv:
            return ("lazyun", rv["un"], self._operand(rv["a"], vals, env))
        if "cast" in rv:
            return self._operand(rv["cast"], vals, env)
        raise NotAnalysable("rvalue %s" % list(rv)[:2])

    def _operand(self, op, vals, env):
        k = op_const(op)
        if k is not None:
            if "int" in k:
                return k["int"]
            return ("const", k.get("v"))
        return self._place(op_place(op), vals, env)

    def _place(self, pl, vals, env):
        b = self.b
        l = pl["l"]
        key = "place:" + b.expr(pl)
        if key in vals:
            return vals[key]
        if l in vals:
            v = vals[l]
            return self._project(v, pl["p"], vals, env, pl)
        # an input: parameter or something reachable from it
        if l == 0 or l > b.arg_count:
            raise NotAnalysable("read of uninitialised local _%d in %s" % (l, b.id))
        return ("sym", "in:" + b.expr(pl), pl["ty"])

    def _project(self, v, proj, vals, env, whole):
        for i, e in enumerate(proj):
            if e == "*":
                if isinstance(v, tuple) and v and v[0] == "ref":
                    v = self._place(v[1], vals, env)
                elif isinstance(v, tuple) and v and v[0] == "sym":
                    v = ("sym", v[1] + ".*", whole["ty"])
                else:
                    raise NotAnalysable("deref of %s" % (v,))
            elif isinstance(e, dict) and "f" in e:
                if isinstance(v, tuple) and v and v[0] == "tuple":
                    v = v[1][e["f"]]
                elif isinstance(v, tuple) and v and v[0] == "adt":
                    v = v[3][e["f"]]
                elif isinstance(v, tuple) and v and v[0] == "sym":
                    v = ("sym", v[1] + "." + e["n"], e["ty"])
                elif isinstance(v, tuple) and v and v[0] == "lazybin" and v[1].endswith("WithOverflow"):
                    v = 0 if e["f"] == 1 else ("opaque", "arith")
                elif isinstance(v, tuple) and v and v[0] == "opaque":
                    v = ("opaque", "field")
                else:
                    raise NotAnalysable("field of %s" % (v,))
            elif isinstance(e, dict) and "dc" in e:
                continue
            else:
                raise NotAnalysable("projection %s" % (e,))
        return v

    def _int(self, v, vals, env):
        if isinstance(v, bool):
            return int(v)
        if isinstance(v, int):
            return v
        if isinstance(v, tuple):
            if v[0] == "sym":
                if v[1] in env:
                    return env[v[1]]
                raise Need(v[1], v[2])
            if v[0] == "lazybin":
                op = v[1]
                a = self._int(v[2], vals, env)
                c = self._int(v[3], vals, env)
                table = {"Eq": lambda: int(a == c), "Ne": lambda: int(a != c), "Lt": lambda: int(a < c),
                         "Le": lambda: int(a <= c), "Gt": lambda: int(a > c), "Ge": lambda: int(a >= c),
                         "BitAnd": lambda: a & c, "BitOr": lambda: a | c, "BitXor": lambda: a ^ c}
                if op not in table:
                    raise NotAnalysable("binary op %s" % op)
                return table[op]()
            if v[0] == "lazyun":
                a = self._int(v[2], vals, env)
                if v[1] == "Not":
                    return 1 - a
                raise NotAnalysable("unary op %s" % v[1])
            if v[0] == "discr_of":
                inner = self._place(v[1], vals, env)
                if isinstance(inner, tuple) and inner[0] == "adt":
                    return inner[2]
                return self._int(inner, vals, env)
            if v[0] == "adt":
                return v[2]
            if v[0] == "ref":
                return self._int(self._place(v[1], vals, env), vals, env)
        raise NotAnalysable("not a finite value: %s" % (v,))

    def sym_key(self, v, vals, env):
        """canonical key of a (possibly referenced) symbolic value, or None if concrete"""
        if isinstance(v, tuple) and v[0] == "ref":
            v = self._place(v[1], vals, env)
        if isinstance(v, tuple) and v[0] == "sym":
            return v[1]
        return None

    def arg_value(self, t, i, vals, env):
        return self._operand(t["args"][i], vals, env)
