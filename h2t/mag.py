"""MAG — magnitude classes of integer values (interprocedural, context-insensitive, field-based).

A class is a bit set: 0 = Small (constants, bools, chars, discriminants), ALLOC = bounded by live memory
(lengths, counts, display widths and sums of them), WIDTH = a caller-supplied number (render width,
wrap widths: anything up to usize::MAX), ATTR = parsed from document/stylesheet text (colspan, <ol start>,
nth-child coefficients: anything the integer type can hold), TOP = unknown.  Join is union; classes only
grow, the analysis is a fixpoint over all bodies.  Locals are flow-insensitive (join over definitions);
fields are joins over all writers (struct literals, field stores, closure captures)."""
from .facts import callee_def, op_const, op_place, is_bare
from .util import callee_method, ends

SMALL, ALLOC, WIDTH, ATTR, TOP = 0, 1, 2, 4, 8
NAMES = {0: "Small", 1: "Alloc", 2: "Width", 4: "Attr", 8: "Top"}


def show(c):
    if c == 0:
        return "Small"
    return "|".join(NAMES[b] for b in (1, 2, 4, 8) if c & b)


def le_alloc(c):
    return c is not None and (c & ~ALLOC) == 0


INT_TYPES = ("usize", "u64", "u32", "u16", "u8", "isize", "i64", "i32", "i16", "i8", "u128", "i128")
WIDE = ("usize", "u64", "isize", "i64", "u128", "i128")

# std summaries: method -> how the result class derives from argument classes
ALLOC_RESULT = {"len", "count", "width", "width_cjk", "capacity", "char_indices", "enumerate", "position", "find",
                "rfind", "text_len", "size_hint", "strong_count", "weak_count", "len_utf8", "to_digit", "leading_zeros",
                "trailing_zeros", "count_ones"}
SMALL_RESULT = {"len_utf8", "to_digit", "is_empty", "is_some", "is_none", "eq", "ne", "lt", "le", "gt", "ge", "contains",
                "starts_with", "ends_with", "is_whitespace", "is_ascii_digit", "cmp", "partial_cmp", "is_hex_digit",
                "to_ascii_lowercase", "all", "any"}
PARSE = {"parse", "from_str", "from_str_radix"}
PASS_FIRST = {"saturating_sub", "checked_sub", "wrapping_sub", "unwrap", "expect", "unwrap_or_default", "clone", "deref",
              "deref_mut", "borrow", "borrow_mut", "as_ref", "as_mut", "get", "get_mut", "to_owned", "into", "from", "ok",
              "cloned", "copied", "branch", "take", "as_str", "last", "first", "last_mut", "first_mut", "index", "index_mut",
              "unwrap_unchecked", "abs", "into_iter", "iter", "iter_mut", "map", "rev", "get_or_insert_with", "get_or_insert",
              "from_residual", "peek", "next", "next_back", "nth", "sum", "product", "max_by_key", "min_by_key", "fold",
              "pow", "div_euclid", "rem_euclid", "rem", "div", "to_string", "chars", "bytes", "trim", "split_whitespace",
              "unwrap_or_else", "map_err", "ok_or", "and_then", "filter", "cells", "rows", "cells_mut"}
JOIN_ALL = {"max", "unwrap_or", "saturating_add", "checked_add", "wrapping_add", "add", "chain", "zip", "saturating_mul",
            "checked_mul", "wrapping_mul", "mul", "new", "set", "replace", "or", "or_else", "push", "insert", "extend",
            "add_assign", "sub", "sub_assign"}
MEET = {"min"}
CLOSURE_RESULT = {"map", "map_or", "map_or_else", "and_then", "unwrap_or_else", "filter_map", "flat_map", "fold", "or_else",
                  "get_or_insert_with", "then", "scan", "try_fold", "reduce", "is_some_and"}


class Mag:
    def __init__(self, F, roots_public_params=True):
        self.F = F
        self.local = {}     # (body id, local) -> class
        self.field = {}     # (owner, name) -> class
        self.ret = {}       # body id -> class
        self.param = {}     # (body id, argidx) -> class
        self._run()

    # -- lookups
    def cls_local(self, b, l):
        return self.local.get((b.id, l), 0)

    def cls_place(self, b, pl):
        fs = [e for e in pl["p"] if isinstance(e, dict) and "f" in e]
        named = [e for e in fs if self._tracked_owner(e["o"])]
        if named:
            e = named[-1]
            return self.field.get((e["o"], e["n"]), 0)
        c = self.cls_local(b, pl["l"])
        for e in pl["p"]:
            if isinstance(e, dict) and "idx" in e:
                pass
        return c

    @staticmethod
    def _tracked_owner(o):
        if not o or o == "tuple":
            return False
        if o.startswith(("std::", "core::", "alloc::")):
            return False
        return True

    def cls_op(self, b, op):
        if op is None:
            return 0
        k = op_const(op)
        if k is not None:
            return 0
        return self.cls_place(b, op_place(op))

    # -- fixpoint
    def _run(self):
        F = self.F
        # sources: integer parameters of public functions are caller-supplied numbers
        for b in F.bodies.values():
            if b.raw.get("public") and b.kind != "Closure":
                for i in range(1, b.arg_count + 1):
                    if b.local_ty(i) in INT_TYPES:
                        self.param[(b.id, i)] = WIDTH
        changed = True
        rounds = 0
        while changed and rounds < 40:
            rounds += 1
            changed = False
            for b in F.bodies.values():
                if self._body(b):
                    changed = True
        self.rounds = rounds

    def _load_caps(self):
        """tables/mag_invariants.txt: reviewed upper bounds on the class of a function result or a field —
        `ret <function id> <class> :: invariant` / `field <owner> <name> <class> :: invariant`.  The analysis is
        field-based and flow-insensitive; an invariant established by construction (e.g. colspans after the remap
        in RenderTable::new) is stated once here instead of at every site downstream."""
        import os
        from .facts import VERIF
        caps = {}
        names = {"Small": 0, "Alloc": ALLOC, "Width": WIDTH, "Attr": ATTR}
        p = os.path.join(VERIF, "tables", "mag_invariants.txt")
        if os.path.exists(p):
            for line in open(p):
                line = line.strip()
                if not line or line.startswith("#"):
                    continue
                head = line.split(" :: ")[0].split()
                mask = 0
                for nm in head[-1].split("|"):
                    mask |= names[nm]
                if head[0] == "ret":
                    caps[("ret", " ".join(head[1:-1]))] = mask
                elif head[0] == "field":
                    caps[("field", head[1], head[2])] = mask
        return caps

    def _up(self, table, key, c):
        if getattr(self, "caps", None) is None:
            self.caps = self._load_caps()
            self.caps_used = set()
        if table is self.ret and ("ret", key) in self.caps:
            c &= self.caps[("ret", key)]
            self.caps_used.add(("ret", key))
        elif table is self.field and ("field", key[0], key[1]) in self.caps:
            c &= self.caps[("field", key[0], key[1])]
            self.caps_used.add(("field", key[0], key[1]))
        old = table.get(key, 0)
        new = old | c
        if new != old:
            table[key] = new
            return True
        return False

    def _body(self, b):
        ch = False
        for i in range(1, b.arg_count + 1):
            c = self.param.get((b.id, i), 0)
            if c:
                ch |= self._up(self.local, (b.id, i), c)
        for bb in b.reachable():
            for st in b.stmts(bb):
                if st["k"] != "assign":
                    continue
                c = self._rv(b, st["rv"])
                ch |= self._store(b, st["lhs"], c)
                rv = st["rv"]
                if rv.get("agg") in ("adt", "closure"):
                    owner = rv.get("adt") if rv["agg"] == "adt" else "closure:" + rv["def"]
                    if rv["agg"] == "adt":
                        a = self.F.adts.get(rv["adt"])
                        if a and a["kind"] == "enum":
                            owner = "%s::%s" % (rv["adt"], rv["variant"])
                    if self._tracked_owner(owner):
                        for fn, o in zip(rv.get("fields", []), rv["ops"]):
                            ch |= self._up(self.field, (owner, fn), self.cls_op(b, o))
            t = b.term(bb)
            if t["k"] == "call":
                c = self._call(b, t)
                ch |= self._store(b, t["dest"], c)
                cd = callee_def(t)
                cb = self.F.bodies.get(cd)
                if cb is not None and cb.kind != "Closure":
                    for ai, a in enumerate(t["args"]):
                        ch |= self._up(self.param, (cb.id, ai + 1), self.cls_op(b, a))
                # a &mut reference handed to a call: the referent may be written with any of the arguments' classes
                m = callee_method(t)
                if m in ("set", "replace", "push", "insert", "extend", "add_assign", "sub_assign", "push_str"):
                    tgt = t["args"][0] if t["args"] else None
                    pl = self._deref_origin(b, tgt)
                    if pl is not None:
                        cc = 0
                        for a in t["args"][1:]:
                            cc |= self.cls_op(b, a)
                        ch |= self._store(b, pl, cc)
        # return class
        ch |= self._up(self.ret, b.id, self.cls_local(b, 0))
        return ch

    def _closure_ret(self, b, op):
        """return class of the closure passed as operand `op` (a local holding a closure aggregate), else None"""
        pl = op_place(op)
        if pl is None:
            k = op_const(op)
            if k is not None and "fn" in k:
                fid = k["fn"].get("resolved") or k["fn"].get("def")
                if fid in self.F.bodies:
                    return self.ret.get(fid, 0)  # a function item passed instead of a closure (`map(Row::num_cells)`)
            return None
        if pl["p"]:
            return None
        sd = b.single_def(pl["l"])
        hops = 0
        while sd and sd[0] == "stmt" and "use" in (sd[3].get("rv") or {}) and op_place(sd[3]["rv"]["use"]) is not None and hops < 4:
            p2 = op_place(sd[3]["rv"]["use"])
            if p2["p"]:
                return None
            sd = b.single_def(p2["l"])
            hops += 1
        if sd and sd[0] == "stmt" and (sd[3].get("rv") or {}).get("agg") == "closure":
            cid = sd[3]["rv"].get("def")
            if cid in self.F.bodies:
                return self.ret.get(cid, 0)
        return None

    def _deref_origin(self, b, op):
        pl = op_place(op) if op else None
        depth = 5
        while pl is not None and depth > 0:
            depth -= 1
            if pl["p"] and any(isinstance(e, dict) and "f" in e for e in pl["p"]):
                return pl
            sd = b.single_def(pl["l"])
            if not sd or sd[0] != "stmt":
                return pl
            rv = sd[3].get("rv") or {}
            if "ref" in rv:
                pl = rv["ref"]
            elif "use" in rv and op_place(rv["use"]) is not None:
                pl = op_place(rv["use"])
            else:
                return pl
        return pl

    def _store(self, b, lhs, c):
        ch = False
        fs = [e for e in lhs["p"] if isinstance(e, dict) and "f" in e]
        named = [e for e in fs if self._tracked_owner(e["o"])]
        if named:
            e = named[-1]
            ch |= self._up(self.field, (e["o"], e["n"]), c)
        else:
            ch |= self._up(self.local, (b.id, lhs["l"]), c)
        return ch

    def _rv(self, b, rv):
        if "use" in rv:
            return self.cls_op(b, rv["use"])
        if "ref" in rv:
            return self.cls_place(b, rv["ref"])
        if "rawptr" in rv:
            return self.cls_place(b, rv["rawptr"])
        if "bin" in rv:
            op = rv["bin"]
            a, c = self.cls_op(b, rv["a"]), self.cls_op(b, rv["b"])
            if op in ("Eq", "Ne", "Lt", "Le", "Gt", "Ge", "Cmp"):
                return 0
            if op.startswith("Sub") or op in ("Div", "Rem", "Shr", "ShrUnchecked"):
                return a
            if op in ("BitAnd",):
                return a if (a & ~c) == 0 or c else (a & c)
            return a | c
        if "un" in rv:
            return self.cls_op(b, rv["a"])
        if "cast" in rv:
            return self.cls_op(b, rv["cast"])
        if "discr" in rv:
            return 0
        if "agg" in rv:
            c = 0
            for o in rv["ops"]:
                c |= self.cls_op(b, o)
            return c
        if "repeat" in rv:
            return self.cls_op(b, rv["repeat"])
        return 0

    def _call(self, b, t):
        cd = callee_def(t)
        m = callee_method(t)
        args = [self.cls_op(b, a) for a in t["args"]]
        cb = self.F.bodies.get(cd)
        if cb is not None:
            return self.ret.get(cb.id, 0)
        c = t.get("callee") or {}
        if cd is None:
            return TOP if False else (max(args) if args else 0)
        if m in PARSE or (cd or "").endswith("::parse") or (cd or "").endswith("::from_str"):
            return ATTR
        if c.get("trait") and c.get("resolved") is None and ends(c.get("trait"), "TextDecorator"):
            return ALLOC  # strings from a decorator: their sizes are memory-bounded
        if m in SMALL_RESULT and m not in ALLOC_RESULT:
            return 0
        if m in ALLOC_RESULT:
            return ALLOC
        if m in MEET and len(args) >= 2:
            a, c2 = args[0], args[1]
            if (a & ~c2) == 0:
                return a
            if (c2 & ~a) == 0:
                return c2
            return a if bin(a).count("1") <= bin(c2).count("1") else c2
        if m in CLOSURE_RESULT and args:
            # the result (or the elements of the resulting iterator) is what the closure returns, joined with the
            # receiver / default arguments
            c3 = 0
            crs = [self._closure_ret(b, op) for op in t["args"]]
            if m in ("map", "filter_map", "flat_map", "scan", "then") and any(cr is not None for cr in crs):
                # the elements of the result are exactly what the closure returns
                for cr in crs:
                    if cr is not None:
                        c3 |= cr
                return c3
            for a, cr in zip(args, crs):
                c3 |= a if cr is None else cr
            return c3
        if m in PASS_FIRST and args:
            return args[0]
        if m in JOIN_ALL:
            c3 = 0
            for a in args:
                c3 |= a
            return c3
        if m in ("repeat", "format", "to_string", "push_str", "collect", "default", "with_capacity"):
            c3 = 0
            for a in args:
                c3 |= a
            return c3 & ~0 if m != "default" else 0
        # unknown external call: join of arguments (a pure function of its inputs cannot invent magnitude)
        c3 = 0
        for a in args:
            c3 |= a
        return c3
