"""Width-plumbing rules shared by C02 (no line wider than the width) and C07 (block prefixes)."""
from .facts import AnchorMissing, callee_def, op_place, op_const, is_bare
from .util import (SUBR, RTRAIT, ends, site, fn_key, callee_method, require, has_call, has_field, find_dispatch,
                   closure_bodies_created_in, transitive_closures, edge_is_true, src_field, edges_where,
                   unreachable_without_edges, deep_atoms, direct_field, direct_place, field_accesses, origin,
                   place_fields)
from . import options

PREFIX_OF = {"Header": "header_prefix", "BlockQuote": "quote_prefix", "Ul": "unordered_item_prefix",
             "Ol": "ordered_item_prefix", "Dd": None}
PREFIX_METHODS = tuple(m for m in PREFIX_OF.values() if m)


def _unwrap_calls(s, names):
    """remove wrapper calls `name(X)` -> `X` (balanced parentheses)"""
    changed = True
    while changed:
        changed = False
        for nm in names:
            i = s.find(nm + "(")
            if i < 0:
                continue
            j = i + len(nm) + 1
            depth = 1
            k = j
            while k < len(s) and depth > 0:
                depth += s[k] == "("
                depth -= s[k] == ")"
                k += 1
            if depth == 0:
                s = s[:i] + s[j:k - 1] + s[k:]
                changed = True
    return s


def norm(s):
    import re
    s = re.sub(r"\{closure#\d+\}", "{closure}", s)
    # iterating a slice of Copy values by reference, cloned or copied is the same sequence of values
    s = _unwrap_calls(s, ("Iterator::cloned", "Iterator::copied"))
    return desat(s.replace(").0", ")").replace("arg1.", "").replace("_1.", ""))


def _split_args(s):
    out, depth, cur = [], 0, ""
    for ch in s:
        if ch in "([{<":
            depth += 1
        elif ch in ")]}>":
            depth -= 1
        if ch == "," and depth == 0:
            out.append(cur.strip())
            cur = ""
        else:
            cur += ch
    if cur.strip():
        out.append(cur.strip())
    return out


def desat(s):
    """rewrite saturating/checked/wrapping add/sub calls as infix arithmetic so that a repair of an overflow
    (`a + b` -> `a.saturating_add(b)`) keeps the same canonical form: the rules are about *which* quantities are
    combined, not about how overflow is handled."""
    import re
    for name, op in (("saturating_add", "+"), ("checked_add", "+"), ("wrapping_add", "+"),
                     ("saturating_sub", "-s"), ):
        while True:
            m = re.search(r"(<impl \w+>::|core::num::<impl \w+>::)?%s\(" % name, s)
            if not m or op == "-s":
                break
            start = m.end()
            depth, i = 1, start
            while i < len(s) and depth > 0:
                if s[i] in "([{":
                    depth += 1
                elif s[i] in ")]}":
                    depth -= 1
                i += 1
            inner = s[start:i - 1]
            args = _split_args(inner)
            if len(args) != 2:
                break
            s = s[:m.start()] + "(%s %s %s)" % (args[0], op, args[1]) + s[i:]
    return s


def stop_prefix(c):
    return bool(c) and any(c.endswith("::" + s) for s in PREFIX_METHODS)


def arms_of_do_render_node(F):
    """{variant name: (entry block, set of blocks dominated by it)}"""
    drn = F.one("do_render_node")
    info = F.adt("RenderNodeInfo")
    names = {v["discr"]: v["name"] for v in info["variants"]}
    disp = find_dispatch(drn, "RenderNodeInfo", 10)
    arms = {}
    for v, tb in drn.term(disp)["targets"]:
        arms.setdefault(tb, []).append(names.get(v, str(v)))
    out = {}
    for tb, vs in arms.items():
        region = {x for x in drn.reachable() if drn.dominates(tb, x)}
        for vn in vs:
            out[vn] = (tb, region)
    return drn, out


def arm_bodies(F, drn, region):
    """the arm's own blocks plus the closures created in them: [(body, blocks or None)]"""
    out = [(drn, region)]
    for (bb, i, cb, ops, fields) in closure_bodies_created_in(F, drn):
        if bb in region:
            out.append((cb, None))
            for _b2, c2 in transitive_closures(F, cb):
                out.append((c2, None))
    return out


def calls_in(body, blocks, pred):
    return [(bb, t) for bb, t in body.calls(pred) if blocks is None or bb in blocks]


# ---------------------------------------------------------------------------------------------
def rule_wrap_width(ctx, rid):
    """C02-A: the wrapped block is never wider than the renderer: width argument of the only
    WrappedBlock::new is width or min(_, width); block/renderer width fields have no later writer."""
    F = ctx.facts
    wn = F.call_sites(lambda cd, t: ends(cd, "WrappedBlock::<T>::new"))
    ctx.floor(rid, "WrappedBlock::new call sites", len(wn), 1)
    cbw, tw, kinds = block_width_kinds(F)
    ctx.check(len(wn) == 1 and kinds in (["min", "width"], ["map_or-min"]), rid, "block-width≤renderer-width@%s" % fn_key(cbw), tw["span"], cbw.id,
              "block width computed as %s; must be width or min(_, width)" % kinds)
        # `width` is the renderer's width: get_wrapping_or_insert's callers pass self.width
    gw = F.one("get_wrapping_or_insert")
    cs = F.call_sites(lambda cd, t: cd == gw.id)
    ctx.floor(rid, "get_wrapping_or_insert call sites", len(cs), 2)
    for (b, bb, t) in cs:
        ctx.check(direct_field(b, t["args"][2]) == (SUBR, "width"), rid, "wrapping-width=self.width@%s" % fn_key(b), t["span"], b.id,
                  "passes %s" % b.expr(t["args"][2]))
    for owner, name in (("WrappedBlock", "width"), (SUBR, "width")):
        ws = options.writes(F, owner, name)
        ctx.check(not ws, rid, "%s.width:no-writer-after-construction" % owner.split("::")[-1], "", "",
                  "%s" % [(b.id, site(b, bb, w)) for b, bb, w, _ in ws])


def block_width_kinds(F):
    """How the closure in get_wrapping_or_insert computes the width of a new WrappedBlock, classified semantically:
    'width' (the renderer width handed in), 'min' (min(wrap_width value, width)), 'map_or-min'
    (wrap_width.map_or(width, |m| min(m, width))), or '?<canonical form>'.  Returns (closure body, call term, kinds)."""
    gw = F.one("get_wrapping_or_insert")
    cls = [cb for _bb, _i, cb, _o, _f in closure_bodies_created_in(F, gw) if cb.calls(lambda cd, t: ends(cd, "WrappedBlock::<T>::new"))]
    require(len(cls) == 1, "get_wrapping_or_insert builds the block in one closure")
    cb = cls[0]
    wn = cb.calls(lambda cd, t: ends(cd, "WrappedBlock::<T>::new"))
    require(len(wn) == 1, "one WrappedBlock::new in get_wrapping_or_insert")
    t = wn[0][1]
    # the renderer width: the third parameter of get_wrapping_or_insert, captured by the closure
    def is_width(c):
        return c in ("up{&arg3}", "up{arg3}", "arg3")
    pl = op_place(t["args"][0])
    defs = [r for r in cb.defs()[pl["l"]] if r[0] in ("stmt", "call")] if pl is not None and is_bare(pl) else []
    hops = 0
    while len(defs) == 1 and defs[0][0] == "stmt" and "use" in defs[0][3]["rv"] and op_place(defs[0][3]["rv"]["use"]) is not None \
            and is_bare(op_place(defs[0][3]["rv"]["use"])) and hops < 6 and not is_width(norm(cb.canon(defs[0][3]["rv"]["use"]))):
        pl = op_place(defs[0][3]["rv"]["use"])
        defs = [r for r in cb.defs()[pl["l"]] if r[0] in ("stmt", "call")]
        hops += 1
    kinds = []
    block_width_kinds.last_defs = defs
    for r in defs:
        if r[0] == "stmt" and "use" in r[3]["rv"]:
            c = norm(cb.canon(r[3]["rv"]["use"]))
            kinds.append("width" if is_width(c) else "?" + c[:80])
        elif r[0] == "call":
            m = callee_method(r[2])
            args = [norm(cb.canon(a)) for a in r[2]["args"]]
            if m == "min" and len(args) == 2 and any(is_width(a) for a in args) and any("wrap_width" in a for a in args):
                kinds.append("min")
            elif m == "map_or" and len(args) == 3 and "wrap_width" in args[0] and is_width(args[1]):
                okc = False
                for (_b2, _i2, c2, _o2, _f2) in closure_bodies_created_in(F, cb):
                    rets = [x for x in c2.defs().get(0, ()) if x[0] == "call" and callee_method(x[2]) == "min"]
                    if len(rets) == 1 and len(c2.defs().get(0, ())) == 1:
                        a2 = [norm(c2.canon(a)) for a in rets[0][2]["args"]]
                        if "arg2" in a2 and any("arg3" in a for a in a2 if a != "arg2"):
                            okc = True
                kinds.append("map_or-min" if okc else "?map_or(%s)" % ", ".join(args)[:80])
            else:
                kinds.append("?%s(%s)" % (m, ", ".join(args)[:80]))
        else:
            kinds.append("?")
    return cb, t, sorted(kinds)


def _def_forms(b, pl):
    if pl is None or not is_bare(pl):
        return []
    defs = [r for r in b.defs()[pl["l"]] if r[0] in ("stmt", "call")]
    while len(defs) == 1 and defs[0][0] == "stmt" and "use" in defs[0][3]["rv"] and op_place(defs[0][3]["rv"]["use"]) is not None \
            and is_bare(op_place(defs[0][3]["rv"]["use"])):
        pl = op_place(defs[0][3]["rv"]["use"])
        defs = [r for r in b.defs()[pl["l"]] if r[0] in ("stmt", "call")]
    forms = []
    for r in defs:
        if r[0] == "call":
            forms.append(norm("%s(%s)" % (callee_method(r[2]), ",".join(sorted(norm(b.expr(a)) for a in r[2]["args"])))))
        else:
            forms.append(norm(b.expr(r[3]["rv"].get("use") or {"l": 0, "p": []})))
    return sorted(forms)


def rule_sub_widths(ctx, rid):
    """C02-B: every sub-renderer width comes from width_minus on the same renderer or from the
    allocated column width."""
    F = ctx.facts
    cs = F.call_sites(lambda cd, t: callee_method(t) == "new_sub_renderer")
    n = 0
    for (b, bb, t) in cs:
        n += 1
        o = origin(b, t["args"][1])
        from_wm = o is not None and o[0] == "call" and ends(callee_def(o[1]), "SubRenderer::<D>::width_minus")
        from_col = o is not None and o[0] == "place" and place_fields(o[1])[-1:] == [("RenderTableCell", "col_width")]
        what = ("call " + str(callee_def(o[1]))) if (o and o[0] == "call") else (b.expr(o[1]) if (o and o[0] == "place") else str(o))
        ctx.check(from_wm or from_col, rid, "sub-width-source@%s#%s" % (fn_key(b), norm(what)[-40:]),
                  t["span"], b.id, "a nested block's width must be the result of width_minus(..) or the allocated column width; "
                  "it is %s" % norm(what)[:100])
    ctx.floor(rid, "new_sub_renderer call sites", n, 7)


def rule_width_minus_def(ctx, rid):
    """C02-C: width_minus is max(saturating_sub(self.width, prefix_len), min_width)."""
    F = ctx.facts
    b = F.one("SubRenderer::<D>::width_minus")
    oks = []
    for bb in b.reachable():
        for st in b.stmts(bb):
            rv = st.get("rv") or {}
            if st["k"] == "assign" and st["lhs"]["l"] == 0 and rv.get("agg") == "adt" and rv.get("variant") == "Ok":
                oks.append(norm(b.expr_top(rv["ops"][0], expand_named=True)))
    want = {"Ord::max(<impl usize>::saturating_sub(self.width, prefix_len), min_width)",
            "Ord::max(min_width, <impl usize>::saturating_sub(self.width, prefix_len))"}
    okc = len(oks) == 1 and oks[0] in want
    if not okc and sorted(oks) == sorted(["<impl usize>::saturating_sub(self.width, prefix_len)", "min_width"]):
        # the same maximum written as a branch: Ok(width − prefix) where it is >= min_width, Ok(min_width) where it is <=
        S, M = "<impl usize>::saturating_sub(self.width, prefix_len)", "min_width"
        okc = True
        for bb in b.reachable():
            for st in b.stmts(bb):
                rv = st.get("rv") or {}
                if not (st["k"] == "assign" and st["lhs"]["l"] == 0 and rv.get("agg") == "adt" and rv.get("variant") == "Ok"):
                    continue
                val = norm(b.expr_top(rv["ops"][0], expand_named=True))
                facts_ = set()
                for a in b.reachable():
                    if b.term(a)["k"] != "switch" or not b.dominates(a, bb) or a == bb:
                        continue
                    for s2 in b.succ(a):
                        if not (b.dominates(s2, bb) and len(b.pred(s2)) == 1):
                            continue
                        truth, src = edge_is_true(b, a, s2)
                        if truth is None or not src or src[0] != "bin":
                            continue
                        x, y = norm(b.expr_top(src[1]["a"], expand_named=True)), norm(b.expr_top(src[1]["b"], expand_named=True))
                        op = src[1]["bin"]
                        if not truth:
                            op = {"Lt": "Ge", "Le": "Gt", "Gt": "Le", "Ge": "Lt"}.get(op, "?")
                        if op in ("Gt", "Ge"):
                            op, x, y = {"Gt": "Lt", "Ge": "Le"}[op], y, x
                        facts_.add((op, x, y))   # x < y or x <= y
                if val == S:
                    okc = okc and bool(facts_ & {("Le", M, S), ("Lt", M, S)})
                else:
                    okc = okc and bool(facts_ & {("Le", S, M), ("Lt", S, M)})
    ctx.check(okc, rid, "width_minus=max(width−prefix,min)", b.span, b.id, "Ok value: %s" % oks)


def rule_prefix_pairing(ctx, rid):
    """C02-D / C07-B: in every prefixed block the width subtracted is the display width of the prefix that
    is later attached (same decorator method), or the estimate's prefix_size computed from that method."""
    F = ctx.facts
    drn, arms = arms_of_do_render_node(F)
    cse = F.one("RenderNode::calc_size_estimate")
    n = 0
    for vn, meth in PREFIX_OF.items():
        if vn not in arms:
            raise AnchorMissing("arm %s" % vn)
        tb, region = arms[vn]
        bodies = arm_bodies(F, drn, region)
        wms, subs = [], []
        for body, blocks in bodies:
            wms += [(body, bb, t) for bb, t in calls_in(body, blocks, lambda cd, t: ends(cd, "SubRenderer::<D>::width_minus"))]
            subs += [(body, bb, t) for bb, t in calls_in(body, blocks, lambda cd, t: callee_method(t) == "append_subrender")]
        if not ctx.check(len(wms) == 1 and len(subs) == 1, rid, "%s:one-width_minus-one-append" % vn, drn.term(tb)["span"], drn.id,
                         "width_minus calls=%d append_subrender calls=%d" % (len(wms), len(subs))):
            continue
        n += 1
        wb, wbb, wt = wms[0]
        sb, sbb, st_ = subs[0]
        a0 = deep_atoms(F, wb, wt["args"][1], stop_calls=stop_prefix)
        pa = deep_atoms(F, sb, st_["args"][2], stop_calls=stop_prefix)
        if meth is None:
            okw = ("int", 2) in a0 and not any(a[0] in ("call", "field") for a in a0)
            lits = [a[1] for a in pa if a[0] == "const" and a[1].startswith('"')]
            okp = lits == ['"  "']
            ctx.check(okw and okp, rid, "%s:subtracts-2-attaches-2-columns" % vn, wt["span"], drn.id,
                      "subtracted %s, attached %s" % (norm(wb.expr(wt["args"][1])), lits))
            continue
        src_w = any(a[0] == "call" and a[1] and a[1].endswith("::" + meth) for a in a0)
        via_width = has_call(a0, "UnicodeWidthStr>::width", "UnicodeWidthStr::width")
        via_est = has_field(a0, "SizeEstimate", "prefix_size") and not src_w
        src_p = any(a[0] == "call" and a[1] and a[1].endswith("::" + meth) for a in pa)
        other_p = [a[1] for a in pa if a[0] == "call" and a[1] and stop_prefix(a[1]) and not a[1].endswith("::" + meth)]
        arith = sorted({a[1] for a in a0 if a[0] == "bin"})
        okc = src_p and not other_p and ((src_w and via_width) or via_est) and not arith
        ctx.check(okc, rid, "%s:subtracted-prefix=attached-prefix(%s)" % (vn, meth), wt["span"], drn.id,
                  "width_minus(%s): from %s%s; attached prefix from %s" % (
                      norm(wb.expr(wt["args"][1])), meth if src_w else ("estimate.prefix_size" if via_est else "?"),
                      " via display width" if via_width else "", meth if src_p else other_p))
        if via_est:
            # the estimate's prefix_size for this node kind is the display width of the same method's string
            earms = _estimate_arm(F, cse, vn)
            okc = False
            for x in earms:
                for s2 in cse.stmts(x):
                    if s2["k"] == "assign" and s2["lhs"]["p"] and isinstance(s2["lhs"]["p"][-1], dict) and \
                            s2["lhs"]["p"][-1].get("n") == "prefix_size" and "use" in s2["rv"]:
                        at = cse.atoms(s2["rv"]["use"], stop_calls=stop_prefix)
                        if any(a[0] == "call" and a[1] and a[1].endswith("::" + meth) for a in at) and \
                                has_call(at, "UnicodeWidthStr>::width", "UnicodeWidthStr::width"):
                            okc = True
            ctx.check(okc, rid, "%s:estimate.prefix_size=width(%s)" % (vn, meth), cse.span, cse.id, "")
    ctx.floor(rid, "prefixed block arms", n, 5)


def _estimate_arm(F, cse, vn):
    info = F.adt("RenderNodeInfo")
    dv = [v["discr"] for v in info["variants"] if v["name"] == vn][0]
    disp = find_dispatch(cse, "RenderNodeInfo", 10)
    tb = [tb for v, tb in cse.term(disp)["targets"] if v == dv]
    if not tb:
        return []
    return [x for x in cse.reachable() if cse.dominates(tb[0], x)]


def rule_line_emitters_need_a_column(ctx, rid):
    """A node kind whose render arm unconditionally starts a line of its own (Renderer::new_line_hard: <br>) must be
    estimated at min_width >= 1: width_minus refuses a sub-block (TooNarrow) only when the space left after the
    prefix is smaller than the children's min_width, so an estimate of 0 lets a marker wider than the page be
    attached to the emitted (empty) line."""
    F = ctx.facts
    drn, arms = arms_of_do_render_node(F)
    cse = F.one("RenderNode::calc_size_estimate")
    n = 0
    for vn, (tb, region) in sorted(arms.items()):
        hard = [(bb, t) for bb, t in drn.calls(lambda cd, t: ends(cd, RTRAIT + "new_line_hard")) if bb in region]
        if not hard:
            continue
        n += 1
        blocks = _estimate_arm(F, cse, vn)
        aggs = [st["rv"] for x in blocks for st in cse.stmts(x)
                if (st.get("rv") or {}).get("agg") == "adt" and (st.get("rv") or {}).get("adt") == "SizeEstimate"]
        okc = bool(aggs)
        for rv in aggs:
            k = op_const(rv["ops"][rv["fields"].index("min_width")]) if "min_width" in rv.get("fields", []) else None
            if not (k is not None and isinstance(k.get("int"), int) and k["int"] >= 1):
                okc = False
        ctx.check(okc, rid, "%s:line-emitter-estimate.min_width>=1" % vn, cse.span, cse.id,
                  "a %s node starts a line of its own (new_line_hard) but its size estimate does not reserve a column "
                  "(min_width is not a constant >= 1, or the arm falls back to the all-zero default): a prefixed block "
                  "holding only such nodes is then laid out %s wider than the page instead of failing with TooNarrow"
                  % (vn, "with its marker"))
    ctx.floor(rid, "node kinds that start a line of their own", n, 1)


def rule_line_pushes_guarded(ctx, rid):
    """C02-E (INV-LINE): every append to the current line inside WrappedBlock is dominated by a width
    comparison or by a flush of the line; zero-width markers are exempt."""
    F = ctx.facts
    n = 0
    for b in F.bodies.values():
        if not b.id.startswith("render::text_renderer::WrappedBlock::<T>::"):
            continue
        for bb, t in b.calls(lambda cd, t: callee_method(t) in ("push", "push_ws", "push_char", "consume", "push_str", "insert_front")
                             and bool(t["args"])):
            if direct_field(b, t["args"][0]) != ("render::text_renderer::WrappedBlock", "line"):
                continue
            n += 1
            guards = []
            for a in b.reachable():
                if b.term(a)["k"] != "switch" or not b.dominates(a, bb) or a == bb:
                    continue
                neg, src = b.switch_source(a)
                if src[0] == "bin" and src[1]["bin"] in ("Le", "Lt", "Ge", "Gt", "Eq", "Ne"):
                    at = b.atoms(src[1]["a"], through_calls=False) | b.atoms(src[1]["b"], through_calls=False)
                    if has_field(at, "WrappedBlock", "width"):
                        guards.append(a)
            flushed = [x for x, tt in b.calls(lambda cd, t: callee_method(t) in ("flush_line", "force_flush_line")) if b.dominates(x, bb)]
            marker = False
            if callee_method(t) == "push":
                # pushed value is known not to be a Str (zero-width marker): dominated by the non-Str edge of a
                # discriminant switch on the pushed element
                pl = direct_place(b, t["args"][1])
                for a in b.reachable():
                    if b.term(a)["k"] == "switch" and b.dominates(a, bb):
                        neg, src = b.switch_source(a)
                        if src[0] == "discr" and pl is not None and src[1]["l"] == pl["l"] and \
                                src[1]["ty"].startswith("render::text_renderer::TaggedLineElement"):
                            str_targets = [tb for v, tb in b.term(a)["targets"] if v == 0]
                            if str_targets and not any(b.dominates(s, bb) for s in str_targets):
                                marker = True
            key = "%s:%s(%s)" % (fn_key(b), callee_method(t), norm(b.expr(t["args"][1]))[:40] if len(t["args"]) > 1 else "")
            ctx.check(bool(guards) or bool(flushed) or marker, rid, key, t["span"], b.id,
                      "text is appended to the current line with no width test or flush above it")
    ctx.floor(rid, "appends to WrappedBlock.line", n, 8)


def rule_room_counter(ctx, rid):
    """The hard-wrap loop guards its pushes with a counter of the room left on the current line.  Every definition of that
    counter is `self.width - self.line.len` (what is already on the line counts), `self.width` immediately after the line
    was flushed, or a decrement of itself."""
    import re
    F = ctx.facts
    n = 0
    for b in F.bodies.values():
        if not b.id.startswith("render::text_renderer::WrappedBlock::<T>::") or b.kind == "Closure":
            continue
        env = {}
        for l, loc in enumerate(b.locals):
            if loc["ty"] != "usize":
                continue
            ds = [r for r in b.defs()[l] if r[1] in b.reachable()]
            if len(ds) < 2 or any(r[0] == "arg" for r in ds):
                continue
            k = b.canon(l, env=env)
            forms = [(r, norm(b.canon(r[3]["rv"]["use"], env=env)) if r[0] == "stmt" and "use" in r[3]["rv"] else "?") for r in ds]
            if not any(f in ("self.width", "(self.width - self.line.len)") or re.fullmatch(r"\(self\.width - .*\)", f) for _r, f in forms):
                continue  # not a room counter
            n += 1
            flush_targets = {t.get("target") for _bb, t in b.calls(lambda cd, t: callee_method(t) in ("flush_line", "force_flush_line"))}
            for r, f in forms:
                if f == "(self.width - self.line.len)":
                    okc, why = True, ""
                elif f == "self.width":
                    okc = r[1] in flush_targets
                    why = "the counter is set to the full width although the line was not flushed just before: what is already on the line is not subtracted"
                elif f.startswith("(%s - " % k):
                    okc, why = True, ""
                else:
                    okc, why = False, "unrecognised definition of the room counter"
                ctx.check(okc, rid, "%s:room-counter:%s" % (fn_key(b), f.replace(k, "K")[:50]), b.term(r[1])["span"] if r[0] != "stmt" else r[3]["span"], b.id,
                          "%s (defined as %s)" % (why, f[:120]))
    ctx.floor(rid, "room counters in WrappedBlock", n, 1)


def rule_stacked_cells_full_width(ctx, rid):
    """C02-F: on the stacked path a cell's width is the column size unchanged."""
    F = ctx.facts
    b = F.one("RenderTableRow::into_cells")
    writes = []
    for bb in sorted(b.reachable()):
        for st in b.stmts(bb):
            if st["k"] == "assign" and st["lhs"]["p"] and isinstance(st["lhs"]["p"][-1], dict) and \
                    st["lhs"]["p"][-1].get("n") == "col_width" and ends(st["lhs"]["p"][-1].get("o"), "RenderTableCell"):
                writes.append((bb, st))
    if not ctx.check(len(writes) == 1, rid, "into_cells:one-col_width-store", b.span, b.id, "%d stores" % len(writes)):
        return
    bb, st = writes[0]
    # the stored value: Some(x) where x's definitions split on `vertical`
    at = b.atoms(st["rv"]["use"]) if "use" in st["rv"] else set()
    rv = st["rv"]
    pl = None
    if "agg" in rv:
        pl = op_place(rv["ops"][0])
    elif "use" in rv:
        src = op_place(rv["use"])
        sd = b.single_def(src["l"]) if src is not None and is_bare(src) else None
        if sd and sd[0] == "stmt" and "agg" in sd[3]["rv"]:
            pl = op_place(sd[3]["rv"]["ops"][0])
    require(pl is not None and is_bare(pl), "col_width must be stored as Some(local)")
    # `let w = match vertical {..}; cell.col_width = Some(w)`: follow plain copies to the local the arms assign
    for _ in range(6):
        sd = b.single_def(pl["l"])
        src = op_place(sd[3]["rv"]["use"]) if sd and sd[0] == "stmt" and "use" in sd[3]["rv"] else None
        if src is None or not is_bare(src):
            break
        pl = src
    def vert_of(dbb):
        """truth of the bool *parameter* (`vertical`) governing block dbb, or None"""
        vert = None
        for (a, s) in b.cdeps_transitive(dbb):
            truth, src = edge_is_true(b, a, s)
            if src and src[0] == "place" and is_bare(src[1]) and b.local_ty(src[1]["l"]) == "bool" and \
                    [r[0] for r in b.defs()[src[1]["l"]]] == ["arg"]:
                vert = truth
        return vert

    env = {}
    defs = [r for r in b.defs()[pl["l"]] if r[0] == "stmt"]
    seen = {}
    colw = None  # the local holding the column size (`col_width`)
    for r in defs:
        form = norm(b.canon(r[3]["rv"]["use"], env=env)) if "use" in r[3]["rv"] else "?"
        v = vert_of(r[1])
        seen[v] = form
        if v is True and "use" in r[3]["rv"]:
            src = op_place(r[3]["rv"]["use"])
            if src is not None and is_bare(src):
                colw = src["l"]
    cw = norm(b.canon(colw, env=env)) if colw is not None else None
    ctx.check(cw is not None and seen.get(True) == cw and cw.startswith("$"), rid, "into_cells:stacked-width=column-size", st["span"], b.id,
              "on the stacked (vertical) path the cell width is %s; it must be the column size unchanged "
              "(stacked cells have no separators)" % seen.get(True, seen.get(None)))
    import re
    sbs = seen.get(False) or ""
    ctx.check(cw is not None and re.fullmatch(r"\(\(%s \+ [^()+]*\bcolspan\) - 1_usize\)" % re.escape(cw), sbs) is not None, rid,
              "into_cells:side-by-side-width=Σcols+separators", st["span"], b.id, "side-by-side width is %s" % seen.get(False, seen.get(None)))
    # a cell is skipped only when its whole allocated width (the column sum held in the same local) is zero
    if colw is not None:
        gov = False
        for (a, s) in b.cdeps_transitive(bb):
            truth, src = edge_is_true(b, a, s)
            if src and src[0] == "bin" and src[1]["bin"] in ("Gt", "Ne") and truth is True:
                pa = op_place(src[1]["a"])
                k = op_const(src[1]["b"])
                pa = direct_place(b, src[1]["a"]) if pa is not None else None
                if pa is not None and is_bare(pa) and pa["l"] == colw and k is not None and k.get("int") == 0:
                    gov = True
        ctx.check(gov, rid, "into_cells:cell-kept-iff-whole-width>0", st["span"], b.id,
                  "the test that decides whether a cell is laid out must look at the cell's whole width (the sum over the "
                  "columns it spans): a spanning cell whose first column is empty still has room")
    # and the column size itself: vertical ⇒ col_sizes[colno], else Σ col_sizes[colno..colno+colspan]
    if colw is not None:
        forms = {}
        for r in b.defs()[colw]:
            if r[0] == "stmt" and "use" in r[3]["rv"]:
                forms[vert_of(r[1])] = norm(b.canon(r[3]["rv"]["use"], env=env))
            elif r[0] == "call":
                forms[vert_of(r[1])] = "call:" + str(callee_method(r[2]))
        ft = forms.get(True, "")
        ft_ok = "::index(&" in ft and "col_sizes" in ft and "+" not in ft and "Range" not in ft
        ctx.check(ft_ok and forms.get(False) == "call:sum", rid,
                  "into_cells:col_width=col_sizes[colno]|Σ", b.span, b.id, str(forms))


def rule_footnote_wrap(ctx, rid):
    """C02-G: footnote lines break against the renderer width, under wrap_links."""
    F = ctx.facts
    b = F.one("SubRenderer::<D>::fmt_links")
    n = 0
    for a in sorted(b.reachable()):
        if b.term(a)["k"] != "switch":
            continue
        neg, src = b.switch_source(a)
        if src[0] == "bin" and src[1]["bin"] in ("Gt", "Lt", "Ge", "Le"):
            ea, eb = norm(b.canon(src[1]["a"])), norm(b.canon(src[1]["b"]))
            if "self.width" in (ea, eb):
                n += 1
                other = eb if ea == "self.width" else ea
                import re as _re
                # `column cursor + width of what is about to be added`: the cursor is a multi-definition local
                ctx.check(_re.match(r"\(\$\d+ \+ ", other) is not None, rid, "fmt_links:break-when-pos+w>self.width#%d" % n, b.term(a)["span"], b.id,
                          "compares %s with %s" % (ea, eb))
                cut = edges_where(b, lambda truth, src2, a2, s2: truth is True and src_field(src2) ==
                                  ("render::text_renderer::RenderOptions", "wrap_links"))
                ctx.check(unreachable_without_edges(b, a, cut), rid, "fmt_links:break-test-under-wrap_links#%d" % n, b.term(a)["span"], b.id, "")
    ctx.floor(rid, "footnote break tests against self.width", n, 2)
    # the string that is measured is the string that is emitted: the width used by the fit test, the characters the
    # splitting loop walks and the text pushed unsplit all come from the same value
    def src_of(op):
        o = origin(b, op)
        if o is None:
            return None
        if o[0] == "call":
            return ("call", o[1]["span"], callee_method(o[1]))
        if o[0] == "place":
            return ("place", b.canon(o[1]))
        return (o[0],)
    ws = [t for bb, t in b.calls(lambda cd, t: callee_method(t) == "width" and "UnicodeWidthStr" in (cd or ""))]
    cs = [t for bb, t in b.calls(lambda cd, t: callee_method(t) == "chars")]
    os_ = [t for bb, t in b.calls(lambda cd, t: callee_method(t) in ("to_owned", "to_string", "clone") and "str" in (cd or "").lower())]
    srcs = {"measured": {src_of(t["args"][0]) for t in ws}, "split": {src_of(t["args"][0]) for t in cs},
            "unsplit": {src_of(t["args"][0]) for t in os_}}
    allsrc = set().union(*srcs.values())
    rule_footnote_text_cleaned(ctx, rid)
    ctx.check(len(ws) == 1 and len(cs) == 1 and len(allsrc) == 1 and None not in allsrc, rid, "fmt_links:measured-string=emitted-string",
              b.span, b.id, "the fit test measures %s, the splitting loop walks %s, the unsplit push copies %s"
              % (sorted(map(str, srcs["measured"])), sorted(map(str, srcs["split"])), sorted(map(str, srcs["unsplit"]))))


def table_locals(F):
    """The layout variables of render_table_tree, found structurally: W (`col_widths`) and V (`vert_row`) are the
    arguments of the single RenderTable::into_rows call, S (`col_sizes`) is the Vec<SizeEstimate> local."""
    b = F.one("render_table_tree")
    ir = F.one("RenderTable::into_rows")
    cs = b.calls(lambda cd, t: cd == ir.id)
    require(len(cs) == 1, "render_table_tree must call RenderTable::into_rows exactly once")
    t = cs[0][1]
    w = direct_place(b, t["args"][1])
    v = direct_place(b, t["args"][2])
    require(w is not None and is_bare(w) and v is not None and is_bare(v), "into_rows(col_widths, vert_row) arguments must be locals")
    ss = [l for l, loc in enumerate(b.locals) if loc["ty"] == "std::vec::Vec<SizeEstimate>" and b.defs()[l]]
    require(len(ss) >= 1, "render_table_tree must hold a Vec<SizeEstimate>")
    return b, w["l"], v["l"], ss[0]


def _is_width_call(b, op):
    o = origin(b, op)
    return bool(o and o[0] == "call" and callee_method(o[1]) == "width" and ends(callee_def(o[1]), "Renderer::width"))


def addends(s):
    """top-level addends of a canonical expression `(a + b)` / `((a + b) + c)`"""
    s = s.strip()
    if not (s.startswith("(") and s.endswith(")")):
        return [s]
    depth = 0
    inner = s[1:-1]
    parts, cur = [], ""
    i = 0
    # make sure the outer parentheses match each other
    d = 0
    for j, ch in enumerate(s):
        d += ch == "("
        d -= ch == ")"
        if d == 0 and j < len(s) - 1:
            return [s]
    while i < len(inner):
        ch = inner[i]
        depth += ch in "({["
        depth -= ch in ")}]"
        if depth == 0 and inner.startswith(" + ", i):
            parts.append(cur)
            cur = ""
            i += 3
            continue
        cur += ch
        i += 1
    parts.append(cur)
    if len(parts) == 1:
        return [s]
    out = []
    for p_ in parts:
        out.extend(addends(p_))
    return out


def rule_min_size_matches_shrink(ctx, rid):
    """INV-SHRINK's premise: the side-by-side / stacked decision compares the renderer width with
    min_size = Σ min_width + (number of columns − 1), i.e. with the same separator count that the shrink loop
    charges (num_cols − 1 over all columns).  If the two disagree a table can be laid out side by side at a
    width where no column has slack: columns holding text are shrunk to zero (their cells are dropped) and the
    decrement can underflow."""
    import re
    F = ctx.facts
    b, W, V, S = table_locals(F)
    env = {}
    s_sym = re.escape(b.canon(S, env=env))
    w_sym = re.escape(b.canon(W, env=env))
    sum_min = re.compile(r"Iterator::sum\(Iterator::map\(<impl \[T\]>::iter\(&(<std::vec::Vec<T, A> as std::ops::Deref>::deref\(&)?%s\)?\), "
                         r"render_table_tree::\{closure\}\{\}\)\)" % s_sym)
    n_minus_1 = re.compile(r"(<impl usize>::saturating_sub\(<T, A>::len\(&%s\), 1_usize\)|\(<T, A>::len\(&%s\) - 1_usize\))" % (s_sym, s_sym))
    # the layout decision: a comparison of the renderer width with Σ min_width + (n − 1)
    decisions = []
    shrink = []
    for a in sorted(b.reachable()):
        if b.term(a)["k"] != "switch":
            continue
        neg, src = b.switch_source(a)
        if src[0] != "bin" or src[1]["bin"] not in ("Gt", "Lt", "Le", "Ge"):
            continue
        x, y = src[1]["a"], src[1]["b"]
        if _is_width_call(b, x):
            x, y = y, x
        if not _is_width_call(b, y):
            continue
        ex = norm(b.canon(x, env=env))
        if s_sym.replace("\\", "") in ex:
            decisions.append((a, ex))
        elif w_sym.replace("\\", "") in ex:
            shrink.append((a, ex))
    ok_ms = False
    why = "no comparison of a column-size sum with the renderer width found"
    if len(decisions) == 1:
        ad = addends(decisions[0][1])
        ok_ms = len(ad) == 2 and any(sum_min.fullmatch(x) for x in ad) and any(n_minus_1.fullmatch(x) for x in ad)
        why = "the layout decision compares the width with %s" % decisions[0][1]
    # the summed closure reads est.min_width
    ok_closure = False
    for (cbb, i, cb, ops, fields) in closure_bodies_created_in(F, b):
        reads = {n for (o, n) in (f for x in cb.reachable() for st in cb.stmts(x) if st["k"] == "assign"
                                  for f in place_fields(op_place(st["rv"].get("use")) or {"p": []}))}
        if reads == {"min_width"} and not cb.calls():
            ok_closure = True
    ctx.check(ok_ms and ok_closure, rid, "min_size=Σmin_width+(n−1)", b.span, b.id,
              "%s; the shrink loop charges one separator per column boundary (n − 1 over all columns), and the "
              "layout decision must use the same count" % why)
    # the shrink loop's own charge: Σ col_widths + len(col_widths) − 1
    ok_sh = False
    if len(shrink) == 1:
        ex = shrink[0][1]
        ok_sh = re.fullmatch(r"\(\(Iterator::sum\(<impl \[T\]>::iter\(&<std::vec::Vec<T, A> as std::ops::Deref>::deref\(&%s\)\)\) \+ "
                             r"<T, A>::len\(&%s\)\) - 1_usize\)" % (w_sym, w_sym), ex) is not None
    ctx.check(ok_sh, rid, "shrink:charges-Σw+len(w)−1", b.span, b.id, str([e for _a, e in shrink]))
    # col_widths has one entry per col_sizes entry: every definition of W by a call is a collect over S
    for r in b.defs()[W]:
        if r[0] == "call" and callee_method(r[2]) == "from_elem":
            # vec![x; col_sizes.len()]: one entry per column by construction
            cnt = norm(b.canon(r[2]["args"][1], env=env))
            ctx.check(re.fullmatch(r"<T, A>::len\(&%s\)" % s_sym, cnt) is not None, rid, "col_widths:one-entry-per-column", r[2]["span"], b.id, cnt[:120])
            continue
        if r[0] == "call":
            okc = callee_method(r[2]) == "collect" and s_sym.replace("\\", "") in b.canon(r[2]["args"][0], env=env) and \
                not any(m in b.canon(r[2]["args"][0], env=env) for m in ("Iterator::filter", "Iterator::skip", "Iterator::take", "Iterator::chain"))
            ctx.check(okc, rid, "col_widths:one-entry-per-column", r[2]["span"], b.id, norm(b.canon(r[2]["args"][0], env=env))[:120])
    # the decision feeds V: on the `too narrow` edge V becomes true
    ctx.check(len(decisions) == 1 and any(r[0] == "stmt" and (op_const((r[3].get("rv") or {}).get("use") or {}) or {}).get("v") == "true"
                                           and decisions[0][0] in {a for a, _s in b.cdeps_transitive(r[1])} for r in b.defs()[V]),
              rid, "stacked-iff-min_size>width", b.span, b.id, "the layout decision must set the stacked flag")


def rule_estimate_merge(ctx, rid):
    """A column's estimate is the component-wise maximum of the estimates of the cells in it: the merge used by
    render_table_tree (and RenderTable::calc_size_estimate) is the crate's own SizeEstimate::max, whose result is
    {max(size), max(min_width)}.  (A derived, lexicographic Ord::max would let a wide cell overwrite a larger
    minimum width; the layout decision and the shrink loop then work with minimum widths that are too small.)"""
    F = ctx.facts
    n = 0
    for fn in ("render_table_tree", "RenderTable::calc_size_estimate"):
        b = F.one(fn)
        for bb, t in b.calls(lambda cd, t: callee_method(t) in ("max", "min", "max_by", "max_by_key", "clamp") and
                             "SizeEstimate" in ((t.get("callee") or {}).get("self_ty") or "") + " ".join((t.get("callee") or {}).get("targs") or [])):
            n += 1
            ctx.check(callee_def(t) == "SizeEstimate::max" and (t.get("callee") or {}).get("resolved_local"), rid,
                      "%s:estimates-merged-by-SizeEstimate::max" % fn, t["span"], b.id,
                      "column estimates are combined with %s" % callee_def(t))
    ctx.floor(rid, "estimate merges in the table code", n, 1)
    m = F.one("SizeEstimate::max")
    forms = []
    for x in m.reachable():
        for st in m.stmts(x):
            rv = st.get("rv") or {}
            if rv.get("agg") == "adt" and rv.get("adt") == "SizeEstimate":
                forms.append(dict(zip(rv["fields"], [norm(m.canon(o)) for o in rv["ops"]])))
    okc = len(forms) == 1 and all(
        forms[0].get(f) in ("cmp::max(self.%s, arg2.%s)" % (f, f), "cmp::max(arg2.%s, self.%s)" % (f, f),
                            "Ord::max(self.%s, arg2.%s)" % (f, f), "Ord::max(arg2.%s, self.%s)" % (f, f)) for f in ("size", "min_width"))
    ctx.check(okc, rid, "SizeEstimate::max:component-wise", m.span, m.id, str(forms))


def rule_footnote_text_cleaned(ctx, rid):
    """Every piece of text that fmt_links emits comes from the cleaned link string (line feeds replaced), on the
    wrapping and on the non-wrapping path alike: each TaggedString built in fmt_links takes its `s` from a value
    derived from the result of `replace`."""
    F = ctx.facts
    b = F.one("SubRenderer::<D>::fmt_links")
    n = 0
    for x in sorted(b.reachable()):
        for st in b.stmts(x):
            rv = st.get("rv") or {}
            if rv.get("agg") == "adt" and ends(rv.get("adt"), "TaggedString") and "s" in rv.get("fields", []):
                n += 1
                at = b.atoms(rv["ops"][rv["fields"].index("s")])
                ctx.check(any(a[0] == "call" and str(a[1]).endswith("::replace") for a in at), rid,
                          "fmt_links:emitted-text-is-the-cleaned-string#%d" % n, st["span"], b.id,
                          "a footnote piece is emitted without passing through the newline replacement")
    ctx.floor(rid, "TaggedString constructions in fmt_links", n, 3)


def rule_estimates_only_at_render(ctx, rid):
    """Size estimates depend on the decorator's prefixes and on min_wrap_width and are cached in the nodes: they are
    computed only by render_tree_to_string, with the decorator and context of that rendering (never when the tree is
    built, and not by any other entry point) — a tree built by one configuration may be rendered by another."""
    F = ctx.facts
    pre = F.one("precalc_size_estimate")
    cse = F.one("RenderNode::calc_size_estimate")
    roots = lambda ids: sorted({(F.bodies[c].root if F.bodies[c].kind == "Closure" else c) for c in ids})  # noqa: E731
    # references as a function value count as uses
    refs = set()
    for b in F.bodies.values():
        for bb in b.reachable():
            t = b.term(bb)
            for o in (t.get("args") or []):
                k = op_const(o)
                if k and "fn" in k and (k["fn"].get("resolved") or k["fn"].get("def")) in (pre.id, cse.id):
                    refs.add(b.id)
    pc = roots(set(F.callers_of(pre.id)) | {r for r in refs})
    ctx.check(pc == ["render_tree_to_string"], rid, "estimates:precalc-only-from-render_tree_to_string", pre.span, pre.id,
              "precalc_size_estimate is used from %s" % pc)
    cc = roots(F.callers_of(cse.id))
    ctx.check(set(cc) <= {"RenderNode::calc_size_estimate", "precalc_size_estimate"}, rid, "estimates:calc-only-from-the-estimate-pass", cse.span, cse.id,
              "calc_size_estimate is called from %s" % cc)
