"""DROP inventory: feasible, normal-path destruction sites of tracked (linear) values.

Ownership makes "destroyed" visible: drop-elaborated MIR has an explicit Drop terminator wherever
an owned value dies.  A Drop that is only reachable with its drop flag cleared, or with the
discriminant of an already moved-out variant, is infeasible and is not a destruction site
(decided by the small path-sensitive analysis in facts.feasible_states)."""
import os
import re

from .facts import VERIF, callee_def, feasible_states, is_bare, op_place, op_const
from .util import ends, fn_key, callee_method

ITER_TYPES = ("std::vec::IntoIter<", "std::vec::Drain<", "std::iter::FilterMap<", "std::iter::Map<",
              "std::iter::Zip<", "std::iter::Enumerate<", "std::slice::Iter<", "std::slice::IterMut<",
              "std::collections::linked_list::IntoIter<", "std::iter::FlatMap<", "std::iter::Filter<",
              "std::iter::Rev<", "std::iter::Chain<", "std::iter::Peekable<")


def error_blocks(b):
    """blocks that start an error exit: `_0 = Err(..)` or `_0 = from_residual(..)`"""
    out = set()
    for bb in b.reachable():
        for st in b.stmts(bb):
            rv = st.get("rv") or {}
            if st["k"] == "assign" and st["lhs"]["l"] == 0 and not st["lhs"]["p"] and rv.get("agg") == "adt" \
                    and rv.get("variant") == "Err" and ends(rv.get("adt"), "Result"):
                out.add(bb)
        t = b.term(bb)
        if t["k"] == "call" and callee_method(t) == "from_residual" and not t["dest"]["p"]:
            if t["dest"]["l"] == 0:
                out.add(bb)
            else:
                # the error return of an inlined helper: its result local is only handed on to the caller's own return
                # value (or to the caller's `?`)
                from .util import final_uses
                uses = final_uses(b, t["dest"]["l"])
                if uses and all(k == "ret" or (k == "callarg" and callee_method(d[0]) == "branch") for k, _bb, d in uses):
                    out.add(bb)
    return out


def on_error_path(b, bb, errs=None):
    """the drop at bb happens only on error exits: every path from entry to bb passes through an error exit
    (`_0 = Err(..)` / from_residual), or — when normal and error exits share their cleanup tail, as after an early
    `return Ok(..)` — no path that avoids the error exits reaches bb with the drop flag set / the variant alive"""
    errs = error_blocks(b) if errs is None else errs
    if bb in errs:
        return True
    if bb not in b.reach_from(0, avoid=errs):
        return True
    cut = {(p, e) for e in errs for p in b.pred(e)}
    st = feasible_states(b, bb, cut_edges=cut)
    return not st


def loop_exit_of_iterator(b, bb, place):
    """Is the drop of iterator `place` at bb dominated by the None edge of `next()` on it?"""
    if not is_bare(place):
        return False
    l = place["l"]
    for a in b.reachable():
        t = b.term(a)
        if t["k"] != "switch":
            continue
        neg, src = b.switch_source(a)
        if src[0] != "discr":
            continue
        dl = src[1]["l"]
        sd = b.single_def(dl)
        if not sd or sd[0] != "call" or callee_method(sd[2]) != "next":
            continue
        at = b.atoms(sd[2]["args"][0], through_calls=False)
        # the receiver is a (re)borrow of our iterator local
        recv = sd[2]["args"][0]
        if not _borrow_of(b, recv, l):
            continue
        none_succ = [tb for v, tb in t["targets"] if v == 0]
        for s in none_succ:
            if b.dominates(s, bb):
                return True
    return False


def _borrow_of(b, op, l, depth=6):
    pl = op_place(op)
    while pl is not None and depth > 0:
        depth -= 1
        if pl["l"] == l:
            return True
        sd = b.single_def(pl["l"])
        if not sd or sd[0] != "stmt":
            return False
        rv = sd[3].get("rv") or {}
        if "ref" in rv:
            pl = rv["ref"]
        elif "use" in rv:
            pl = op_place(rv["use"])
        else:
            return False
    return False


def inventory(F, type_pred, body_pred=None):
    """[(body, bb, term, states)] feasible non-cleanup Drop terminators whose place type matches."""
    out = []
    for b in F.bodies.values():
        if body_pred and not body_pred(b):
            continue
        if b.raw.get("from_expansion") and b.kind != "Closure":
            continue  # derived impls
        for bb in sorted(b.reachable()):
            t = b.term(bb)
            if t["k"] != "drop":
                continue
            ty = t["place"]["ty"]
            if not type_pred(ty):
                continue
            st = feasible_states(b, bb)
            if not st:
                continue
            out.append((b, bb, t, st))
    return out


def discr_knowledge(b, bb, place):
    """Knowledge about the discriminant of the dropped place (bare local) in the feasible states
    reaching bb: returns list of ('in'|'notin', frozenset) or None per state."""
    if not is_bare(place):
        return None
    st = feasible_states(b, bb, discr_locals={place["l"]})
    if not st or "OVERFLOW" in st:
        return None
    return [s[1][0] for s in st]


def load_table(name):
    """tables/<name>: lines `function key | place expression | reason` (# comments)."""
    rows = {}
    p = os.path.join(VERIF, "tables", name)
    if os.path.exists(p):
        for line in open(p):
            line = line.strip()
            if not line or line.startswith("#"):
                continue
            parts = [x.strip() for x in line.split("|")]
            if len(parts) >= 3:
                place = parts[1]
                count = 1
                import re as _re
                m = _re.match(r"^(.*)\s+x(\d+)$", place)
                if m:
                    place, count = m.group(1), int(m.group(2))
                rows[(parts[0], place)] = TableRow(" | ".join(parts[2:]), count)
    return rows


class TableRow(str):
    """reason text of a reviewed row; `.count` = number of feasible sites the row was reviewed for"""
    def __new__(cls, text, count=1):
        o = str.__new__(cls, text)
        o.count = count
        return o


def check_counts(ctx, rid, table, seen_counts):
    """a reviewed row covers exactly the number of sites that were reviewed: a *new* destruction site of the
    same variable in the same function is not silently covered."""
    for key, n in seen_counts.items():
        row = table.get(key)
        if row is not None and n > row.count:
            ctx.violation(rid, "%s:drop(%s):site-count" % key, "", key[0],
                          "the reviewed table row covers %d way(s) into a destruction site of `%s` in this function but %d are "
                          "feasible now: a new site needs review" % (row.count, key[1], n))


def incoming_paths(b, bb, depth=12):
    """number of distinct non-trivial ways into block bb: predecessors that only shuffle drop flags and
    jump are looked through.  Used to notice a *new* path into an already reviewed destruction site."""
    flags = None
    seen = set()
    count = 0
    work = [(bb, 0)]
    errs = error_blocks(b)
    normal = b.reach_from(0, avoid=errs)  # ways in that exist only on error exits are not new normal-path sites
    while work:
        x, d = work.pop()
        for p in b.pred(x):
            if p not in b.reachable() or (p, x) in seen:
                continue
            if p not in normal:
                continue
            seen.add((p, x))
            trivial = b.term(p)["k"] in ("goto", "drop") and all(_flag_stmt(b, st) for st in b.stmts(p)) and d < depth
            if trivial and b.pred(p):
                work.append((p, d + 1))
            else:
                count += 1
    return max(count, 1)


def _flag_stmt(b, st):
    if st["k"] != "assign" or st["lhs"]["p"]:
        return False
    rv = st["rv"]
    if "use" in rv and op_const(rv["use"]) is not None and b.local_ty(st["lhs"]["l"]) in ("bool", "()"):
        return True
    if "discr" in rv:
        return True
    return False
