"""Read-site inventory for configuration options (shared by C10, C15, C18)."""
from .facts import callee_def, op_place, op_const, is_bare
from .util import (ends, site, fn_key, callee_method, final_uses, field_reads, field_accesses, agg_operand_index)

OWNERS = ("config::Config", "HtmlContext", "render::text_renderer::RenderOptions")


def derived(b):
    return b.raw.get("from_expansion") and b.kind != "Closure"


def classify_reads(F, owner, name):
    """For each non-derived read of owner.name return dicts:
       {body, bb, site, kind: 'plumbing'|'decision'|'value'|'opaque', detail}
    plumbing: the value is copied into a struct literal field / passed to a constructor;
    decision: the value is branched on (detail = switch block);
    value: used in arithmetic/comparison or passed to another call (detail = description)."""
    out = []
    for (b, bb, where, st, dest, acc) in field_reads(F, owner, name):
        if derived(b):
            continue
        s = site(b, bb, where)
        if acc == "ref":
            # &options.field: follow the reference local like a value
            if st is not None and is_bare(st["lhs"]):
                dest = st["lhs"]["l"]
        oi = agg_operand_index(st, owner, name)
        if oi is not None:
            # read directly as an operand of a struct literal (struct-update syntax `S { a, ..self }`)
            rv = st["rv"]
            fld = rv["fields"][oi] if oi < len(rv.get("fields", [])) else "?"
            out.append(dict(body=b, bb=bb, site=s, kind="plumbing", detail=("agg", rv.get("adt") or rv.get("def") or rv["agg"], fld)))
            continue
        if dest is None:
            out.append(dict(body=b, bb=bb, site=s, kind="opaque", detail=acc))
            continue
        uses = final_uses(b, dest)
        if not uses:
            out.append(dict(body=b, bb=bb, site=s, kind="opaque", detail="no use found"))
        for (kind, ubb, det) in uses:
            if kind == "agg":
                stt, oi = det
                rv = stt["rv"]
                fld = rv["fields"][oi] if oi < len(rv.get("fields", [])) else "?"
                out.append(dict(body=b, bb=bb, site=s, kind="plumbing",
                                detail=("agg", rv.get("adt") or rv.get("def") or rv["agg"], fld)))
            elif kind == "switch":
                out.append(dict(body=b, bb=bb, site=s, kind="decision", detail=ubb))
            elif kind == "callarg":
                t, ai = det
                out.append(dict(body=b, bb=bb, site=s, kind="value", detail=("callarg", callee_def(t), ai, ubb)))
            elif kind == "ret":
                out.append(dict(body=b, bb=bb, site=s, kind="value", detail=("ret",)))
            else:
                out.append(dict(body=b, bb=bb, site=s, kind="value", detail=(kind, ubb)))
    return out


def writes(F, owner, name):
    out = []
    for (b, bb, where, pl, acc) in field_accesses(F, owner, name):
        if derived(b) or acc not in ("write", "refmut"):
            continue
        last = [e for e in pl["p"] if isinstance(e, dict) and "f" in e][-1]
        if last["n"] != name:
            continue
        out.append((b, bb, where, acc))
    return out


def literal_inits(F, adt_suffix):
    """[(body, stmt, {field: operand})] for every struct literal of the ADT outside derived impls"""
    out = []
    for b in F.bodies.values():
        if derived(b):
            continue
        for bb in sorted(b.reachable()):
            for st in b.stmts(bb):
                rv = st.get("rv") or {}
                if rv.get("agg") == "adt" and ends(rv.get("adt"), adt_suffix):
                    out.append((b, st, dict(zip(rv["fields"], rv["ops"]))))
    return out
