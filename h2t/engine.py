"""Rule engine plumbing: obligations, verdicts, floors, known findings, evidence."""
import json
import os
import re
import time

from .facts import VERIF, AnchorMissing, load_facts

KNOWN_FILE = os.path.join(VERIF, "known_findings.txt")
EVID = os.environ.get("H2T_EVIDENCE_DIR", os.path.join(VERIF, "evidence"))


class Ob:
    __slots__ = ("rule", "key", "site", "fn", "status", "detail", "how", "config")

    def __init__(self, rule, key, site, fn, status, detail, how, config):
        self.rule, self.key, self.site, self.fn = rule, key, site, fn
        self.status, self.detail, self.how, self.config = status, detail, how, config

    def full_key(self):
        return "%s|%s" % (self.rule, self.key)

    def to_json(self):
        return {
            "rule": self.rule, "key": self.key, "site": self.site, "fn": self.fn,
            "status": self.status, "detail": self.detail, "how": self.how,
            "configs": self.config,
        }


class Ctx:
    """Collects obligations for one property over several feature configurations."""

    def __init__(self, prop, tier, configs):
        self.prop = prop
        self.tier = tier
        self.configs = configs
        self.facts = None       # current Facts
        self.config = None
        self.obs = {}           # full_key -> Ob (merged over configs; worst status wins)
        self.rules = {}         # rule id -> statement
        self.floors = []        # (rule, what, count, floor, config)
        self.stats = {}
        self.notes = []

    # -- rule registration
    def rule(self, rid, statement):
        self.rules[rid] = statement

    # -- obligations
    def _add(self, rule, key, site, fn, status, detail, how):
        ob = Ob(rule, key, site, fn, status, detail, how, [self.config])
        k = ob.full_key()
        old = self.obs.get(k)
        if old is None:
            self.obs[k] = ob
        else:
            if self.config not in old.config:
                old.config.append(self.config)
            rank = {"ok": 0, "info": 0, "violation": 2}
            if rank[status] > rank[old.status]:
                old.status, old.detail, old.site, old.how = status, detail, site, how

    def ok(self, rule, key, site="", fn="", detail="", how="auto"):
        self._add(rule, key, site, fn, "ok", detail, how)

    def violation(self, rule, key, site="", fn="", detail=""):
        self._add(rule, key, site, fn, "violation", detail, "")

    def info(self, rule, key, site="", fn="", detail=""):
        self._add(rule, key, site, fn, "info", detail, "info")

    def check(self, cond, rule, key, site="", fn="", detail="", how="auto"):
        if cond:
            self.ok(rule, key, site, fn, detail, how)
        else:
            self.violation(rule, key, site, fn, detail)
        return cond

    def floor(self, rule, what, count, floor):
        """Fail closed if a rule found fewer instances than were counted by hand."""
        self.floors.append((rule, what, count, floor, self.config))
        if count < floor:
            self.violation(
                rule, "floor:%s" % what, "", "",
                "rule matched %d instance(s) of %s, fewer than the %d confirmed by hand: the rule "
                "would pass vacuously (anchor renamed or code restructured?)" % (count, what, floor))
        else:
            self.ok(rule, "floor:%s" % what, "", "", "%d >= floor %d" % (count, floor), how="floor")

    def guard(self, rule, fn, *a, **kw):
        """Run a rule function; a missing anchor fails the rule closed."""
        try:
            return fn(self, *a, **kw)
        except AnchorMissing as e:
            self.violation(rule, "anchor-missing:%s" % fn.__name__, "", "",
                           "anchor missing, rule fails closed: %s" % e)
        except Exception as e:  # noqa: BLE001 - any analysis failure must fail the rule closed
            import traceback
            tb = traceback.format_exc().strip().splitlines()
            self.violation(rule, "analysis-failed:%s" % fn.__name__, "", "",
                           "the analysis could not handle the current code, rule fails closed: %s: %s [%s]"
                           % (type(e).__name__, e, tb[-3].strip() if len(tb) >= 3 else ""))
        return None


def load_known(prop):
    known = {}
    fixed = []
    if os.path.exists(KNOWN_FILE):
        for line in open(KNOWN_FILE):
            line = line.rstrip("\n")
            if line.startswith("known:"):
                m = re.match(r"known:\s+property=(\S+)\s+key=(.*?)\s+::\s+(.*)$", line)
                if m and m.group(1) == prop:
                    known[m.group(2)] = m.group(3)
            elif line.startswith("fixed:"):
                m = re.match(r"fixed:\s+property=(\S+)\s+(.*)$", line)
                if m and m.group(1) == prop:
                    fixed.append(m.group(2))
    return known, fixed


def run_property(prop, module, tier, configs, extra=None):
    """Evaluate all rules of one property; write evidence; print verdict lines; return exit code."""
    t0 = time.time()
    ctx = Ctx(prop, tier, configs)
    sizes = {}
    for cfg in configs:
        facts = load_facts(cfg)
        ctx.facts, ctx.config = facts, cfg
        ctx.has_css = any(f["name"] == "display" for a in facts.raw["adts"] if a["path"] == "ComputedStyle"
                          for f in a["variants"][0]["fields"])
        nb = len(facts.bodies)
        ncalls = sum(len(b.calls()) for b in facts.bodies.values())
        ii = getattr(facts, "inline_info", {}) or {}
        sizes[cfg] = {"bodies": nb, "call_sites": ncalls,
                      "new_helpers_inlined": ii.get("inlined", {}), "directly_called_closures_inlined": ii.get("closures", 0)}
        try:
            module.check(ctx)
        except AnchorMissing as e:
            ctx.violation(prop + "-anchor", "anchor-missing", "", "",
                          "anchor missing, check fails closed: %s" % e)
    if extra:
        ctx.config = "extra"
        extra(ctx)
    known, _fixed = load_known(prop)
    obs = list(ctx.obs.values())
    viol = [o for o in obs if o.status == "violation"]
    unknown = [o for o in viol if o.full_key() not in known]
    kn = [o for o in viol if o.full_key() in known]
    stale_known = [k for k in known if k not in ctx.obs or ctx.obs[k].status != "violation"]
    n_ob = len([o for o in obs if o.status != "info"])
    n_ok = len([o for o in obs if o.status == "ok"])
    os.makedirs(os.path.join(EVID, "replay", prop), exist_ok=True)
    for o in kn:
        print("KNOWN-FINDING: property=%s %s [%s]" % (prop, known[o.full_key()], o.full_key()))
    rc = 0
    for i, o in enumerate(unknown):
        path = os.path.join(EVID, "replay", prop, "%d.json" % i)
        with open(path, "w") as fh:
            json.dump({
                "property": prop, "rule": o.rule, "rule_statement": ctx.rules.get(o.rule, ""),
                "key": o.full_key(), "site": o.site, "function": o.fn, "detail": o.detail,
                "configs": o.config,
            }, fh, indent=1)
        print("  %s  %s  [%s] %s" % (o.site or "-", o.fn or "-", o.rule, o.detail))
        print("VIOLATION property=%s replay=%s" % (prop, path))
        rc = 1
    if tier == "thorough":
        for k in stale_known:
            print("note: known finding not reported in this run (fixed, or specific to a configuration not analysed): %s" % k)
    by_rule = {}
    for o in obs:
        r = by_rule.setdefault(o.rule, {"statement": ctx.rules.get(o.rule, ""), "instances": 0,
                                        "auto": 0, "table": 0, "floor": 0, "info": 0, "known": 0,
                                        "violations": 0, "samples": []})
        if o.status == "info":
            r["info"] += 1
        else:
            r["instances"] += 1
            if o.status == "ok":
                if o.how == "table":
                    r["table"] += 1
                elif o.how == "floor":
                    r["floor"] += 1
                else:
                    r["auto"] += 1
            elif o.full_key() in known:
                r["known"] += 1
            else:
                r["violations"] += 1
        if len(r["samples"]) < 4:
            r["samples"].append(o.to_json())
    samples = []
    for rid in sorted(by_rule):
        samples.extend(by_rule[rid]["samples"][:2])
    distinct = len({o.full_key() for o in obs if o.status != "info" and o.how != "floor"})
    ev = {
        "property_id": prop,
        "tier": tier,
        "seed": int(os.environ.get("VERIF_SEED", "0") or 0),
        "level": "other",
        "coverage": {
            "explanation": module.EXPLANATION,
            "not_decided": getattr(module, "NOT_DECIDED", ""),
            "rule": "static rule evaluation over the MIR of /repo's current tree; an instance is one "
                    "(rule, site key) obligation; distinct_nontrivial counts distinct obligation keys "
                    "excluding floor checks and informational records",
            "evaluations": len(obs),
            "distinct_nontrivial": distinct,
            "obligations": n_ob,
            "discharged": n_ok,
            "known_findings": len(kn),
            "violations": len(unknown),
            "exhaustive": True,
            "checker_cmd": "bin/check %s --tier %s" % (prop, tier),
            "configs_analysed": sizes,
            "floors": [{"rule": r, "what": w, "count": c, "floor": f, "config": cf}
                       for (r, w, c, f, cf) in ctx.floors],
            "rules": {rid: {k: v for k, v in r.items() if k != "samples"} for rid, r in by_rule.items()},
            "samples": samples[:40],
            "trusted_base": [
                "rustc nightly type checker, MIR construction, drop elaboration, Instance resolution",
                "h2t-lint fact extraction (verif/lint) and the rule engine (verif/h2t)",
                "reviewed tables under verif/tables (each row carries its reason)",
            ],
            "notes": ctx.notes,
        },
        "assumptions": getattr(module, "ASSUMPTIONS", []),
        "wall_s": round(time.time() - t0, 3),
        "violations": len(unknown),
    }
    with open(os.path.join(EVID, "%s.json" % prop), "w") as fh:
        json.dump(ev, fh, indent=1, ensure_ascii=False)
    print("%s %s: %d obligations, %d discharged, %d known findings, %d violations (%.1fs; configs %s)"
          % (prop, tier, n_ob, n_ok, len(kn), len(unknown), time.time() - t0, ",".join(configs)))
    return rc
