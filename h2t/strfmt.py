"""Shape of a formatted string, read off MIR: `format!`'s template constant (the byte encoding documented at
core::fmt::Arguments) and its argument array are decoded into a sequence of pieces

    ("lit", text) | ("val", canonical expression, plain?) | ("?", why)

where plain means `{}` with no width/precision/flags and Display.  A String argument that is itself the result of a
`format!` is expanded in place, so `format!("{}{}", format!("[{}]:", n), s)` and `format!("[{}]:{}", n, s)` have the same
shape."""
import ast

from .facts import callee_def, op_place, op_const
from .util import ends, callee_method, direct_place, origin


def decode_template(lit):
    """b"\\x01[\\xc0\\x03]: \\xc0\\x00" -> [("lit", "["), ("arg", None, True), ("lit", "]: "), ("arg", None, True)]"""
    try:
        bs = ast.literal_eval(lit)
    except Exception:
        return None
    if not isinstance(bs, bytes):
        return None
    out, i = [], 0
    while i < len(bs):
        n = bs[i]
        i += 1
        if n == 0:
            return out
        if n < 0x80:
            out.append(("lit", bs[i:i + n].decode("utf-8", "replace")))
            i += n
        elif n == 0x80:
            ln = int.from_bytes(bs[i:i + 2], "little")
            i += 2
            out.append(("lit", bs[i:i + ln].decode("utf-8", "replace")))
            i += ln
        elif n == 0xC0:
            out.append(("arg", None, True))
        else:
            plain = True
            idx = None
            if n & 1:
                # flags: fill/alignment/sign/alternate/... — only the default word counts as plain
                flags = int.from_bytes(bs[i:i + 4], "little")
                i += 4
                plain = False
            if n & 2:
                i += 2
                plain = False
            if n & 4:
                i += 2
                plain = False
            if n & 8:
                idx = int.from_bytes(bs[i:i + 2], "little")
                i += 2
            out.append(("arg", idx, plain))
    return out


def _merge(ps):
    out = []
    for p in ps:
        if p[0] == "lit" and out and out[-1][0] == "lit":
            out[-1] = ("lit", out[-1][1] + p[1])
        elif p[0] == "lit" and p[1] == "":
            continue
        else:
            out.append(p)
    return out


def shape(b, op, depth=4):
    """pieces of the String (or &str) denoted by `op` in body b"""
    if depth <= 0:
        return [("?", "nesting too deep")]
    o = origin(b, op)
    if o is None:
        return [("?", "untraceable")]
    if o[0] == "const":
        k = o[1] or {}
        v = k.get("v")
        if isinstance(v, str) and v.startswith('"'):
            try:
                return [("lit", ast.literal_eval(v))]
            except Exception:
                return [("?", "string constant")]
        return [("?", "constant")]
    if o[0] == "call":
        t = o[1]
        cd = callee_def(t) or ""
        m = callee_method(t)
        if ends(cd, "hint::must_use") or m in ("to_string", "as_str", "as_ref", "borrow"):
            if m == "to_string" and not _is_stringy(b, t["args"][0]):
                return [("val", b.canon(t["args"][0]), True)]
            return shape(b, t["args"][0], depth)
        if ends(cd, "fmt::format"):
            return _arguments(b, t["args"][0], depth)
        return [("val", b.canon(op), True)]
    return [("val", b.canon(op), True)]


def _is_stringy(b, op):
    pl = op_place(op)
    ty = b.local_ty(pl["l"]) if pl and not pl["p"] else ""
    return "String" in ty or "str" in ty


def _arguments(b, op, depth):
    o = origin(b, op)
    if not o or o[0] != "call":
        return [("?", "fmt::Arguments not built here")]
    t = o[1]
    cd = callee_def(t) or ""
    if ends(cd, "Arguments::<'a>::from_str", "Arguments::<'a>::new_const"):
        return shape(b, t["args"][0], depth)
    if not ends(cd, "Arguments::<'a>::new") or len(t["args"]) != 2:
        return [("?", "unrecognised fmt::Arguments constructor %s" % cd)]
    to = origin(b, t["args"][0])
    tpl = decode_template(((to[1] or {}).get("v") or "")) if to and to[0] == "const" else None
    if tpl is None:
        return [("?", "format template is not a constant")]
    ao = origin(b, t["args"][1])
    if not ao or ao[0] != "rv" or ao[1].get("agg") != "array":
        return [("?", "format arguments are not an array literal")]
    args = []
    for a in ao[1]["ops"]:
        x = origin(b, a)
        if not x or x[0] != "call" or "Argument" not in (callee_def(x[1]) or ""):
            args.append(None)
            continue
        args.append((callee_method(x[1]), x[1]["args"][0]))
    out, nxt = [], 0
    for p in tpl:
        if p[0] == "lit":
            out.append(p)
            continue
        idx = p[1] if p[1] is not None else nxt
        nxt = idx + 1
        if idx >= len(args) or args[idx] is None:
            out.append(("?", "format argument %d" % idx))
            continue
        how, aop = args[idx]
        plain = p[2] and how == "new_display"
        pl = direct_place(b, aop)
        inner = None
        if pl is not None and not pl["p"] and "String" in b.local_ty(pl["l"]):
            sd = b.single_def(pl["l"])
            if sd and sd[0] == "call" and (ends(callee_def(sd[2]) or "", "fmt::format", "hint::must_use")):
                inner = shape(b, {"c": pl}, depth - 1)
        if inner is not None and plain:
            out.extend(inner)
        else:
            out.append(("val", b.canon({"c": pl}) if pl is not None else b.canon(aop), plain))
    return _merge(out)
