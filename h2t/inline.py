"""Helper inlining on the extracted MIR facts.

The rules anchor on the functions that exist in jugglerchris/rust-html2text at the pinned commit
(tables/baseline_functions.txt).  A *new* private, non-recursive function — the product of an "extract helper"
refactoring, or a local `fn` inside an existing function — is treated as part of its callers: every direct call
to it is replaced by a copy of its body (arguments become assignments to the copied parameter locals, `return`
becomes an assignment to the call's destination).  Rules and inventories then see the code exactly where it ran
before the extraction, with the caller's guards around it, and site keys stay attributed to the caller.
Functions of the baseline are never inlined (they are anchors), nor are public functions, trait-impl methods,
recursive helpers, or helpers that are also used as function values.

Closures that a body creates and calls directly (`let f = |x| ..; f(a)`) are inlined the same way.
"""
import copy
import os

MAX_PASSES = 6


def _remap(x, lmap, bmap, poff):
    """deep copy of a statement / terminator / operand with locals, block indices and promoted indices renamed"""
    if isinstance(x, dict):
        if "l" in x and "p" in x:
            out = dict(x)
            out["l"] = lmap(x["l"])
            out["p"] = [({**e, "idx": lmap(e["idx"])} if isinstance(e, dict) and "idx" in e else (dict(e) if isinstance(e, dict) else e))
                        for e in x["p"]]
            return out
        out = {}
        for k, v in x.items():
            if k in ("target", "unwind", "otherwise") and isinstance(v, int) and not isinstance(v, bool):
                out[k] = bmap(v)
            elif k == "targets" and isinstance(v, list):
                out[k] = [[val, bmap(tb)] for val, tb in v]
            elif k == "promoted" and isinstance(v, int) and not isinstance(v, bool):
                out[k] = v + poff
            else:
                out[k] = _remap(v, lmap, bmap, poff)
        return out
    if isinstance(x, list):
        return [_remap(v, lmap, bmap, poff) for v in x]
    return x


def _callee_id(t):
    c = t.get("callee") or {}
    if not (c.get("resolved_local") or c.get("local")):
        return None
    return c.get("resolved") or c.get("def")


def _direct_calls(f):
    for bi, bl in enumerate(f["blocks"]):
        t = bl["term"]
        if t["k"] == "call":
            cid = _callee_id(t)
            if cid:
                yield bi, t, cid


def _fn_value_refs(fns):
    """ids of local functions referenced as values (fn items passed to map() etc.)"""
    refs = set()

    def walk(x):
        if isinstance(x, dict):
            if "fn" in x and isinstance(x["fn"], dict) and "def" in x["fn"]:
                refs.add(x["fn"].get("resolved") or x["fn"]["def"])
                refs.add(x["fn"]["def"])
            for k, v in x.items():
                if k == "callee":
                    continue
                walk(v)
        elif isinstance(x, list):
            for v in x:
                walk(v)
    for f in fns:
        for bl in f["blocks"]:
            walk(bl["stmts"])
            t = dict(bl["term"])
            walk(t.get("args"))
            walk(t.get("func"))
    return refs


def splice(caller, bi, t, callee, closure_env=None):
    """replace the call terminator of caller block bi by a copy of callee's body"""
    base_l = len(caller["locals"])
    base_b = len(caller["blocks"])
    poff = len(caller.get("promoted") or [])
    for j, loc in enumerate(callee["locals"]):
        nl = dict(loc)
        if "name" in nl:
            nl["inl_name"] = nl.pop("name")  # keep tracing transparent: an inlined local is a temporary of the caller
        nl["inl"] = callee["id"]
        caller["locals"].append(nl)
    if callee.get("promoted"):
        caller.setdefault("promoted", [])
        caller["promoted"].extend(copy.deepcopy(callee["promoted"]))
    lmap = lambda l: base_l + l  # noqa: E731
    bmap = lambda b: base_b + b  # noqa: E731
    dest, target, unwind = t.get("dest"), t.get("target"), t.get("unwind")
    span = t.get("span", "")
    # arguments
    args = t["args"]
    stmts = caller["blocks"][bi]["stmts"]
    nargs = callee.get("arg_count", 0)
    if closure_env is not None:
        # rust-call ABI: (closure, (a0, a1, ..)) -> _1 = closure, _2.. = tuple fields
        stmts.append({"k": "assign", "lhs": {"l": lmap(1), "p": [], "ty": callee["locals"][1]["ty"]}, "rv": {"use": args[0]}, "span": span, "exp": False, "inl_arg": True})
        tup = args[1] if len(args) > 1 else None
        tpl = (tup.get("m") or tup.get("c")) if tup else None
        for i in range(2, nargs + 1):
            if tpl is None:
                return False
            fld = {"l": tpl["l"], "p": list(tpl["p"]) + [{"f": i - 2, "n": str(i - 2), "o": "tuple", "ty": callee["locals"][i]["ty"]}], "ty": callee["locals"][i]["ty"]}
            stmts.append({"k": "assign", "lhs": {"l": lmap(i), "p": [], "ty": callee["locals"][i]["ty"]}, "rv": {"use": {"m": fld}}, "span": span, "exp": False, "inl_arg": True})
    else:
        if len(args) != nargs:
            return False
        for i, a in enumerate(args):
            stmts.append({"k": "assign", "lhs": {"l": lmap(i + 1), "p": [], "ty": callee["locals"][i + 1]["ty"]}, "rv": {"use": a}, "span": span, "exp": False, "inl_arg": True})
    caller["blocks"][bi]["term"] = {"k": "goto", "target": bmap(0), "span": span, "exp": t.get("exp", False), "inl_call": callee["id"]}
    for bl in callee["blocks"]:
        nb = {"cleanup": bl.get("cleanup", False), "stmts": _remap(bl["stmts"], lmap, bmap, poff)}
        tt = bl["term"]
        if tt["k"] == "return":
            if dest is not None:
                nb["stmts"].append({"k": "assign", "lhs": copy.deepcopy(dest), "rv": {"use": {"m": {"l": lmap(0), "p": [], "ty": callee["locals"][0]["ty"]}}},
                                    "span": tt.get("span", span), "exp": False, "inl_ret": True})
            if target is None:
                nb["term"] = {"k": "unreachable", "span": tt.get("span", span), "exp": False}
            else:
                nb["term"] = {"k": "goto", "target": target, "span": tt.get("span", span), "exp": False}
        elif tt["k"] == "resume":
            if unwind is None:
                nb["term"] = dict(tt)
            else:
                nb["term"] = {"k": "goto", "target": unwind, "span": tt.get("span", span), "exp": False}
        else:
            nb["term"] = _remap(tt, lmap, bmap, poff)
        caller["blocks"].append(nb)
    return True


def load_baseline(verif):
    p = os.path.join(verif, "tables", "baseline_functions.txt")
    names = set()
    if os.path.exists(p):
        for line in open(p):
            line = line.strip()
            if line and not line.startswith("#"):
                names.add(line)
    return names


def inline_helpers(raw, verif):
    """mutates raw["fns"]; returns {"inlined": {helper id: number of call sites}, "removed": [...]}"""
    baseline = load_baseline(verif)
    info = {"inlined": {}, "removed": [], "closures": 0}
    if not baseline:
        return info  # fail safe: without the list nothing is a "new" helper
    fns = raw["fns"]
    by_id = {f["id"]: f for f in fns}
    cand = {f["id"] for f in fns if f.get("kind") in ("Fn", "AssocFn") and f["id"] not in baseline and not f.get("public")
            and not f.get("implements") and f.get("blocks")}
    cand -= _fn_value_refs(fns) & cand
    # drop recursive candidates (cycles among candidates)
    edges = {c: {cid for _bi, _t, cid in _direct_calls(by_id[c]) if cid in cand} for c in cand}
    changed = True
    while changed:
        changed = False
        for c in list(cand):
            # reachability from c back to c
            seen, work = set(), list(edges.get(c, ()))
            while work:
                x = work.pop()
                if x in seen:
                    continue
                seen.add(x)
                work.extend(edges.get(x, ()))
            if c in seen:
                cand.discard(c)
                for e in edges.values():
                    e.discard(c)
                changed = True
    for _pass in range(MAX_PASSES):
        did = False
        for f in fns:
            if f["id"] in cand and _pass == 0:
                pass  # helpers are expanded too (nested helpers), in place
            for bi, t, cid in list(_direct_calls(f)):
                if cid in cand and cid != f["id"]:
                    callee = by_id[cid]
                    if splice(f, bi, t, callee):
                        info["inlined"][cid] = info["inlined"].get(cid, 0) + 1
                        did = True
                        # closures created by the helper now belong to the caller
                        for g in fns:
                            if g.get("kind") == "Closure" and g.get("parent") == cid:
                                g["parent"] = f["id"]
                                g["root"] = f.get("root", f["id"])
                            elif g.get("kind") == "Closure" and g.get("root") == cid:
                                g["root"] = f.get("root", f["id"])
        if not did:
            break
    # directly called closures: `let f = |..| ..; f(a)`
    for _pass in range(MAX_PASSES):
        did = False
        for f in fns:
            for bi, bl in enumerate(f["blocks"]):
                t = bl["term"]
                if t["k"] != "call":
                    continue
                c = t.get("callee") or {}
                if c.get("method") not in ("call", "call_mut", "call_once") or not str(c.get("trait") or c.get("def") or "").startswith("std::ops::Fn"):
                    continue
                cid = c.get("resolved")
                g = by_id.get(cid)
                if g is None or g.get("kind") != "Closure" or g.get("parent") != f["id"] or cid in baseline_closures(baseline, g):
                    continue
                if _calls_itself(g, by_id):
                    continue
                if splice(f, bi, t, g, closure_env=True):
                    info["closures"] += 1
                    did = True
                    for h in fns:
                        if h.get("kind") == "Closure" and h.get("parent") == cid:
                            h["parent"] = f["id"]
        if not did:
            break
    # remove helpers that are no longer called from anywhere
    still = set()
    for f in fns:
        for _bi, _t, cid in _direct_calls(f):
            still.add(cid)
    for cid in list(info["inlined"]):
        if cid not in still:
            info["removed"].append(cid)
    raw["fns"] = [f for f in fns if f["id"] not in info["removed"]]
    return info


def baseline_closures(baseline, g):
    return ()


def _calls_itself(g, by_id):
    for _bi, _t, cid in _direct_calls(g):
        if cid == g["id"]:
            return True
    return False
