"""Fact base: loads the JSON MIR dump produced by h2t-lint and provides the shared analyses
(CFG, dominators, post-dominators, control dependence, data dependence, expression
reconstruction, call graph).  Nothing here executes html2text; everything is computed from
the compiler's view of /repo's current source."""
import fcntl
import hashlib
import json
import os
import subprocess
import sys
import time

VERIF = os.path.dirname(os.path.dirname(os.path.abspath(__file__)))
REPO = os.environ.get("H2T_REPO", "/repo")
CACHE = os.environ.get("H2T_CACHE", os.path.join(VERIF, ".cache"))


# --------------------------------------------------------------------------------------------
# running the driver (cached by a hash of the repo's source, manifest and the driver binary)
# --------------------------------------------------------------------------------------------
def tree_hash():
    h = hashlib.sha256()
    paths = []
    for root, _dirs, files in os.walk(os.path.join(REPO, "src")):
        for f in files:
            paths.append(os.path.join(root, f))
    for f in ("Cargo.toml", "Cargo.lock", "README.md"):
        paths.append(os.path.join(REPO, f))
    drv = os.path.join(VERIF, "lint/target/release/h2t-lint")
    paths.append(drv)
    for p in sorted(paths):
        h.update(p.encode())
        try:
            with open(p, "rb") as fh:
                h.update(fh.read())
        except OSError:
            h.update(b"<missing>")
    return h.hexdigest()[:24]


def load_facts(config):
    """Return the parsed fact base for one feature configuration of /repo's *current* tree."""
    th = tree_hash()
    d = os.path.join(CACHE, th)
    os.makedirs(d, exist_ok=True)
    out = os.path.join(d, "facts_%s.json" % config)
    lock = open(os.path.join(CACHE, "lock_%s" % config), "w")
    fcntl.flock(lock, fcntl.LOCK_EX)
    try:
        if not os.path.exists(out):
            # drop older caches (disk is limited)
            for old in os.listdir(CACHE):
                p = os.path.join(CACHE, old)
                if os.path.isdir(p) and old != th:
                    subprocess.call(["rm", "-rf", p])
            tmp = out + ".tmp%d" % os.getpid()
            r = subprocess.run(
                [os.path.join(VERIF, "bin/run_driver.sh"), config, tmp, REPO],
                stdout=subprocess.PIPE,
                stderr=subprocess.PIPE,
                text=True,
            )
            if r.returncode != 0:
                sys.stderr.write(r.stderr)
                raise SystemExit("h2t-lint failed for config %s (does /repo build?)" % config)
            os.rename(tmp, out)
    finally:
        fcntl.flock(lock, fcntl.LOCK_UN)
        lock.close()
    with open(out) as fh:
        raw = json.load(fh)
    return Facts(raw, config)


# --------------------------------------------------------------------------------------------
# places / operands helpers
# --------------------------------------------------------------------------------------------
def op_place(op):
    """The place read by an operand (copy/move), or None for constants."""
    if op is None:
        return None
    return op.get("c") or op.get("m")


def op_const(op):
    return op.get("k") if op else None


def place_fields(pl):
    """[(owner, name)] for every field projection of a place."""
    return [(e["o"], e["n"]) for e in pl["p"] if isinstance(e, dict) and "f" in e]


def is_bare(pl):
    return not pl["p"]


class Body:
    def __init__(self, facts, raw, fid=None, parent=None):
        self.facts = facts
        self.raw = raw
        self.id = fid or raw["id"]
        self.kind = raw.get("kind", "Promoted")
        self.span = raw.get("span", "")
        self.name = raw.get("name")
        self.blocks = raw["blocks"]
        self.locals = raw["locals"]
        self.arg_count = raw.get("arg_count", 0)
        self.parent = raw.get("parent")
        self.root = raw.get("root", self.id)
        self.n = len(self.blocks)
        self._succ = None
        self._pred = None
        self._idom = None
        self._ipdom = None
        self._cdep = None
        self._defs = None
        self._reach = None

    # ---- CFG (normal edges only; cleanup blocks excluded) ----
    def term(self, bb):
        return self.blocks[bb]["term"]

    def stmts(self, bb):
        return self.blocks[bb]["stmts"]

    def is_cleanup(self, bb):
        return self.blocks[bb]["cleanup"]

    def succ(self, bb):
        if self._succ is None:
            self._succ = []
            for b in self.blocks:
                t = b["term"]
                k = t["k"]
                if k == "goto":
                    s = [t["target"]]
                elif k == "switch":
                    s = []
                    for _v, tb in t["targets"]:
                        if tb not in s:
                            s.append(tb)
                    if t["otherwise"] not in s:
                        s.append(t["otherwise"])
                elif k in ("call", "drop", "assert"):
                    s = [t["target"]] if t.get("target") is not None else []
                else:
                    s = []
                self._succ.append(s)
        return self._succ[bb]

    def pred(self, bb):
        if self._pred is None:
            self._pred = [[] for _ in range(self.n)]
            for b in range(self.n):
                if self.is_cleanup(b):
                    continue
                for s in self.succ(b):
                    self._pred[s].append(b)
        return self._pred[bb]

    def reachable(self):
        """Blocks reachable from entry over normal edges."""
        if self._reach is None:
            seen = {0}
            st = [0]
            while st:
                b = st.pop()
                for s in self.succ(b):
                    if s not in seen and not self.is_cleanup(s):
                        seen.add(s)
                        st.append(s)
            self._reach = seen
        return self._reach

    def rpo(self):
        seen = set()
        order = []

        def dfs(b):
            stack = [(b, iter(self.succ(b)))]
            seen.add(b)
            while stack:
                node, it = stack[-1]
                adv = False
                for s in it:
                    if s not in seen and not self.is_cleanup(s):
                        seen.add(s)
                        stack.append((s, iter(self.succ(s))))
                        adv = True
                        break
                if not adv:
                    order.append(node)
                    stack.pop()

        dfs(0)
        order.reverse()
        return order

    # ---- dominators ----
    def idom(self):
        if self._idom is None:
            order = self.rpo()
            idx = {b: i for i, b in enumerate(order)}
            idom = {0: 0}
            changed = True
            while changed:
                changed = False
                for b in order[1:]:
                    new = None
                    for p in self.pred(b):
                        if p in idom:
                            if new is None:
                                new = p
                            else:
                                a, c = p, new
                                while a != c:
                                    while idx[a] > idx[c]:
                                        a = idom[a]
                                    while idx[c] > idx[a]:
                                        c = idom[c]
                                new = a
                    if new is not None and idom.get(b) != new:
                        idom[b] = new
                        changed = True
            self._idom = idom
        return self._idom

    def dominates(self, a, b):
        """block a dominates block b (reflexive)."""
        idom = self.idom()
        if b not in idom or a not in idom:
            return False
        while True:
            if a == b:
                return True
            if b == 0:
                return False
            b = idom[b]

    def ipdom(self):
        """immediate post-dominators; virtual exit = -1, joined from every block without
        normal successors (return, unreachable, diverging call)."""
        if self._ipdom is None:
            reach = self.reachable()
            EXIT = -1
            rsucc = {b: list(self.pred(b)) for b in reach}  # successors in reverse graph
            rpred = {b: [s for s in self.succ(b) if s in reach] for b in reach}
            exits = [b for b in reach if not rpred[b]]
            rsucc[EXIT] = exits
            for b in exits:
                rpred[b] = [EXIT]
            rpred[EXIT] = []
            # blocks in infinite loops without exit: connect arbitrarily (none expected)
            seen = set()
            order = []
            stack = [(EXIT, iter(rsucc[EXIT]))]
            seen.add(EXIT)
            while stack:
                node, it = stack[-1]
                adv = False
                for s in it:
                    if s not in seen:
                        seen.add(s)
                        stack.append((s, iter(rsucc.get(s, []))))
                        adv = True
                        break
                if not adv:
                    order.append(node)
                    stack.pop()
            order.reverse()
            idx = {b: i for i, b in enumerate(order)}
            ip = {EXIT: EXIT}
            changed = True
            while changed:
                changed = False
                for b in order[1:]:
                    new = None
                    for p in rpred[b]:
                        if p in ip:
                            if new is None:
                                new = p
                            else:
                                a, c = p, new
                                while a != c:
                                    while idx[a] > idx[c]:
                                        a = ip[a]
                                    while idx[c] > idx[a]:
                                        c = ip[c]
                                new = a
                    if new is not None and ip.get(b) != new:
                        ip[b] = new
                        changed = True
            self._ipdom = ip
        return self._ipdom

    def postdominates(self, a, b):
        ip = self.ipdom()
        if a not in ip or b not in ip:
            return False
        while True:
            if a == b:
                return True
            if b == -1:
                return False
            b = ip[b]

    def cdeps(self):
        """control dependence: {block: set((branch_block, successor_taken))} (direct)."""
        if self._cdep is None:
            ip = self.ipdom()
            cd = {b: set() for b in self.reachable()}
            for a in self.reachable():
                ss = [s for s in self.succ(a) if s in ip]
                if len(ss) < 2:
                    continue
                for s in ss:
                    runner = s
                    stop = ip.get(a, -1)
                    while runner != stop and runner != -1:
                        cd[runner].add((a, s))
                        runner = ip[runner]
            self._cdep = cd
        return self._cdep

    def cdeps_transitive(self, bb):
        out = set()
        work = [bb]
        seen = set()
        while work:
            b = work.pop()
            for a, s in self.cdeps().get(b, ()):
                if (a, s) not in out:
                    out.add((a, s))
                    if a not in seen:
                        seen.add(a)
                        work.append(a)
        return out

    def reach_from(self, start, avoid=()):
        """blocks reachable from block `start` (inclusive) without passing through `avoid`."""
        avoid = set(avoid)
        seen = set()
        st = [start]
        while st:
            b = st.pop()
            if b in seen or b in avoid or self.is_cleanup(b):
                continue
            seen.add(b)
            st.extend(self.succ(b))
        return seen

    # ---- definitions / data dependence ----
    def defs(self):
        """local -> list of definition records:
        ('stmt', bb, i, stmt) | ('call', bb, term) | ('arg', idx) | ('mutcall', bb, term, argidx)"""
        if self._defs is None:
            d = {i: [] for i in range(len(self.locals))}
            for i in range(1, self.arg_count + 1):
                d[i].append(("arg", i))
            refs = {}  # temp local -> (base local, is_mut) when temp = &[mut] place(base)
            deref_stores = []
            # reference-typed temporaries that are plain copies / reborrows of another reference: mutation *through*
            # them changes the ultimate referent, not the temporary (an inlined helper's `self` is such a copy)
            nassign = {}
            link = {}
            for blk in self.blocks:
                if blk["cleanup"]:
                    continue
                for st in blk["stmts"]:
                    if st["k"] == "assign" and not st["lhs"]["p"]:
                        l0 = st["lhs"]["l"]
                        nassign[l0] = nassign.get(l0, 0) + 1
                        rv = st.get("rv") or {}
                        src = None
                        if "use" in rv and op_place(rv["use"]) is not None and not op_place(rv["use"])["p"]:
                            src = op_place(rv["use"])["l"]
                        elif "ref" in rv and rv["ref"]["p"] == ["*"]:
                            src = rv["ref"]["l"]
                        if src is not None and str(self.locals[l0].get("ty", "")).startswith("&"):
                            link[l0] = src
                if blk["term"]["k"] == "call":
                    l0 = blk["term"]["dest"]["l"]
                    nassign[l0] = nassign.get(l0, 0) + 2

            def ultimate(l0):
                for _hop in range(8):
                    if l0 > self.arg_count and nassign.get(l0) == 1 and l0 in link:
                        l0 = link[l0]
                    else:
                        break
                return l0
            for bb, blk in enumerate(self.blocks):
                if blk["cleanup"]:
                    continue
                for i, st in enumerate(blk["stmts"]):
                    if st["k"] in ("assign", "setdiscr"):
                        lhs = st["lhs"]
                        if lhs["p"] and lhs["p"][0] == "*" and lhs["l"] > self.arg_count and ultimate(lhs["l"]) != lhs["l"]:
                            d[ultimate(lhs["l"])].append(("stmt", bb, i, st))
                        elif lhs["p"] and lhs["p"][0] == "*" and lhs["l"] > self.arg_count:
                            # a store through a temporary reference writes the referent, not the reference
                            deref_stores.append((bb, i, st))
                        else:
                            d[lhs["l"]].append(("stmt", bb, i, st))
                        rv = st.get("rv") or {}
                        if "ref" in rv and rv.get("mut") and is_bare(st["lhs"]):
                            base = rv["ref"]["l"]
                            if rv["ref"]["p"] and rv["ref"]["p"][0] == "*":
                                base = ultimate(base)
                            refs[st["lhs"]["l"]] = base
                t = blk["term"]
                if t["k"] == "call":
                    d[t["dest"]["l"]].append(("call", bb, t))
            for (bb, i, st) in deref_stores:
                l = st["lhs"]["l"]
                bases = set()
                if l in refs:
                    bases.add(refs[l])
                else:
                    for rec in d.get(l, ()):
                        if rec[0] == "call":
                            for a in rec[2]["args"]:
                                pl = op_place(a)
                                if pl and is_bare(pl) and pl["l"] in refs:
                                    bases.add(refs[pl["l"]])
                        elif rec[0] == "stmt":
                            rv = rec[3].get("rv") or {}
                            src = rv.get("ref") or op_place(rv.get("use")) if ("ref" in rv or "use" in rv) else None
                            if src is not None:
                                # follow copies of the reference back to the place it borrows (an inlined helper's
                                # `self` is a copy of a reborrow of the caller's `self`)
                                sl = src["l"]
                                for _hop in range(6):
                                    if sl in refs:
                                        sl = refs[sl]
                                        break
                                    if sl <= self.arg_count:
                                        break
                                    rs = [r2 for r2 in d.get(sl, ()) if r2[0] == "stmt"]
                                    if len(rs) != 1 or d.get(sl) != rs:
                                        break
                                    rv2 = rs[0][3].get("rv") or {}
                                    nxt = rv2.get("ref") or (op_place(rv2.get("use")) if "use" in rv2 else None)
                                    if nxt is None:
                                        break
                                    sl = nxt["l"]
                                bases.add(sl)
                if not bases:
                    bases.add(l)
                for bl in bases:
                    d[bl].append(("stmt", bb, i, st))
            # a call receiving `&mut X` may write X
            for bb, blk in enumerate(self.blocks):
                if blk["cleanup"]:
                    continue
                t = blk["term"]
                if t["k"] == "call":
                    for ai, a in enumerate(t["args"]):
                        pl = op_place(a)
                        if pl and is_bare(pl) and pl["l"] in refs:
                            base = refs[pl["l"]]
                            d[base].append(("mutcall", bb, t, ai))
            self._defs = d
        return self._defs

    def local_name(self, l):
        return self.locals[l].get("name")

    def local_ty(self, l):
        return self.locals[l]["ty"]

    def atoms(self, start, max_steps=4000, through_calls=True, stop_calls=None):
        """Backward data-dependence slice (flow-insensitive over locals).
        `start`: operand, place or local index.  Returns a set of atoms:
          ('field', owner, name)   a field read on the way
          ('call', callee_def)     result of a call (callee = resolved def or trait method)
          ('const', text)          a constant
          ('arg', idx) / ('upvar', name)
          ('agg', adt, variant)    an aggregate constructor
          ('bin', op) / ('un', op) / ('cast', kind)
        stop_calls: callee-def predicate; when true the slice does not continue into the
        arguments of that call."""
        out = set()
        seen = set()
        work = []

        def push_place(pl):
            # field-sensitive step through a temporary aggregate: `tmp = (a, b); x = tmp.1`
            if pl["p"] and isinstance(pl["p"][0], dict) and "f" in pl["p"][0]:
                sd = self.single_def(pl["l"])
                if sd and sd[0] == "stmt" and not sd[3]["lhs"]["p"]:
                    rv = sd[3].get("rv") or {}
                    if rv.get("agg") in ("tuple", "adt", "array", "closure") and \
                            len(rv["ops"]) > pl["p"][0]["f"] and not self.has_partial_writes(pl["l"]):
                        out.add(("agg", rv.get("adt") or rv.get("def") or rv["agg"], rv.get("variant", "")))
                        push_op(rv["ops"][pl["p"][0]["f"]])
                        for (o, n) in place_fields({"p": pl["p"][1:]}):
                            out.add(("field", o, n))
                        return
            for (o, n) in place_fields(pl):
                out.add(("field", o, n))
                if o.startswith("closure:"):
                    out.add(("upvar", n))
            for e in pl["p"]:
                if isinstance(e, dict) and "idx" in e:
                    work.append(e["idx"])
            work.append(pl["l"])

        def push_op(op):
            if op is None:
                return
            pl = op_place(op)
            if pl is not None:
                push_place(pl)
            else:
                k = op_const(op)
                if k is not None:
                    out.add(("const", k.get("v", "")))
                    if "int" in k:
                        out.add(("int", k["int"]))
                    if "fn" in k:
                        out.add(("fnconst", k["fn"]["def"]))
                    if "promoted" in k:
                        out.add(("promoted", k["promoted"]))
                        for cv in self.promoted_consts(k["promoted"]):
                            out.add(("const", cv))

        if isinstance(start, int):
            work.append(start)
        elif "l" in start and "p" in start:
            push_place(start)
        else:
            push_op(start)
        steps = 0
        defs = self.defs()
        while work and steps < max_steps:
            l = work.pop()
            if l in seen:
                continue
            seen.add(l)
            steps += 1
            if self.local_name(l):
                out.add(("local", self.local_name(l)))
            out.add(("lidx", l))
            for rec in defs.get(l, ()):
                if rec[0] == "arg":
                    out.add(("arg", rec[1]))
                elif rec[0] == "stmt":
                    st = rec[3]
                    rv = st.get("rv")
                    if rv is None:
                        continue
                    self._rv_atoms(rv, out, push_op, push_place)
                elif rec[0] in ("call", "mutcall"):
                    t = rec[2]
                    cd = callee_def(t)
                    out.add(("call", cd))
                    if stop_calls and stop_calls(cd):
                        continue
                    if through_calls:
                        for a in t["args"]:
                            push_op(a)
                        if t.get("func"):
                            push_op(t["func"])
        return out

    @staticmethod
    def _rv_atoms(rv, out, push_op, push_place):
        if "use" in rv:
            push_op(rv["use"])
        elif "ref" in rv:
            push_place(rv["ref"])
        elif "rawptr" in rv:
            push_place(rv["rawptr"])
        elif "bin" in rv:
            out.add(("bin", rv["bin"]))
            push_op(rv["a"])
            push_op(rv["b"])
        elif "un" in rv:
            out.add(("un", rv["un"]))
            push_op(rv["a"])
        elif "cast" in rv:
            out.add(("cast", rv["kind"]))
            push_op(rv["cast"])
        elif "discr" in rv:
            out.add(("discr",))
            push_place(rv["discr"])
        elif "agg" in rv:
            out.add(("agg", rv.get("adt") or rv.get("def") or rv["agg"], rv.get("variant", "")))
            for o in rv["ops"]:
                push_op(o)
        elif "repeat" in rv:
            push_op(rv["repeat"])

    def promoted_consts(self, i):
        """constant texts appearing in promoted body i of this function (e.g. the "id" in `&"id"`)."""
        out = []
        proms = self.raw.get("promoted") or []
        if i < len(proms):
            for blk in proms[i]["blocks"]:
                for st in blk["stmts"]:
                    rv = st.get("rv") or {}
                    for o in _rv_ops(rv):
                        k = op_const(o)
                        if k is not None:
                            out.append(k.get("v", ""))
        return out

    def has_partial_writes(self, l):
        for rec in self.defs().get(l, ()):
            if rec[0] == "stmt" and rec[3]["lhs"]["p"]:
                return True
            if rec[0] == "mutcall":
                return True
        return False

    # ---- expression reconstruction ----
    def single_def(self, l):
        ds = [r for r in self.defs().get(l, ()) if r[0] != "mutcall"]
        if len(ds) == 1:
            return ds[0]
        return None

    def expr_top(self, x, expand_named=False, depth=12):
        """entry point: sets the expansion mode for the whole reconstruction"""
        old = getattr(self, "_expand", False)
        self._expand = expand_named
        try:
            return self.expr(x, depth, expand_named)
        finally:
            self._expand = old

    def expr(self, x, depth=12, expand_named=None):
        """Readable expression for an operand / place / local; temporaries with a single
        definition are expanded.  Used for site keys and definitional checks."""
        if depth <= 0:
            return "…"
        if expand_named is None:
            expand_named = getattr(self, "_expand", False)
        if isinstance(x, int):
            return self._expr_local(x, depth, expand_named)
        if "l" in x and "p" in x:
            return self._expr_place(x, depth, expand_named)
        pl = op_place(x)
        if pl is not None:
            return self._expr_place(pl, depth, expand_named)
        k = op_const(x)
        if k is not None:
            if "fn" in k:
                return short_path(k["fn"].get("resolved") or k["fn"]["def"])
            v = k.get("v", "?")
            if v.startswith("const "):
                v = v[6:]
            return v
        return "?"

    def _expr_local(self, l, depth, expand_named):
        nm = self.local_name(l)
        if nm and not expand_named:
            return nm
        if l == 0:
            return "_ret"
        sd = self.single_def(l)
        if sd is None:
            return nm or ("_%d" % l)
        if sd[0] == "arg":
            return nm or ("arg%d" % sd[1])
        if sd[0] == "stmt":
            st = sd[3]
            if st["k"] != "assign" or st["lhs"]["p"]:
                return nm or ("_%d" % l)
            return self._expr_rv(st["rv"], depth - 1)
        if sd[0] == "call":
            t = sd[2]
            if t["dest"]["p"]:
                return nm or ("_%d" % l)
            return "%s(%s)" % (
                short_path(callee_def(t)),
                ", ".join(self.expr(a, depth - 1) for a in t["args"]),
            )
        return nm or ("_%d" % l)

    def _expr_place(self, pl, depth, expand_named):
        base = self._expr_local(pl["l"], depth, expand_named)
        s = base
        for e in pl["p"]:
            if e == "*":
                if s.startswith("&mut "):
                    s = s[5:]
                elif s.startswith("&"):
                    s = s[1:]
                else:
                    s = "*" + s if False else s
            elif isinstance(e, dict) and "f" in e:
                s = "%s.%s" % (s, e["n"])
            elif isinstance(e, dict) and "idx" in e:
                s = "%s[%s]" % (s, self._expr_local(e["idx"], depth - 1, expand_named))
            elif isinstance(e, dict) and "cidx" in e:
                s = "%s[%s%d]" % (s, "-" if e.get("from_end") else "", e["cidx"])
            elif isinstance(e, dict) and "dc" in e:
                s = "(%s as %s)" % (s, e["dc"])
            elif isinstance(e, dict) and "sub_from" in e:
                s = "%s[%d..]" % (s, e["sub_from"])
        return s

    def _expr_rv(self, rv, depth):
        if "use" in rv:
            return self.expr(rv["use"], depth)
        if "ref" in rv:
            return ("&mut " if rv.get("mut") else "&") + self.expr(rv["ref"], depth)
        if "bin" in rv:
            op = BINOPS.get(rv["bin"], rv["bin"])
            return "(%s %s %s)" % (self.expr(rv["a"], depth), op, self.expr(rv["b"], depth))
        if "un" in rv:
            return "%s(%s)" % (rv["un"], self.expr(rv["a"], depth))
        if "cast" in rv:
            return "(%s as %s)" % (self.expr(rv["cast"], depth), rv["to"])
        if "discr" in rv:
            return "discr(%s)" % self.expr(rv["discr"], depth)
        if "agg" in rv:
            nm = rv.get("adt") or rv.get("def") or rv["agg"]
            nm = short_path(nm)
            if rv.get("variant") and rv.get("agg") == "adt" and rv["variant"] != nm.split("::")[-1]:
                nm = nm + "::" + rv["variant"]
            return "%s{%s}" % (nm, ", ".join(self.expr(o, depth) for o in rv["ops"]))
        if "repeat" in rv:
            return "[%s; %s]" % (self.expr(rv["repeat"], depth), rv["count"])
        if "rawptr" in rv:
            return "&raw " + self.expr(rv["rawptr"], depth)
        return "?"

    # ---- canonical (name-independent) expressions
    def canon(self, x, depth=14, env=None):
        """Like expr, but independent of local variable names: single-definition locals are expanded to their
        defining expression, parameters are `argN` (`self` for a receiver), closure captures are `up<i>:<type>`,
        and locals with several definitions (loop cursors, accumulators) become `$0, $1, …` in order of first
        appearance.  Field and function names are kept (they are the program's own vocabulary)."""
        if env is None:
            env = {}
        if depth <= 0:
            return "…"
        if isinstance(x, int):
            return self._canon_local(x, depth, env)
        if "l" in x and "p" in x:
            return self._canon_place(x, depth, env)
        pl = op_place(x)
        if pl is not None:
            return self._canon_place(pl, depth, env)
        k = op_const(x)
        if k is not None:
            if "fn" in k:
                return short_path(k["fn"].get("resolved") or k["fn"]["def"])
            v = k.get("v", "?")
            return v[6:] if v.startswith("const ") else v
        return "?"

    def _canon_local(self, l, depth, env):
        if l == 0:
            return "_ret"
        if 1 <= l <= self.arg_count:
            if self.kind == "Closure" and l == 1:
                return "env"
            if self.local_name(l) == "self":
                return "self"
            return "arg%d" % l
        sd = self.single_def(l)
        if sd is not None and not self.has_partial_writes(l):
            if sd[0] == "stmt":
                st = sd[3]
                if st["k"] == "assign" and not st["lhs"]["p"]:
                    rv = st["rv"]
                    # plain copies and reborrows do not use up the expansion budget
                    cheap = ("use" in rv and op_place(rv["use"]) is not None) or ("ref" in rv and rv["ref"]["p"] == ["*"])
                    return self._canon_rv(rv, depth - (0.125 if cheap else 1), env)
            elif sd[0] == "call":
                t = sd[2]
                if not t["dest"]["p"]:
                    return "%s(%s)" % (short_path(callee_def(t)), ", ".join(self.canon(a, depth - 1, env) for a in t["args"]))
        if l not in env:
            env[l] = "$%d" % len(env)
        return env[l]

    def _canon_place(self, pl, depth, env):
        s = self._canon_local(pl["l"], depth, env)
        for e in pl["p"]:
            if e == "*":
                if s.startswith("&mut "):
                    s = s[5:]
                elif s.startswith("&"):
                    s = s[1:]
            elif isinstance(e, dict) and "f" in e:
                if e["o"].startswith("closure:"):
                    s = self._canon_upvar(e)
                else:
                    s = "%s.%s" % (s, e["n"])
            elif isinstance(e, dict) and "idx" in e:
                s = "%s[%s]" % (s, self._canon_local(e["idx"], depth - 1, env))
            elif isinstance(e, dict) and "cidx" in e:
                s = "%s[%s%d]" % (s, "-" if e.get("from_end") else "", e["cidx"])
            elif isinstance(e, dict) and "dc" in e:
                s = "(%s as %s)" % (s, e["dc"])
            elif isinstance(e, dict) and "sub_from" in e:
                s = "%s[%d..]" % (s, e["sub_from"])
        return s

    def _canon_upvar(self, e):
        """a captured variable is named by what the creating body captures — the canonical expression of the
        operand in the closure aggregate — not by its position in the capture list (which changes when the
        closure body mentions its captures in another order)"""
        ud = getattr(self.facts, "upvar_depth", 2)  # 2 for site keys; a rule may ask for the full captured expression
        if getattr(self, "_capt", None) is None or getattr(self, "_capt_depth", None) != ud:
            self._capt = {}
            self._capt_depth = ud
            pb = self.facts.bodies.get(self.parent) if self.parent else None
            if pb is not None:
                for (_bb, _i, cdef, ops, _fields) in pb.closures_created():
                    if cdef == self.id:
                        for i, o in enumerate(ops):
                            self._capt[i] = pb.canon(o, depth=ud, env={}).replace("$", "^")
        ty = e["ty"].split("::")[-1][:40]
        if e["f"] in self._capt:
            return "up{%s}" % self._capt[e["f"]]
        return "up%d:%s" % (e["f"], ty)

    def _canon_rv(self, rv, depth, env):
        if "use" in rv:
            return self.canon(rv["use"], depth, env)
        if "ref" in rv:
            return ("&mut " if rv.get("mut") else "&") + self.canon(rv["ref"], depth, env)
        if "bin" in rv:
            op = BINOPS.get(rv["bin"], rv["bin"])
            return "(%s %s %s)" % (self.canon(rv["a"], depth, env), op, self.canon(rv["b"], depth, env))
        if "un" in rv:
            return "%s(%s)" % (rv["un"], self.canon(rv["a"], depth, env))
        if "cast" in rv:
            return "(%s as %s)" % (self.canon(rv["cast"], depth, env), rv["to"])
        if "discr" in rv:
            return "discr(%s)" % self.canon(rv["discr"], depth, env)
        if "agg" in rv:
            nm = short_path(rv.get("adt") or rv.get("def") or rv["agg"])
            if rv.get("variant") and rv.get("agg") == "adt" and rv["variant"] != nm.split("::")[-1]:
                nm = nm + "::" + rv["variant"]
            return "%s{%s}" % (nm, ", ".join(self.canon(o, depth, env) for o in rv["ops"]))
        if "repeat" in rv:
            return "[%s; %s]" % (self.canon(rv["repeat"], depth, env), rv["count"])
        if "rawptr" in rv:
            return "&raw " + self.canon(rv["rawptr"], depth, env)
        return "?"

    # ---- iteration helpers ----
    def calls(self, pred=None):
        """[(bb, term)] for non-cleanup, reachable call terminators matching pred(callee_def, term)."""
        out = []
        reach = self.reachable()
        for bb in range(self.n):
            if bb not in reach:
                continue
            t = self.term(bb)
            if t["k"] == "call":
                cd = callee_def(t)
                if pred is None or pred(cd, t):
                    out.append((bb, t))
        return out

    def all_places(self):
        """yield (bb, where, place, access) for every place mentioned in reachable non-cleanup code.
        access in {'read','write','ref','refmut','move','drop','discr'}"""
        reach = self.reachable()
        for bb in range(self.n):
            if bb not in reach:
                continue
            for i, st in enumerate(self.stmts(bb)):
                if st["k"] == "assign":
                    yield (bb, ("stmt", i), st["lhs"], "write")
                    yield from self._rv_places(bb, ("stmt", i), st["rv"])
                elif st["k"] == "setdiscr":
                    yield (bb, ("stmt", i), st["lhs"], "write")
            t = self.term(bb)
            k = t["k"]
            if k == "call":
                for a in t["args"]:
                    yield from self._op_places(bb, ("term",), a)
                if t.get("func"):
                    yield from self._op_places(bb, ("term",), t["func"])
                yield (bb, ("term",), t["dest"], "write")
            elif k == "switch":
                yield from self._op_places(bb, ("term",), t["discr"])
            elif k == "drop":
                yield (bb, ("term",), t["place"], "drop")
            elif k == "assert":
                yield from self._op_places(bb, ("term",), t["cond"])

    def _op_places(self, bb, where, op):
        if "c" in op:
            yield (bb, where, op["c"], "read")
        elif "m" in op:
            yield (bb, where, op["m"], "move")

    def _rv_places(self, bb, where, rv):
        if "use" in rv:
            yield from self._op_places(bb, where, rv["use"])
        elif "ref" in rv:
            yield (bb, where, rv["ref"], "refmut" if rv.get("mut") else "ref")
        elif "rawptr" in rv:
            yield (bb, where, rv["rawptr"], "refmut" if rv.get("mut") else "ref")
        elif "bin" in rv:
            yield from self._op_places(bb, where, rv["a"])
            yield from self._op_places(bb, where, rv["b"])
        elif "un" in rv:
            yield from self._op_places(bb, where, rv["a"])
        elif "cast" in rv:
            yield from self._op_places(bb, where, rv["cast"])
        elif "discr" in rv:
            yield (bb, where, rv["discr"], "discr")
        elif "agg" in rv:
            for o in rv["ops"]:
                yield from self._op_places(bb, where, o)
        elif "repeat" in rv:
            yield from self._op_places(bb, where, rv["repeat"])

    def closures_created(self):
        """[(bb, stmt_index, closure_def, ops, field_names)]"""
        out = []
        reach = self.reachable()
        for bb in range(self.n):
            if bb not in reach:
                continue
            for i, st in enumerate(self.stmts(bb)):
                rv = st.get("rv") or {}
                if rv.get("agg") == "closure":
                    out.append((bb, i, rv["def"], rv["ops"], rv.get("fields", [])))
        return out

    # ---- branch conditions ----
    def switch_source(self, bb):
        """For a switch terminator: (negated, source) where source is the operand/place/call the
        discriminant comes from, following copies and `Not`.  source kinds:
        ('place', place) | ('call', term) | ('bin', rv) | ('discr', place) | ('const', k) | ('unknown',)"""
        t = self.term(bb)
        assert t["k"] == "switch"
        return self.trace_value(t["discr"])

    def trace_value(self, op, depth=10):
        neg = False
        cur = op
        while depth > 0:
            depth -= 1
            pl = op_place(cur)
            if pl is None:
                return (neg, ("const", op_const(cur)))
            if pl["p"]:
                # a projected place: field read etc.  If it is a deref of a temp ref, follow it
                if pl["p"] == ["*"]:
                    sd = self.single_def(pl["l"])
                    if sd and sd[0] == "stmt" and "ref" in sd[3].get("rv", {}) and not self.local_name(pl["l"]):
                        cur = {"c": sd[3]["rv"]["ref"]}
                        continue
                return (neg, ("place", pl))
            l = pl["l"]
            sd = self.single_def(l)
            if sd is None:
                return (neg, ("place", pl))
            if sd[0] == "arg":
                return (neg, ("place", pl))
            if sd[0] == "call":
                return (neg, ("call", sd[2]))
            st = sd[3]
            rv = st.get("rv", {})
            if "use" in rv:
                cur = rv["use"]
                continue
            if "un" in rv and rv["un"] == "Not":
                neg = not neg
                cur = rv["a"]
                continue
            if "bin" in rv:
                return (neg, ("bin", rv))
            if "discr" in rv:
                return (neg, ("discr", rv["discr"]))
            if "cast" in rv:
                cur = rv["cast"]
                continue
            return (neg, ("rv", rv))
        return (neg, ("unknown",))


BINOPS = {
    "Add": "+", "Sub": "-", "Mul": "*", "Div": "/", "Rem": "%", "Lt": "<", "Le": "<=", "Gt": ">",
    "Ge": ">=", "Eq": "==", "Ne": "!=", "BitAnd": "&", "BitOr": "|", "BitXor": "^", "Shl": "<<",
    "Shr": ">>", "AddWithOverflow": "+", "SubWithOverflow": "-", "MulWithOverflow": "*",
    "AddUnchecked": "+", "SubUnchecked": "-", "MulUnchecked": "*", "Offset": "offset", "Cmp": "cmp",
}


def callee_def(t):
    """Best name for the callee of a call terminator: the resolved instance's def path if the
    call resolves, else the (trait) method path; None for indirect calls."""
    c = t.get("callee")
    if not c:
        return None
    return c.get("resolved") or c["def"]


def callee_decl(t):
    c = t.get("callee")
    return c["def"] if c else None


def short_path(p):
    if p is None:
        return "<indirect>"
    # strip generic args and module prefixes for readability in keys
    out = []
    depth = 0
    cur = ""
    for ch in p:
        if ch == "<":
            depth += 1
        elif ch == ">":
            depth -= 1
        cur += ch
    segs = split_path(p)
    segs = [s for s in segs if s]
    if len(segs) >= 2:
        return "::".join(segs[-2:]) if not segs[-2].startswith("<") else "::".join(segs[-2:])
    return p


def split_path(p):
    segs = []
    depth = 0
    cur = ""
    i = 0
    while i < len(p):
        ch = p[i]
        if ch in "<([":
            depth += 1
        elif ch in ">)]":
            depth -= 1
        if ch == ":" and depth == 0 and p[i:i + 2] == "::":
            segs.append(cur)
            cur = ""
            i += 2
            continue
        cur += ch
        i += 1
    segs.append(cur)
    return segs


class Facts:
    def __init__(self, raw, config):
        self.raw = raw
        self.config = config
        self.bodies = {}
        from .inline import inline_helpers
        self.inline_info = inline_helpers(raw, VERIF)
        for f in raw["fns"]:
            b = Body(self, f)
            self.bodies[b.id] = b
        self.adts = {a["path"]: a for a in raw["adts"]}
        self.impls = raw["impls"]
        self.traits = {t["path"]: t for t in raw["traits"]}
        self.statics = raw["statics"]
        self._cg = None
        self._closure_parent = None

    def body(self, fid):
        return self.bodies.get(fid)

    def find(self, suffix):
        """bodies whose id equals suffix or ends with '::'+suffix"""
        return [b for i, b in self.bodies.items() if i == suffix or i.endswith("::" + suffix)]

    def one(self, suffix):
        r = self.find(suffix)
        if len(r) != 1:
            raise AnchorMissing("expected exactly one function %r, found %d" % (suffix, len(r)))
        return r[0]

    def closures_of(self, fid, recursive=True):
        out = []
        for i, b in self.bodies.items():
            if b.kind == "Closure":
                if b.parent == fid or (recursive and b.root == fid and self._under(b, fid)):
                    out.append(b)
        return out

    def _under(self, b, fid):
        p = b.parent
        while p:
            if p == fid:
                return True
            pb = self.bodies.get(p)
            if pb is None or pb.kind != "Closure":
                return p == fid
            p = pb.parent
        return False

    # ---- call graph over local bodies ----
    def callgraph(self):
        """edges: body id -> set of local body ids it may invoke (direct calls resolved to local
        defs, closures it constructs, fn items it references)."""
        if self._cg is None:
            cg = {i: set() for i in self.bodies}
            ext = {i: set() for i in self.bodies}
            for i, b in self.bodies.items():
                for bb in b.reachable():
                    for st in b.stmts(bb):
                        rv = st.get("rv") or {}
                        if rv.get("agg") == "closure" and rv["def"] in self.bodies:
                            cg[i].add(rv["def"])
                        for op in _rv_ops(rv):
                            k = op_const(op)
                            if k and "fn" in k:
                                self._add_edge(cg, ext, i, k["fn"])
                    t = b.term(bb)
                    if t["k"] == "call":
                        c = t.get("callee")
                        if c:
                            self._add_edge(cg, ext, i, c)
                        for a in t["args"]:
                            k = op_const(a)
                            if k and "fn" in k:
                                self._add_edge(cg, ext, i, k["fn"])
            self._cg = cg
            self._ext = ext
        return self._cg

    def _add_edge(self, cg, ext, i, c):
        r = c.get("resolved")
        if r and r in self.bodies:
            cg[i].add(r)
            return
        d = c["def"]
        if d in self.bodies:
            cg[i].add(d)
            return
        # unresolved trait method of a local trait: may dispatch to every impl (and the default)
        tr = c.get("trait")
        if tr and tr in self.traits and not r:
            m = c.get("method")
            for im in self.impls:
                if im.get("trait") == tr:
                    for me in im["methods"]:
                        if me["name"] == m and me["impl_item"] in self.bodies:
                            cg[i].add(me["impl_item"])
            return
        ext[i].add(r or d)

    def ext_calls(self, fid):
        self.callgraph()
        return self._ext[fid]

    def reachable_from(self, roots):
        cg = self.callgraph()
        seen = set()
        st = list(roots)
        while st:
            x = st.pop()
            if x in seen or x not in cg:
                continue
            seen.add(x)
            st.extend(cg[x])
        return seen

    def callers_of(self, fid):
        cg = self.callgraph()
        return sorted(i for i, s in cg.items() if fid in s)

    def call_sites(self, pred):
        """[(body, bb, term)] over all bodies for calls whose callee matches pred(def, term)."""
        out = []
        for b in self.bodies.values():
            for bb, t in b.calls(pred):
                out.append((b, bb, t))
        return out

    def adt(self, suffix):
        r = [a for p, a in self.adts.items() if p == suffix or p.endswith("::" + suffix)]
        if len(r) != 1:
            raise AnchorMissing("expected exactly one ADT %r, found %d" % (suffix, len(r)))
        return r[0]


def _rv_ops(rv):
    for k in ("use", "a", "b", "cast", "repeat"):
        if k in rv and isinstance(rv[k], dict):
            yield rv[k]
    for o in rv.get("ops", ()):
        yield o


class AnchorMissing(Exception):
    """A code anchor a rule depends on is gone: the rule fails closed."""


# --------------------------------------------------------------------------------------------
# small path-sensitive feasibility analysis (drop flags + enum discriminants)
# --------------------------------------------------------------------------------------------
def _refine(d, vals=None, notvals=None):
    """d: None (unknown) | ('in', fs) | ('notin', fs).  Returns refined d or 'EMPTY'."""
    if vals is not None:
        vs = frozenset(vals)
        if d is None:
            return ("in", vs)
        if d[0] == "in":
            r = d[1] & vs
        else:
            r = vs - d[1]
        return ("in", r) if r else "EMPTY"
    ns = frozenset(notvals)
    if d is None:
        return ("notin", ns)
    if d[0] == "in":
        r = d[1] - ns
        return ("in", r) if r else "EMPTY"
    return ("notin", d[1] | ns)


def flag_locals(b):
    """bool locals that are only ever assigned constants (drop flags and similar)."""
    out = set()
    for l, recs in b.defs().items():
        if b.local_ty(l) != "bool" or not recs:
            continue
        okc = True
        for r in recs:
            if r[0] != "stmt" or r[3]["k"] != "assign" or r[3]["lhs"]["p"]:
                okc = False
                break
            rv = r[3]["rv"]
            if "use" not in rv or op_const(rv["use"]) is None:
                okc = False
                break
        if okc:
            out.add(l)
    return out


def feasible_states(b, target_bb, flags=None, discr_locals=None, max_states=20000, cut_edges=()):
    """Forward exploration from entry of abstract states (values of `flags`, discriminant knowledge
    of `discr_locals`); returns the set of states that can reach target_bb (empty = infeasible).
    If flags/discr_locals are None they are derived from the switches the target is (transitively)
    control dependent on."""
    if flags is None or discr_locals is None:
        fl, dl = set(), set()
        allflags = flag_locals(b)
        for (a, s) in b.cdeps_transitive(target_bb):
            neg, src = b.switch_source(a)
            if src[0] == "place" and is_bare(src[1]) and src[1]["l"] in allflags:
                fl.add(src[1]["l"])
            elif src[0] == "discr" and is_bare(src[1]):
                dl.add(src[1]["l"])
        flags = fl if flags is None else flags
        discr_locals = dl if discr_locals is None else discr_locals
    flags = sorted(flags)
    dls = sorted(discr_locals)
    # which blocks (re)define a discr local
    cut_edges = set(cut_edges)

    def _push(frm, item):
        if (frm, item[0]) not in cut_edges:
            work.append(item)

    init = (tuple([None] * len(flags)), tuple([None] * len(dls)))
    seen = {}
    work = [(0, init)]
    reached = set()
    n = 0
    while work:
        bb, st = work.pop()
        key = (bb, st)
        if key in seen:
            continue
        seen[key] = True
        n += 1
        if n > max_states:
            return {"OVERFLOW"}
        if bb == target_bb:
            reached.add(st)
        fv = list(st[0])
        dv = list(st[1])
        for s_ in b.stmts(bb):
            if s_["k"] == "assign":
                l = s_["lhs"]["l"]
                if not s_["lhs"]["p"]:
                    if l in flags:
                        k = op_const(s_["rv"].get("use")) if "use" in s_["rv"] else None
                        fv[flags.index(l)] = (k.get("int") if k else None)
                    if l in dls:
                        rv = s_["rv"]
                        if rv.get("agg") == "adt" and "vi" in rv:
                            dv[dls.index(l)] = ("in", frozenset([_discr_of(b, rv)]))
                        else:
                            dv[dls.index(l)] = None
                elif l in dls and not any(isinstance(e, dict) and "dc" in e for e in s_["lhs"]["p"]):
                    pass
                rv = s_["rv"]
                if "ref" in rv and rv.get("mut") and rv["ref"]["l"] in dls and not rv["ref"]["p"]:
                    dv[dls.index(rv["ref"]["l"])] = None
            elif s_["k"] == "setdiscr" and s_["lhs"]["l"] in dls and not s_["lhs"]["p"]:
                dv[dls.index(s_["lhs"]["l"])] = None
        t = b.term(bb)
        k = t["k"]
        if k == "call" and not t["dest"]["p"] and t["dest"]["l"] in dls:
            dv[dls.index(t["dest"]["l"])] = None
        if k == "switch":
            neg, src = b.switch_source(bb)
            handled = False
            if src[0] == "place" and is_bare(src[1]) and src[1]["l"] in flags:
                i = flags.index(src[1]["l"])
                handled = True
                for s2 in b.succ(bb):
                    vals = [v for v, tb in t["targets"] if tb == s2]
                    listed = [v for v, _ in t["targets"]]
                    cur = fv[i]
                    if cur is not None:
                        eff = (1 - cur) if neg else cur
                        if (eff in vals) or (not vals and t["otherwise"] == s2 and eff not in listed) or \
                                (vals and t["otherwise"] == s2 and eff not in listed):
                            _push(bb, (s2, (tuple(fv), tuple(dv))))
                    else:
                        # refine
                        if vals and len(vals) == 1 and t["otherwise"] != s2:
                            nf = list(fv)
                            nf[i] = (1 - vals[0]) if neg else vals[0]
                            _push(bb, (s2, (tuple(nf), tuple(dv))))
                        elif t["otherwise"] == s2 and len(listed) == 1 and listed[0] in (0, 1):
                            nf = list(fv)
                            v = 1 - listed[0]
                            nf[i] = (1 - v) if neg else v
                            _push(bb, (s2, (tuple(nf), tuple(dv))))
                        else:
                            _push(bb, (s2, (tuple(fv), tuple(dv))))
            elif src[0] == "discr" and is_bare(src[1]) and src[1]["l"] in dls:
                i = dls.index(src[1]["l"])
                handled = True
                listed = [v for v, _ in t["targets"]]
                for s2 in b.succ(bb):
                    vals = [v for v, tb in t["targets"] if tb == s2]
                    nd = "EMPTY"
                    if vals:
                        nd = _refine(dv[i], vals=vals)
                    if t["otherwise"] == s2:
                        nd2 = _refine(dv[i], notvals=listed)
                        if nd == "EMPTY":
                            nd = nd2
                        elif nd2 != "EMPTY":
                            nd = dv[i]  # both kinds of edge lead here: no refinement
                    if nd != "EMPTY":
                        ndv = list(dv)
                        ndv[i] = nd
                        _push(bb, (s2, (tuple(fv), tuple(ndv))))
            if not handled:
                for s2 in b.succ(bb):
                    _push(bb, (s2, (tuple(fv), tuple(dv))))
        else:
            for s2 in b.succ(bb):
                if not b.is_cleanup(s2):
                    _push(bb, (s2, (tuple(fv), tuple(dv))))
    return reached


def _discr_of(b, rv):
    a = b.facts.adts.get(rv.get("adt"))
    if a:
        for v in a["variants"]:
            if v["idx"] == rv["vi"]:
                return v["discr"]
    return rv["vi"]
