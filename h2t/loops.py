"""Loop inventory and progress rule (C01-C / C17-A)."""
from .facts import callee_def, op_place, op_const, is_bare
from .util import callee_method, ends, fn_key
from .widths import norm

INFINITE_ITERS = ("std::iter::Repeat<", "std::iter::Cycle<", "std::iter::RepeatWith<", "std::iter::Successors<",
                  "std::iter::FromFn<", "std::ops::RangeFrom<", "std::iter::RepeatN<")


def sccs(nodes, succ):
    """Tarjan over the subgraph induced by `nodes`; returns list of SCCs (sets) that contain a cycle"""
    index = {}
    low = {}
    onst = set()
    st = []
    out = []
    counter = [0]
    nodes = set(nodes)

    def strong(v):
        work = [(v, iter([s for s in succ(v) if s in nodes]))]
        index[v] = low[v] = counter[0]
        counter[0] += 1
        st.append(v)
        onst.add(v)
        while work:
            node, it = work[-1]
            adv = False
            for w in it:
                if w not in index:
                    index[w] = low[w] = counter[0]
                    counter[0] += 1
                    st.append(w)
                    onst.add(w)
                    work.append((w, iter([s for s in succ(w) if s in nodes])))
                    adv = True
                    break
                elif w in onst:
                    low[node] = min(low[node], index[w])
            if adv:
                continue
            work.pop()
            if work:
                parent = work[-1][0]
                low[parent] = min(low[parent], low[node])
            if low[node] == index[node]:
                comp = set()
                while True:
                    w = st.pop()
                    onst.discard(w)
                    comp.add(w)
                    if w == node:
                        break
                if len(comp) > 1 or any(s == node for s in succ(node)):
                    out.append(comp)

    for v in sorted(nodes):
        if v not in index:
            strong(v)
    return out


class Loop:
    def __init__(self, b, blocks):
        self.b, self.blocks = b, blocks
        self.header = min(blocks, key=lambda x: (0 if any(p not in blocks for p in b.pred(x)) else 1, x))
        self.span = b.term(self.header)["span"]


def loops_of(b):
    """all loops of a body, outermost first, inner loops found by removing the header and recursing"""
    out = []

    def rec(nodes):
        for comp in sccs(nodes, b.succ):
            lp = Loop(b, comp)
            out.append(lp)
            rec(comp - {lp.header})

    rec(b.reachable())
    return out


def iterator_exit(b, lp):
    """If the loop is driven by Iterator::next: returns (next_block, iterator type, receiver expr) when every
    cycle of the loop passes the next() call and the None edge of its result leaves the loop."""
    for bb in sorted(lp.blocks):
        t = b.term(bb)
        if t["k"] != "call" or callee_method(t) not in ("next", "next_back"):
            continue
        # None edge leaves the loop
        dl = t["dest"]["l"]
        leaves = False
        for a in lp.blocks:
            ta = b.term(a)
            if ta["k"] == "switch":
                neg, src = b.switch_source(a)
                if src[0] == "discr" and src[1]["l"] == dl:
                    none_t = [tb for v, tb in ta["targets"] if v == 0]
                    if not none_t and [v for v, _tb in ta["targets"]] == [1] and ta["otherwise"] is not None:
                        none_t = [ta["otherwise"]]   # `while let Some(x) = it.next()`: only the Some value is listed
                    if none_t and none_t[0] not in lp.blocks:
                        leaves = True
        if not leaves:
            continue
        # every cycle passes bb
        rest = lp.blocks - {bb}
        if sccs(rest, b.succ):
            inner_ok = True
            # cycles remaining are inner loops (checked on their own) only if they do not contain the loop's back edge:
            # equivalently the header cannot reach itself without bb
            h = lp.header
            seen, stack = set(), [s for s in b.succ(h) if s in rest]
            reach_h = False
            while stack:
                x = stack.pop()
                if x in seen:
                    continue
                seen.add(x)
                for s in b.succ(x):
                    if s == h:
                        reach_h = True
                    if s in rest and s not in seen:
                        stack.append(s)
            if reach_h and h != bb:
                inner_ok = False
            if not inner_ok:
                continue
        c = t.get("callee") or {}
        return (bb, c.get("self_ty") or "", norm(b.expr(t["args"][0])) if t["args"] else "")
    return None
