"""C08 — link footnotes are numbered consistently with their references."""
from ..facts import AnchorMissing, callee_def, op_place, op_const, is_bare
from ..util import (SUBR, TEXTR, RTRAIT, ends, is_callee, field_accesses, site, fn_key,
                    consumer_of_ref, callee_method, dominated_by_true_edge, require,
                    closure_bodies_created_in, transitive_closures, edge_is_true, src_field,
                    edges_where, unreachable_without_edges, direct_place, find_dispatch)

EXPLANATION = (
    "Static decision of where the footnote state lives and who touches it: the per-render link "
    "list is a single Vec owned by the renderer stack (not by sub-renderers), written by one push "
    "in the counting wrapper, never reset; the reference text is derived from the list length, "
    "emitted after the link's own end under the footnote option; the tree walk's Link arm resolves "
    "to the counting wrapper; finalise/fmt_links are called once, at top level, after rendering; "
    "the default footnote label is index+1; empty links build no Link node.")
NOT_DECIDED = ("hard-wrapping of long footnote lines; whether a link has rendered content beyond "
               "the shallow-emptiness test")
ASSUMPTIONS = ["A4: user TextDecorator::finalise implementations keep the order of the urls they are given"]

VECSTRING = "std::vec::Vec<std::string::String>"


def check(ctx):
    ctx.rule("C08-A", "one link list per render: TextRenderer owns the only Vec<String> of link "
             "targets; sub-renderers own none; TextRenderer is constructed only by TextRenderer::new, "
             "called once from render_tree_to_string")
    ctx.rule("C08-B", "TextRenderer.links is append-only with a single writer: every access is one of "
             "push(target) in start_link, len() in end_link, the move in into_inner, or derived Clone/Debug")
    ctx.rule("C08-C", "the reference text depends on links.len(), is emitted only on the true edge of "
             "include_link_footnotes and after the sub-renderer's end_link")
    ctx.rule("C08-D", "the Link arm of the tree walk calls the counting wrappers TextRenderer::start_link/"
             "end_link; the trait start_link/end_link of SubRenderer have no other caller")
    ctx.rule("C08-E", "finalise and fmt_links are called exactly once, from render_tree_to_string, after "
             "the rendering walk; with the option off the decorator gets an empty list")
    ctx.rule("C08-F", "default TextDecorator::finalise labels entry i as i+1 and prints the url itself; the entry's format "
             "template, decoded from the constant given to fmt::Arguments::new, is '[' k ']: ' url with default formatting")
    ctx.rule("C08-G", "a link whose children are all shallow-empty builds no Link node")
    ctx.rule("C08-H", "a Link node's target and children are taken apart only by the Link arm of the render walk (which numbers it) "
             "and by the estimate / emptiness / debug functions: no other code renders a link's content past the numbering")
    ctx.guard("C08-E", rule_e2)
    for fn in (rule_a, rule_b, rule_c, rule_d, rule_e, rule_f, rule_g, rule_h):
        ctx.guard(fn.__name__.replace("rule_", "C08-").upper(), fn)


def rule_a(ctx):
    F = ctx.facts
    tr = F.adt("render::text_renderer::TextRenderer")
    fields = tr["variants"][0]["fields"]
    vs = [f["name"] for f in fields if f["ty"] == VECSTRING]
    ctx.check(vs == ["links"], "C08-A", "TextRenderer:one-Vec<String>-field", tr["span"], "TextRenderer",
              "fields of type Vec<String>: %s" % vs)
    for adt_name in ("render::text_renderer::SubRenderer", "render::text_renderer::WrappedBlock",
                     "render::text_renderer::RenderOptions"):
        a = F.adt(adt_name)
        bad = [f["name"] for f in a["variants"][0]["fields"] if "Vec<std::string::String>" in f["ty"]]
        ctx.check(not bad, "C08-A", "%s:no-link-list" % adt_name.split("::")[-1], a["span"], adt_name,
                  "sub-renderer level state must not hold a list of link targets; found %s" % bad)
    # constructors of TextRenderer
    ctors = []
    for b in F.bodies.values():
        for bb in b.reachable():
            for st in b.stmts(bb):
                rv = st.get("rv") or {}
                if rv.get("agg") == "adt" and ends(rv.get("adt"), TEXTR):
                    ctors.append((b, st))
    n_new = 0
    for b, st in ctors:
        if ends(b.id, "TextRenderer::<D>::new"):
            n_new += 1
            ctx.ok("C08-A", "ctor:%s" % fn_key(b), st["span"], b.id)
        elif b.raw.get("implements", "").endswith("Clone::clone"):
            callers = F.callers_of(b.id)
            ctx.check(not callers, "C08-A", "ctor:%s" % fn_key(b), st["span"], b.id,
                      "derived Clone of TextRenderer must stay uncalled; callers: %s" % callers)
        else:
            ctx.violation("C08-A", "ctor:%s" % fn_key(b), st["span"], b.id,
                          "TextRenderer constructed outside TextRenderer::new")
    ctx.floor("C08-A", "TextRenderer::new constructor", n_new, 1)
    new = F.one("TextRenderer::<D>::new")
    callers = F.callers_of(new.id)
    ctx.check(callers == [F.one("render_tree_to_string").id], "C08-A", "TextRenderer::new:callers", new.span,
              new.id, "callers of TextRenderer::new: %s (must be exactly render_tree_to_string)" % callers)
    # new_sub_renderer does not build a renderer stack
    nsr = F.one(RTRAIT + "new_sub_renderer")
    bad = [callee_def(t) for _, t in nsr.calls() if ends(callee_def(t), "TextRenderer::<D>::new")]
    ctx.check(not bad, "C08-A", "new_sub_renderer:no-stack", nsr.span, nsr.id, "")


def rule_b(ctx):
    F = ctx.facts
    acc = field_accesses(F, TEXTR, "links")
    n = 0
    for (b, bb, where, pl, access) in acc:
        key = "%s:%s" % (fn_key(b), access)
        s = site(b, bb, where)
        derived = b.raw.get("from_expansion") and (
            b.raw.get("implements", "").endswith("Clone::clone") or b.raw.get("implements", "").endswith("Debug::fmt"))
        if derived:
            ctx.ok("C08-B", key, s, b.id, "derived impl", how="auto")
            continue
        n += 1
        if access in ("ref", "refmut"):
            st = b.stmts(bb)[where[1]]
            cons = consumer_of_ref(b, bb, where, st["lhs"]["l"])
            if cons is None:
                ctx.violation("C08-B", key, s, b.id, "reference to the link list escapes (no consuming call found)")
                continue
            _bb2, t, _ai = cons
            cd = callee_def(t)
            if access == "refmut":
                okc = ends(b.id, "TextRenderer::<D>::start_link") and ends(cd, "Vec::<T, A>::push")
                if okc:
                    # the pushed value derives from the `target` parameter
                    at = b.atoms(t["args"][1])
                    okc = ("arg", 2) in at
                    ctx.check(okc, "C08-B", key + ":push(target)", s, b.id,
                              "pushed value must derive from the link target parameter; atoms=%s" % sorted(map(str, at))[:8])
                else:
                    ctx.violation("C08-B", key + ":" + str(cd), s, b.id,
                                  "mutable access to the link list other than push in start_link: %s" % cd)
            else:
                okc = ends(b.id, "TextRenderer::<D>::end_link") and ends(cd, "Vec::<T, A>::len")
                ctx.check(okc, "C08-B", key + ":" + str(cd).split("::")[-1], s, b.id,
                          "shared access to the link list must be len() in end_link; found %s" % cd)
        elif access == "move":
            ctx.check(ends(b.id, "TextRenderer::<D>::into_inner"), "C08-B", key, s, b.id,
                      "link list moved out somewhere other than into_inner")
        elif access == "drop":
            ctx.check(ends(b.id, "TextRenderer::<D>::into_inner"), "C08-B", key, s, b.id,
                      "link list dropped (reset) outside into_inner's unwinding bookkeeping")
        else:
            ctx.violation("C08-B", key, s, b.id, "unexpected %s access to the link list" % access)
    ctx.floor("C08-B", "accesses to TextRenderer.links", n, 3)


def rule_c(ctx):
    F = ctx.facts
    b = F.one("TextRenderer::<D>::end_link")
    adds = b.calls(lambda cd, t: ends(cd, RTRAIT + "add_inline_text"))
    ctx.floor("C08-C", "add_inline_text in end_link", len(adds), 1)
    inner = b.calls(lambda cd, t: ends(cd, RTRAIT + "end_link"))
    require(len(inner) == 1, "TextRenderer::end_link must call SubRenderer::end_link exactly once")
    ibb = inner[0][0]
    for bb, t in adds:
        s = t["span"]
        at = b.atoms(t["args"][1])
        dep = ("call", "std::vec::Vec::<T, A>::len") in at and any(
            a[0] == "field" and a[2] == "links" for a in at)
        ctx.check(dep, "C08-C", "ref-text-from-links.len", s, b.id,
                  "reference text must be formatted from links.len()")
        from .. import strfmt
        sh = strfmt.shape(b, t["args"][1])
        okc = len(sh) == 3 and sh[0] == ("lit", "[") and sh[2] == ("lit", "]") and sh[1][0] == "val" and sh[1][2] and \
            "len(" in sh[1][1] and "links" in sh[1][1] and "+" not in sh[1][1] and "-" not in sh[1][1]
        ctx.check(okc, "C08-C", "ref-text=[links.len()]", s, b.id,
                  "the reference must read '[' links.len() ']' with default formatting; decoded shape: %s" % (sh,))
        ctx.check(dominated_by_true_edge(b, bb, "RenderOptions", "include_link_footnotes", True),
                  "C08-C", "ref-under-option", s, b.id,
                  "reference emission must be reachable only through the true edge of include_link_footnotes")
        # ... and on nothing else: every link that was counted gets its reference
        others = []
        for (a, s2) in b.cdeps_transitive(bb):
            truth, src = edge_is_true(b, a, s2)
            if src and src_field(src) and src_field(src)[1] == "include_link_footnotes":
                continue
            if src and src[0] == "discr":
                continue  # `?` plumbing
            others.append(b.term(a)["span"])
        ctx.check(not others, "C08-C", "ref-under-option-only", s, b.id,
                  "the [k] reference is written under a further condition (%s): a link that was counted (its target is in the "
                  "footnote list) can be left without its reference" % others[:2])
        ctx.check(b.dominates(ibb, bb) and ibb != bb, "C08-C", "ref-after-inner-end_link", s, b.id,
                  "reference must be emitted after the sub-renderer's end_link (closing decoration)")
    # start_link: push happens and the inner start_link is called
    sl = F.one("TextRenderer::<D>::start_link")
    inner_s = sl.calls(lambda cd, t: ends(cd, RTRAIT + "start_link"))
    pushes = sl.calls(lambda cd, t: ends(cd, "Vec::<T, A>::push"))
    ctx.check(len(inner_s) == 1 and len(pushes) == 1, "C08-C", "start_link:one-push-one-start", sl.span, sl.id,
              "start_link must push exactly once and start the link exactly once (pushes=%d, starts=%d)"
              % (len(pushes), len(inner_s)))
    if pushes:
        pbb = pushes[0][0]
        # push on every path to a normal return: cutting the push block disconnects entry from returns
        rets = [r for r in b.reachable() if False]
        reach = sl.reach_from(0, avoid=[pbb])
        leak = [r for r in reach if sl.term(r)["k"] == "return"]
        ctx.check(not leak, "C08-C", "start_link:push-on-every-path", sl.span, sl.id,
                  "a path reaches return without recording the link target")


def rule_d(ctx):
    F = ctx.facts
    drn = F.one("do_render_node")
    bodies = [drn] + [cb for _bb, cb in transitive_closures(F, drn)]
    n_start = n_end = 0
    for b in bodies:
        for bb, t in b.calls():
            m = callee_method(t)
            cd = callee_def(t)
            if m == "start_link":
                n_start += 1
                ctx.check(ends(cd, "TextRenderer::<D>::start_link"), "C08-D", "walk:start_link", t["span"], b.id,
                          "Link arm must call the counting wrapper; resolves to %s" % cd)
            elif m == "end_link":
                n_end += 1
                ctx.check(ends(cd, "TextRenderer::<D>::end_link"), "C08-D", "walk:end_link", t["span"], b.id,
                          "Link reducer must call the counting wrapper; resolves to %s" % cd)
    ctx.floor("C08-D", "start_link calls in the tree walk", n_start, 1)
    ctx.floor("C08-D", "end_link calls in the tree walk", n_end, 1)
    for m in ("start_link", "end_link"):
        tgt = F.one(RTRAIT + m)
        callers = F.callers_of(tgt.id)
        want = [F.one("TextRenderer::<D>::" + m).id]
        ctx.check(callers == want, "C08-D", "trait-%s:only-from-wrapper" % m, tgt.span, tgt.id,
                  "callers of SubRenderer's %s: %s" % (m, callers))
        # and also no unresolved trait-level call `Renderer::start_link`
        unres = F.call_sites(lambda cd, t: (t.get("callee") or {}).get("resolved") is None
                             and (t.get("callee") or {}).get("def") == "render::Renderer::" + m)
        ctx.check(not unres, "C08-D", "trait-%s:no-generic-call" % m, "", "",
                  "unresolved Renderer::%s calls: %s" % (m, [(b.id, t["span"]) for b, _, t in unres]))
    # all callers of the wrappers are inside the tree walk
    for m in ("start_link", "end_link"):
        w = F.one("TextRenderer::<D>::" + m)
        callers = F.callers_of(w.id)
        okc = all(c == drn.id or (F.bodies[c].kind == "Closure" and F.bodies[c].root == drn.id) for c in callers)
        ctx.check(okc and callers, "C08-D", "wrapper-%s:callers" % m, w.span, w.id, "callers: %s" % callers)


def rule_e(ctx):
    F = ctx.facts
    rts = F.one("render_tree_to_string")
    fin = F.one("SubRenderer::<D>::finalise")
    fmt = F.one("SubRenderer::<D>::fmt_links")
    for tgt in (fin, fmt):
        callers = F.callers_of(tgt.id)
        ctx.check(callers == [rts.id], "C08-E", "%s:callers" % tgt.name, tgt.span, tgt.id,
                  "must be called only from render_tree_to_string; callers: %s" % callers)
    tmr = rts.calls(lambda cd, t: ends(cd, "tree_map_reduce"))
    require(len(tmr) == 2, "render_tree_to_string must have two tree_map_reduce phases (found %d)" % len(tmr))
    # phase 2 is the one fed with a TextRenderer
    phase2 = [bb for bb, t in tmr if "TextRenderer" in (op_place(t["args"][0]) or {}).get("ty", "")]
    require(len(phase2) == 1, "cannot identify the rendering walk in render_tree_to_string")
    for tgt, nm in ((fin, "finalise"), (fmt, "fmt_links")):
        cs = rts.calls(lambda cd, t: cd == tgt.id)
        ctx.check(len(cs) == 1, "C08-E", "%s:once" % nm, rts.span, rts.id, "%d call(s)" % len(cs))
        for bb, t in cs:
            ctx.check(rts.dominates(phase2[0], bb), "C08-E", "%s:after-render" % nm, t["span"], rts.id,
                      "must be dominated by the rendering walk")
            # not inside a loop
            inloop = bb in rts.reach_from(rts.succ(bb)[0]) if rts.succ(bb) else False
            ctx.check(not inloop, "C08-E", "%s:not-in-loop" % nm, t["span"], rts.id, "")
    # finalise's argument is the links returned by into_inner
    cs = rts.calls(lambda cd, t: cd == fin.id)
    if cs:
        at = rts.atoms(cs[0][1]["args"][1])
        ctx.check(any(a[0] == "call" and ends(a[1], "TextRenderer::<D>::into_inner") for a in at), "C08-E",
                  "finalise:arg-from-into_inner", cs[0][1]["span"], rts.id, "")
    # decorator.finalise callers
    dec = F.call_sites(lambda cd, t: ends(cd, "TextDecorator::finalise"))
    bad = [(b.id, t["span"]) for b, _, t in dec if b.id != fin.id]
    ctx.check(not bad, "C08-E", "decorator.finalise:only-from-SubRenderer::finalise", "", "", "other callers: %s" % bad)
    ctx.floor("C08-E", "decorator.finalise call sites", len(dec), 1)
    modes = set()
    covered_by_data = False
    for b, bb, t in dec:
        if b.id != fin.id:
            continue
        on_true = dominated_by_true_edge(b, bb, "RenderOptions", "include_link_footnotes", True)
        on_false = dominated_by_true_edge(b, bb, "RenderOptions", "include_link_footnotes", False)
        at = b.atoms(t["args"][1])
        if on_true:
            modes.add("on")
            ctx.check(("arg", 2) in at, "C08-E", "finalise:on→links", t["span"], b.id,
                      "with footnotes on the decorator must receive the collected links")
        elif on_false:
            modes.add("off")
            ctx.check(("call", "std::vec::Vec::<T>::new") in at and ("arg", 2) not in at, "C08-E",
                      "finalise:off→empty", t["span"], b.id,
                      "with footnotes off the decorator must receive an empty list")
        else:
            # data form: one call whose argument was chosen under the option — `let urls = if on { links } else { vec![] }`
            pl = direct_place(b, t["args"][1])
            got = {}
            if pl is not None and is_bare(pl):
                for r in b.defs()[pl["l"]]:
                    if r[0] == "mutcall" or r[1] not in b.reachable():
                        continue
                    d_true = dominated_by_true_edge(b, r[1], "RenderOptions", "include_link_footnotes", True)
                    d_false = dominated_by_true_edge(b, r[1], "RenderOptions", "include_link_footnotes", False)
                    if r[0] == "stmt" and "use" in r[3]["rv"]:
                        a2 = b.atoms(r[3]["rv"]["use"])
                        got["on" if d_true else ("off" if d_false else "?")] = "links" if ("arg", 2) in a2 else "other"
                    elif r[0] == "call":
                        got["on" if d_true else ("off" if d_false else "?")] = "empty" if ends(callee_def(r[2]), "Vec::<T>::new") else "other"
                    else:
                        got["?"] = "other"
            ctx.check(got == {"on": "links", "off": "empty"}, "C08-E", "finalise:on→links/off→empty(data)", t["span"], b.id,
                      "decorator.finalise must receive the collected links exactly when include_link_footnotes is on, an empty "
                      "list otherwise; found %s" % got)
            covered_by_data = True
    ctx.check(covered_by_data or modes == {"on", "off"}, "C08-E", "finalise:both-settings-reach-the-decorator", fin.span, fin.id,
              "decorator.finalise must be called whether or not footnotes are included (found %s)" % sorted(modes))


LIST_MUTATORS = ("dedup", "dedup_by", "dedup_by_key", "sort", "sort_by", "sort_by_key", "sort_unstable", "retain", "retain_mut", "truncate", "remove",
                 "swap_remove", "pop", "reverse", "drain", "swap", "insert", "split_off", "clear", "rotate_left", "rotate_right")


def rule_e2(ctx):
    """between collection and the decorator's finalise the list of targets is handed on as it is: the [k] references are
    already in the text, so any removal or reordering afterwards breaks the correspondence"""
    F = ctx.facts
    n = 0
    for fn in ("SubRenderer::<D>::finalise", "render_tree_to_string", "TextRenderer::<D>::into_inner"):
        b = F.one(fn)
        for x in [b] + [c for _b, c in transitive_closures(F, b)]:
            for bb, t in x.calls(lambda cd, t: callee_method(t) in LIST_MUTATORS):
                tys = " ".join([(t.get("callee") or {}).get("self_ty", "")] + ((t.get("callee") or {}).get("targs") or []))
                if "String" not in tys:
                    continue
                n += 1
                ctx.violation("C08-E", "links:%s@%s" % (callee_method(t), fn_key(x)), t["span"], x.id,
                              "%s() on the list of link targets after the references were written: entry k is no longer the target "
                              "of the k-th link" % callee_method(t))
    if not n:
        ctx.ok("C08-E", "links:handed-on-unmodified", "", "", "no removal/reordering of the target list in finalise / render_tree_to_string / into_inner", how="auto")


def rule_f(ctx):
    F = ctx.facts
    fin = F.one("render::text_renderer::TextDecorator::finalise")
    # the line is built either in the closure of `enumerate().map(..)` or in the body of a `for (idx, s) in .. enumerate()` loop
    bodies_ = [fin] + [cb2 for _bb, _i, cb2, _o, _f in closure_bodies_created_in(F, fin)]
    cands = [b2 for b2 in bodies_ if b2.calls(lambda cd, t: ends(cd, "TaggedLine::<T>::from_string"))]
    require(len(cands) == 1, "default finalise must build its lines in one place")
    cb = cands[0]
    fs = cb.calls(lambda cd, t: ends(cd, "TaggedLine::<T>::from_string"))
    require(len(fs) == 1, "default finalise must build one TaggedLine::from_string per entry")
    t = fs[0][1]
    nd = cb.calls(lambda cd, t: ends(cd, "Argument::<'_>::new_display"))
    ctx.floor("C08-F", "format arguments of the default footnote line", len(nd), 2)
    saw_idx = saw_url = False
    for bb, a in nd:
        at = cb.atoms(a["args"][0])
        if any(x[0] == "bin" and x[1].startswith("Add") for x in at) and ("int", 1) in at:
            saw_idx = True
        elif not any(x[0] == "bin" for x in at):
            saw_url = True
    ctx.check(saw_idx, "C08-F", "label=index+1", t["span"], cb.id, "footnote label must be enumerate index + 1")
    ctx.check(saw_url, "C08-F", "text=url", t["span"], cb.id, "footnote text must be the url itself")
    # the entry's text, decoded from the format template(s): "[" label "]: " url, label and url printed plainly
    from .. import strfmt
    sh = strfmt.shape(cb, t["args"][0])
    okc = len(sh) == 4 and sh[0] == ("lit", "[") and sh[2] == ("lit", "]: ") and \
        sh[1][0] == "val" and sh[1][2] and "+ 1_usize" in sh[1][1] and sh[3][0] == "val" and sh[3][2] and "+" not in sh[3][1]
    ctx.check(okc, "C08-F", "entry-text=[label]: url", t["span"], cb.id,
              "the footnote entry must read '[' k ']: ' target with k and the target printed as they are (no padding, "
              "width or other format options); decoded shape: %s" % (sh,))
    en = fin.calls(lambda cd, t: ends(cd, "Iterator::enumerate"))
    rev = fin.calls(lambda cd, t: callee_method(t) in ("rev", "skip", "step_by", "filter", "take"))
    ctx.check(len(en) == 1 and not rev, "C08-F", "enumerate-in-order", fin.span, fin.id,
              "urls must be enumerated in the given order, all of them")


def rule_g(ctx):
    F = ctx.facts
    pdn = F.one("process_dom_node")
    found = 0
    for _bb, cb in transitive_closures(F, pdn):
        for bb in cb.reachable():
            for st in cb.stmts(bb):
                rv = st.get("rv") or {}
                if rv.get("agg") == "adt" and rv.get("variant") == "Link" and ends(rv.get("adt"), "RenderNodeInfo"):
                    found += 1
                    # control dependent on the result of Iterator::any
                    okc = False
                    cut = edges_where(cb, lambda truth, src, a, s: truth is True and src and src[0] == "call"
                                      and callee_method(src[1]) == "any")
                    if unreachable_without_edges(cb, bb, cut):
                        # the predicate closure negates is_shallow_empty
                        preds = [c for _b, _i, c, _o, _f in closure_bodies_created_in(F, cb)]
                        for pc in preds:
                            neg, psrc = pc.trace_value({"c": {"l": 0, "p": []}})
                            if psrc[0] == "call" and ends(callee_def(psrc[1]), "RenderNode::is_shallow_empty") and neg:
                                okc = True
                    ctx.check(okc, "C08-G", "Link-node-only-if-some-child-not-shallow-empty", st["span"], fn_key(cb),
                              "Link construction must be guarded by any(|c| !c.is_shallow_empty())")
                    # ... and by nothing else: a link with rendered content always becomes a Link node (it is the Link node that
                    # gets the reference and the footnote), and its children do not leave the reducer in any other node
                    others = []
                    for (a, s2) in cb.cdeps_transitive(bb):
                        truth, src = edge_is_true(cb, a, s2)
                        if src and src[0] == "call" and callee_method(src[1]) == "any":
                            continue
                        if src and src[0] == "discr":
                            continue  # Option/Result plumbing
                        others.append(cb.term(a)["span"])
                    ctx.check(not others, "C08-G", "Link-node-whenever-some-child-not-shallow-empty", st["span"], fn_key(cb),
                              "the Link construction depends on a further condition (%s): a link with visible content can end up "
                              "without a Link node, i.e. without its [k] reference and footnote entry" % others[:2])
                    wraps = [st2["span"] for x in cb.reachable() for st2 in cb.stmts(x)
                             if (st2.get("rv") or {}).get("agg") == "adt" and ends((st2.get("rv") or {}).get("adt"), "RenderNodeInfo")
                             and (st2.get("rv") or {}).get("variant") != "Link"]
                    ctx.check(not wraps, "C08-G", "link-reducer-builds-only-Link", st["span"], fn_key(cb),
                              "the reducer of an <a href> also builds another node kind from the link's children (%s)" % wraps[:2])
    ctx.floor("C08-G", "Link node constructions", found, 1)
    # what "shallow empty" means for text: white-space-only text (and alt text) is empty
    ise = F.one("RenderNode::is_shallow_empty")
    info = F.adt("RenderNodeInfo")
    names = {v["discr"]: v["name"] for v in info["variants"]}
    from ..util import find_dispatch
    disp = find_dispatch(ise, "RenderNodeInfo", 10)
    for vn in ("Text", "Img"):
        tb = [tb for v, tb in ise.term(disp)["targets"] if names[v] == vn]
        okc = False
        if tb:
            region = ise.reach_from(tb[0])
            trims = [x for x in region if ise.term(x)["k"] == "call" and callee_method(ise.term(x)) == "trim"]
            for x in trims:
                # the result is decided on the trimmed string: len()==0 or is_empty() of it
                for y in ise.reach_from(x):
                    ty = ise.term(y)
                    if ty["k"] == "call" and callee_method(ty) in ("len", "is_empty") and \
                            any(a[0] == "call" and a[1] and a[1].endswith("::trim") for a in ise.atoms(ty["args"][0], through_calls=False) | ise.atoms(ty["args"][0])):
                        okc = True
        ctx.check(okc, "C08-G", "shallow-empty:%s-is-whitespace-insensitive" % vn, ise.term(tb[0])["span"] if tb else ise.span, ise.id,
                  "a link whose only content is white space must count as empty (is_shallow_empty must test the trimmed text)")


LINK_READERS = {
    "do_render_node": "the Link arm (checked: inside the arm's region)",
    "RenderNode::calc_size_estimate": "size estimate",
    "precalc_size_estimate": "schedules the children for estimation",
    "RenderNode::is_shallow_empty": "emptiness test used by the link reducer (C08-G)",
    "RenderNode::write_self": "debug dump of the render tree",
}


def rule_h(ctx):
    """Footnote numbers are allocated by start_link/end_link, reached only from the Link arm of do_render_node.  Any
    other code on the render route that destructures a Link (e.g. a shortcut that prints a link's text directly)
    would show the link without a number and shift every later one."""
    F = ctx.facts
    info = F.adt("RenderNodeInfo")
    lv = [v["discr"] for v in info["variants"] if v["name"] == "Link"][0]
    drn = F.one("do_render_node")
    disp = find_dispatch(drn, "RenderNodeInfo", 10)
    tb = [x for v, x in drn.term(disp)["targets"] if v == lv]
    require(len(tb) == 1, "Link arm of do_render_node")
    region = drn.reach_from(tb[0], avoid=[disp])
    n = 0
    for b in F.bodies.values():
        if b.raw.get("from_expansion") and b.kind != "Closure":
            continue  # derived Clone / Debug / PartialEq
        hits = [(bb, where) for (bb, where, pl, acc) in b.all_places()
                if any(isinstance(e, dict) and e.get("dc") == "Link" for e in pl["p"]) and "RenderNodeInfo" in str(b.locals[pl["l"]].get("ty", "")) + " ".join(
                    str(e.get("o", "")) + str(e.get("ty", "")) for e in pl["p"] if isinstance(e, dict))]
        if not hits:
            continue
        k = fn_key(b)
        n += 1
        if k not in LINK_READERS:
            ctx.violation("C08-H", "Link-destructured@%s" % k, site(b, hits[0][0], hits[0][1]), b.id,
                          "this code takes a Link node apart outside the Link arm of the render walk: its text could be shown "
                          "without going through start_link/end_link (no footnote number, later numbers shift)")
            continue
        if k == "do_render_node":
            outside = [h for h in hits if h[0] not in region and h[0] != disp]
            ctx.check(not outside, "C08-H", "Link-destructured@do_render_node:only-in-Link-arm",
                      site(b, outside[0][0], outside[0][1]) if outside else b.span, b.id, "")
        else:
            ctx.ok("C08-H", "Link-destructured@%s" % k, b.span, b.id, LINK_READERS[k], how="table")
    ctx.floor("C08-H", "functions that destructure a Link node", n, 4)
    sl = drn.calls(lambda cd, t: ends(cd, "TextRenderer::<D>::start_link"))
    ctx.check(len(sl) == 1 and sl[0][0] in region, "C08-H", "Link-arm:calls-start_link", drn.term(tb[0])["span"], drn.id, "")
