"""C18 — display:none hides exactly the matched subtrees (two structural clauses)."""
from ..facts import AnchorMissing, callee_def, op_place, op_const, is_bare
from ..util import (ends, site, fn_key, callee_method, require, has_call, has_field, find_dispatch, direct_place,
                    transitive_closures, closure_bodies_created_in, edge_is_true, src_field, edges_where,
                    unreachable_without_edges, direct_field)
from .. import options

EXPLANATION = (
    "Static decision of two clauses. (A) hidden means nothing is built: in process_dom_node's element "
    "branch the test of the computed `display` value dominates every render-node construction, every "
    "reducer-closure construction, every *_to_render_tree/pending call and the fragment-marker code, "
    "and its 'hidden' edge returns Nothing without building anything; styles_from_properties yields "
    "Display::None for `display:none` and for the (zero height AND hidden overflow) pair only. "
    "(B) document styles are inert unless enabled: every source of author styles (style elements, "
    "style/color/bgcolor attributes) is reachable only through the true edge of use_doc_css, the flag "
    "has a single writer (the builder), and without the css feature these calls do not exist.")
NOT_DECIDED = ("'rendered exactly as if the subtree had been deleted' (a relation between two documents); which "
               "elements a selector matches (C20)")
ASSUMPTIONS = []

CONFIGS_QUICK = ["default", "css"]


def check(ctx):
    ctx.rule("C18-A", "the display test dominates every node/closure construction of an element and its hidden edge "
             "builds nothing; Display::None arises only from display:none and height:0+overflow:hidden")
    ctx.rule("C18-B", "every source of document styles is governed by use_doc_css, whose only writer is the builder")
    ctx.guard("C18-A", rule_a)
    ctx.guard("C18-B", rule_b)
    ctx.rule("C18-C", "document style sheets are collected from the whole document: the extraction walk descends into every "
             "element and treats only <style> specially (a sheet in the body counts like one in the head)")
    ctx.guard("C18-C", rule_c)
    ctx.rule("C18-D", "declarations of a ::before / ::after rule never land on the element itself: the element's own computed "
             "style is the merge target exactly when the rule has no pseudo-element")
    ctx.guard("C18-D", rule_d)
    ctx.rule("C18-E", "every extracted <style> element is parsed on its own: dom_to_stylesheet hands add_author_css one element of "
             "the extracted list per call (the parser keeps what it read before the first statement it cannot parse, so a "
             "joined text would let one sheet's unreadable statement discard every later sheet)")
    ctx.guard("C18-E", rule_e)


BUILDERS = ("RenderNode::new", "RenderNode::new_styled", "pending", "pending_noempty", "table_to_render_tree",
            "tbody_to_render_tree", "tr_to_render_tree", "td_to_render_tree", "insert_child")


def rule_a(ctx):
    F = ctx.facts
    pdn = F.one("process_dom_node")
    css = any(f["name"] == "display" for f in F.adt("ComputedStyle")["variants"][0]["fields"])
    if not css:
        # no css feature: Display does not exist; nothing to hide
        disp_reads = [b.id for b in F.bodies.values() for (_bb, _w, pl, _a) in b.all_places()
                      if any(isinstance(e, dict) and e.get("n") == "display" and ends(e.get("o"), "ComputedStyle") for e in pl["p"])]
        ctx.check(not disp_reads, "C18-A", "default-config:no-display", pdn.span, pdn.id, "display consulted in %s" % disp_reads)
        return
    # the display decision: switch on discriminant of WithSpec::val(&computed.display)
    dsw = None
    for a in sorted(pdn.reachable()):
        t = pdn.term(a)
        if t["k"] != "switch":
            continue
        neg, src = pdn.switch_source(a)
        if src[0] == "discr":
            at = pdn.atoms(src[1])
            if has_call(at, "WithSpec::<T>::val") and has_field(at, "ComputedStyle", "display"):
                if dsw is None or pdn.dominates(a, dsw):
                    dsw = a
    require(dsw is not None, "cannot find the display test in process_dom_node")
    t = pdn.term(dsw)
    some = [tb for v, tb in t["targets"] if v == 1]
    require(len(some) == 1, "display test must have a Some edge")
    hidden_entry = some[0]
    visible_entry = t["otherwise"]
    # hidden region: blocks reachable from hidden_entry without passing visible code (css_ext may add a nested match)
    hidden_region = pdn.reach_from(hidden_entry, avoid=[visible_entry])
    visible_region = pdn.reach_from(visible_entry)
    only_hidden = hidden_region - visible_region
    built = []
    for x in only_hidden:
        for st in pdn.stmts(x):
            rv = st.get("rv") or {}
            if rv.get("agg") == "closure":
                built.append("closure@%s" % st["span"])
        tt = pdn.term(x)
        if tt["k"] == "call" and any(ends(callee_def(tt), bn) for bn in BUILDERS):
            built.append("%s@%s" % (callee_method(tt) or callee_def(tt), tt["span"]))
    ext = ctx.config == "css_ext"
    if ext:
        # css_ext: the ExtRawDom variant legitimately builds a text block; Display::None arm must still be empty.
        dsw2 = [a for a in only_hidden if pdn.term(a)["k"] == "switch"]
        okc = False
        for a in dsw2:
            neg, src = pdn.switch_source(a)
            if src[0] == "discr" and src[1]["ty"].endswith("css::Display"):
                dn = [v["discr"] for v in F.adt("css::Display")["variants"] if v["name"] == "None"][0]
                tb = [tb for v, tb in pdn.term(a)["targets"] if v == dn]
                if tb:
                    reg = pdn.reach_from(tb[0]) - visible_region
                    okc = not any(pdn.term(x)["k"] == "call" and any(ends(callee_def(pdn.term(x)), bn) for bn in BUILDERS) for x in reg)
        ctx.check(okc, "C18-A", "hidden-edge-builds-nothing", pdn.term(hidden_entry)["span"], pdn.id, "css_ext: Display::None arm")
    else:
        ctx.check(not built, "C18-A", "hidden-edge-builds-nothing", pdn.term(hidden_entry)["span"], pdn.id,
                  "on the display:none edge the element must contribute nothing; found %s" % built[:4])
    # returns Nothing
    noth = any(st.get("rv", {}).get("variant") == "Nothing" and ends(st["rv"].get("adt"), "TreeMapResult")
               for x in only_hidden for st in pdn.stmts(x))
    ctx.check(noth, "C18-A", "hidden-edge-returns-Nothing", pdn.term(hidden_entry)["span"], pdn.id, "")
    # dominance: all building sites of the element branch lie in the visible region, dominated by the test
    elem_disp = find_dispatch(pdn, "NodeData", 3)
    nd = F.adt("NodeData")
    ev = [v["discr"] for v in nd["variants"] if v["name"] == "Element"][0]
    etb = [tb for v, tb in pdn.term(elem_disp)["targets"] if v == ev]
    require(len(etb) == 1, "Element arm of process_dom_node")
    elem_region = [x for x in pdn.reachable() if pdn.dominates(etb[0], x)]
    n = 0
    for x in elem_region:
        sites = []
        for st in pdn.stmts(x):
            rv = st.get("rv") or {}
            if rv.get("agg") == "closure":
                sites.append(("closure", st["span"]))
        tt = pdn.term(x)
        if tt["k"] == "call" and any(ends(callee_def(tt), bn) for bn in BUILDERS):
            sites.append((callee_method(tt) or "call", tt["span"]))
        for kind, sp in sites:
            if ext and x in only_hidden:
                continue
            n += 1
            ctx.check(pdn.dominates(visible_entry, x) and x not in only_hidden, "C18-A",
                      "dominated-by-display-test#%d" % n, sp, pdn.id,
                      "%s is reachable without passing the display test" % kind)
    ctx.floor("C18-A", "node/closure construction sites in the element branch", n, 30)
    # computed style is this element's
    cs = pdn.calls(lambda cd, t: ends(cd, "StyleData::computed_style"))
    ctx.check(len(cs) == 1 and pdn.dominates(cs[0][0], dsw), "C18-A", "display-of-this-element", pdn.span, pdn.id, "")
    # styles_from_properties: where Display::None comes from
    sfp = F.one("css::styles_from_properties")
    sites = []
    for bb in sorted(sfp.reachable()):
        for st in sfp.stmts(bb):
            rv = st.get("rv") or {}
            if rv.get("agg") == "adt" and rv.get("variant") == "Display" and ends(rv.get("adt"), "css::Style"):
                at = sfp.atoms(rv["ops"][0])
                if ("agg", "css::Display", "None") in at:
                    sites.append((bb, st))
    ctx.floor("C18-A", "Display::None style constructions", len(sites), 2)
    pdisp = find_dispatch(sfp, "css::parser::Decl", 3)
    kinds = set()
    for bb, st in sites:
        if sfp.dominates(pdisp, bb) and any(sfp.dominates(tb, bb) for _v, tb in sfp.term(pdisp)["targets"]):
            # inside the per-declaration match: must be the Display{None} arm
            arm = [v for v, tb in sfp.term(pdisp)["targets"] if sfp.dominates(tb, bb)]
            names = {v["discr"]: v["name"] for v in F.adt("css::parser::Decl")["variants"]}
            okc = [names.get(a) for a in arm] == ["Display"]
            # and under parser::Display::None
            inner = [a for (a, s) in sfp.cdeps_transitive(bb) if sfp.switch_source(a)[1][0] == "discr" and
                     sfp.switch_source(a)[1][1]["ty"].endswith("css::parser::Display")]
            okc = okc and bool(inner)
            kinds.add("decl")
            ctx.check(okc, "C18-A", "Display::None←display:none", st["span"], sfp.id, "arm %s" % [names.get(a) for a in arm])
        else:
            # after the loop: needs both flags
            # governed by bool flags (true edges); each flag is set true only inside arms of the declaration match:
            # one flag in the (Max)Height arms, another in the Overflow(Y) arms
            dnames = {v["discr"]: v["name"] for v in F.adt("css::parser::Decl")["variants"]}
            flags = set()
            for (a, s) in sfp.cdeps_transitive(bb):
                truth, src = edge_is_true(sfp, a, s)
                if truth is True and src and src[0] == "place" and is_bare(src[1]) and sfp.local_ty(src[1]["l"]) == "bool":
                    flags.add(src[1]["l"])
            govs = set()
            for fl in sorted(flags):
                cut = edges_where(sfp, lambda truth, src, a, s, fl=fl: truth is True and src and src[0] == "place" and
                                  is_bare(src[1]) and src[1]["l"] == fl)
                if not unreachable_without_edges(sfp, bb, cut):
                    continue  # not a necessary condition (e.g. one side of an `||`)
                arms = set()
                for r in sfp.defs()[fl]:
                    if r[0] == "stmt" and (op_const((r[3].get("rv") or {}).get("use") or {}) or {}).get("v") == "true":
                        arms |= {dnames.get(v) for v, tb in sfp.term(pdisp)["targets"] if r[1] in sfp.reach_from(tb, avoid=[pdisp])}
                if arms and arms <= {"Height", "MaxHeight"}:
                    govs.add("height_zero")
                    # zero height means a length whose *number* is 0, in any unit: between the declaration match and
                    # the store only the Height variant test and `number == 0.0` may decide
                    for r in sfp.defs()[fl]:
                        if not (r[0] == "stmt" and (op_const((r[3].get("rv") or {}).get("use") or {}) or {}).get("v") == "true"):
                            continue
                        conds = []
                        for (a, s) in sfp.cdeps_transitive(r[1]):
                            if a == pdisp or not sfp.dominates(pdisp, a) or a not in sfp.reach_from(pdisp, avoid=[]) :
                                continue
                            if not any(a in sfp.reach_from(tb, avoid=[pdisp]) for _v, tb in sfp.term(pdisp)["targets"]):
                                continue
                            truth, src = edge_is_true(sfp, a, s)
                            if src and src[0] == "discr":
                                conds.append("variant-test")
                            elif src and src[0] == "bin" and src[1]["bin"] in ("Eq", "Ne"):
                                ks = [op_const(src[1]["a"]), op_const(src[1]["b"])]
                                other = src[1]["b"] if ks[0] is not None else src[1]["a"]
                                zero = any(k is not None and k.get("int") == 0 and str(k.get("ty", "")).startswith("f") for k in ks)
                                pl0 = direct_place(sfp, other)
                                fl_ = [e for e in (pl0["p"] if pl0 else []) if isinstance(e, dict) and "f" in e]
                                num = bool(fl_) and fl_[-1]["f"] == 0 and str(fl_[-1].get("o", "")).endswith("Height::Length")
                                conds.append("number==0" if (zero and num) else "other-comparison")
                            elif src and src[0] == "call":
                                conds.append("call:%s" % callee_method(src[1]))
                            elif src and src[0] == "place":
                                conds.append("flag")
                            else:
                                conds.append("other")
                        ctx.check("number==0" in conds and all(c in ("variant-test", "number==0") for c in conds), "C18-A",
                                  "height-zero:decided-by-number-only", r[3]["span"], sfp.id,
                                  "height:0 must be recognised from the length's number alone (any unit); the store is governed by %s" % sorted(set(conds)))
                elif arms and arms <= {"Overflow", "OverflowY"}:
                    govs.add("overflow_hidden")
                else:
                    govs.add("?%s" % sorted(map(str, arms)))
            kinds.add("idiom")
            ctx.check({"height_zero", "overflow_hidden"} == govs, "C18-A", "Display::None←height0+overflow-hidden", st["span"], sfp.id,
                      "governed by %s" % sorted(map(str, govs)))
    ctx.check(kinds == {"decl", "idiom"}, "C18-A", "Display::None:both-sources-and-only-those", sfp.span, sfp.id, str(sorted(kinds)))


def rule_b(ctx):
    F = ctx.facts
    css = any(f["name"] == "use_doc_css" for f in F.adt("HtmlContext")["variants"][0]["fields"])
    sources = ("dom_to_stylesheet", "parse_style_attribute", "parse_color_attribute", "add_author_css")
    if not css:
        found = [(b.id, callee_def(t)) for (b, bb, t) in F.call_sites(lambda cd, t: any(ends(cd, s) for s in sources))]
        ctx.check(not found, "C18-B", "default-config:no-document-style-sources", "", "", "found %s" % found)
        return
    n = 0
    for (b, bb, t) in F.call_sites(lambda cd, t: any(ends(cd, "css::dom_extract::" + s) or ends(cd, "css::parser::" + s)
                                                     or ends(cd, "css::StyleData::" + s) for s in sources)):
        m = callee_method(t) or callee_def(t).split("::")[-1]
        key = "%s@%s" % (m, fn_key(b))
        if ends(callee_def(t), "add_author_css"):
            ctx.check(ends(b.root if b.kind == "Closure" else b.id, "dom_extract::dom_to_stylesheet"), "C18-B", key, t["span"], b.id,
                      "author rules may only be added from the document's style elements")
            continue
        if ends(b.id, "dom_to_parsed_style"):
            ctx.ok("C18-B", key, t["span"], b.id, "debug API returning the parsed sheet as text; it renders nothing", how="table")
            continue
        n += 1
        # governed by the flag: a field read (context.use_doc_css) or the _use_doc_css parameter
        def pred(truth, src, a, s):
            if truth is not True or not src:
                return False
            if src_field(src) and src_field(src)[1] == "use_doc_css":
                return True
            if src[0] == "place" and is_bare(src[1]) and b.local_ty(src[1]["l"]) == "bool":
                # the use_doc_css *parameter*: a bool argument which every caller feeds from HtmlContext.use_doc_css
                ds = b.defs()[src[1]["l"]]
                if len(ds) == 1 and ds[0][0] == "arg":
                    ai = ds[0][1]
                    sites_ = F.call_sites(lambda cd, t2: cd == b.id)
                    return bool(sites_) and all(has_field(cb.atoms(t2["args"][ai - 1]), "HtmlContext", "use_doc_css") for (cb, _bb2, t2) in sites_)
            return False
        cut = edges_where(b, pred)
        ctx.check(unreachable_without_edges(b, bb, cut), "C18-B", key, t["span"], b.id,
                  "a source of document styles is reachable without use_doc_css being true")
    ctx.floor("C18-B", "gated document-style sources", n, 4)
    # the parameter of computed_style is fed from the context flag
    pdn = F.one("process_dom_node")
    cs = pdn.calls(lambda cd, t: ends(cd, "StyleData::computed_style"))
    if cs:
        at = pdn.atoms(cs[0][1]["args"][3])
        ctx.check(has_field(at, "HtmlContext", "use_doc_css") and not any(a[0] in ("bin", "un") for a in at), "C18-B",
                  "computed_style(use_doc_css=context.use_doc_css)", cs[0][1]["span"], pdn.id, "")
    # writers
    for owner in ("config::Config", "HtmlContext"):
        for (b, bb, where, acc) in options.writes(F, owner, "use_doc_css"):
            ctx.check(ends(b.id, "Config::<D>::use_doc_css"), "C18-B", "%s.use_doc_css:writer@%s" % (owner.split("::")[-1], fn_key(b)),
                      site(b, bb, where), b.id, "only the use_doc_css() builder may set the flag")
    lits = options.literal_inits(F, "config::Config")
    for b, st, ops in lits:
        if "use_doc_css" in ops:
            k = op_const(ops["use_doc_css"])
            same = direct_field(b, ops["use_doc_css"]) == ("config::Config", "use_doc_css")  # `Self { .., ..self }` keeps the value
            ctx.check((bool(k) and k.get("int") == 0) or same, "C18-B", "Config-literal:use_doc_css=false@%s" % fn_key(b), st["span"], b.id, "")
    for b, st, ops in options.literal_inits(F, "HtmlContext"):
        if "use_doc_css" in ops:
            ctx.check(direct_field(b, ops["use_doc_css"]) == ("config::Config", "use_doc_css"), "C18-B",
                      "HtmlContext-literal:use_doc_css←config@%s" % fn_key(b), st["span"], b.id, "")


def rule_c(ctx):
    F = ctx.facts
    if not any(f["name"] == "use_doc_css" for f in F.adt("HtmlContext")["variants"][0]["fields"]):
        ctx.info("C18-C", "no document style extraction in this configuration (css feature off)")
        return
    from .C03 import decode_atom
    b = F.one("css::dom_extract::extract_style_nodes")
    nd = F.adt("NodeData")
    ev = [v["discr"] for v in nd["variants"] if v["name"] == "Element"][0]
    disp = find_dispatch(b, "NodeData", 2)
    tb = [x for v, x in b.term(disp)["targets"] if v == ev]
    require(len(tb) == 1, "Element arm of extract_style_nodes")
    region = b.reach_from(tb[0], avoid=[disp])
    names = set()
    for a in sorted(region):
        t = b.term(a)
        if t["k"] != "switch":
            continue
        neg, src = b.switch_source(a)
        if src[0] == "bin" and src[1]["bin"] == "Eq":
            for side in ("a", "b"):
                ints = [x[1] for x in b.atoms(src[1][side], through_calls=False) if x[0] == "int"]
                other = b.atoms(src[1]["b" if side == "a" else "a"], through_calls=False)
                if ints and any(x[0] == "field" and x[2] == "local" for x in other):
                    names |= {decode_atom(i) or "?%d" % i for i in ints}
    ctx.check(names == {"style"}, "C18-C", "style-extraction:only-style-is-special", b.span, b.id,
              "element names tested by the style extraction walk: %s" % sorted(names))
    skipped = [st["span"] for x in region for st in b.stmts(x)
               if (st.get("rv") or {}).get("variant") == "Nothing" and ends((st.get("rv") or {}).get("adt"), "TreeMapResult")]
    ctx.check(not skipped, "C18-C", "style-extraction:no-element-skipped", skipped[0] if skipped else b.span, b.id,
              "an element arm of the extraction walk returns Nothing: style elements below such an element are never read")
    ctx.check(bool([1 for x in region if b.term(x)["k"] == "call" and ends(callee_def(b.term(x)), "pending")]), "C18-C",
              "style-extraction:descends-into-children", b.span, b.id, "")


def rule_e(ctx):
    F = ctx.facts
    if not ctx.has_css:
        ctx.info("C18-E", "no document style extraction in this configuration (css feature off)")
        return
    b = F.one("css::dom_extract::dom_to_stylesheet")
    bodies_ = [b] + [cb for _bb, _i, cb, _o, _f in closure_bodies_created_in(F, b)]
    calls = [(x, bb, t) for x in bodies_ for bb, t in x.calls(lambda cd, t: ends(cd, "StyleData::add_author_css"))]
    ctx.floor("C18-E", "add_author_css calls in dom_to_stylesheet", len(calls), 1)
    JOINERS = ("join", "concat", "collect", "fold", "push_str", "extend", "add", "add_assign", "format")
    for x, bb, t in calls:
        at = x.atoms(t["args"][1])
        joined = sorted({a[1].split("::")[-1] for a in at if a[0] == "call" and a[1] and a[1].split("::")[-1] in JOINERS})
        if x is b:
            per = any(a[0] == "call" and a[1] and a[1].endswith("::next") for a in at)
        else:
            # the body of `sheets.iter().for_each(|css| ..)`: the text is the closure's argument
            per = any(a[0] == "arg" and a[1] >= 2 for a in at)
        ctx.check(per and not joined, "C18-E", "dom_to_stylesheet:one-parse-per-style-element", t["span"], x.id,
                  "the text given to add_author_css is %s: parse_stylesheet stops at the first statement it cannot read, so "
                  "sheets must be parsed one by one for a later <style> element's display:none to survive an earlier "
                  "sheet's unsupported statement" % ("built by %s" % "/".join(joined) if joined else
                                                     "not an element yielded by iterating the extracted sheets"))


def rule_d(ctx):
    F = ctx.facts
    if not any(f["name"] == "use_doc_css" for f in F.adt("HtmlContext")["variants"][0]["fields"]):
        ctx.info("C18-D", "no stylesheet support in this configuration (css feature off)")
        return
    b = F.one("css::StyleData::merge_computed_style")
    mus = b.calls(lambda cd, t: callee_method(t) == "maybe_update")
    require(bool(mus), "merge_computed_style must call maybe_update")
    targets = set()
    for bb, t in mus:
        pl = direct_place(b, t["args"][0])
        if pl is not None:
            targets.add(pl["l"])
    if not ctx.check(len(targets) == 1, "C18-D", "merge:one-target-variable", b.span, b.id, "targets %s" % sorted(targets)):
        return
    T = targets.pop()
    n_self = 0
    for r in b.defs()[T]:
        if r[0] != "stmt" or r[1] not in b.reachable():
            continue
        rv = r[3].get("rv") or {}
        src = rv.get("use") or rv.get("ref")
        c = b.canon(src) if src is not None else "?"
        if c.replace("&mut ", "").replace("&", "").strip("*") != "arg1":
            continue  # a pseudo-element's own style (get_or_insert_with on content_before / content_after)
        n_self += 1
        conds = []
        for (a, s) in b.cdeps_transitive(r[1]):
            neg, sc = b.switch_source(a)
            tt = b.term(a)
            if sc[0] == "discr" and "PseudoElement" in str(sc[1].get("ty", "")) and "Option" in str(sc[1].get("ty", "")):
                vals = sorted(v for v, tb in tt["targets"] if tb == s)
                conds.append("pseudo=None" if vals == [0] and tt["otherwise"] != s else "pseudo∈%s%s" % (vals, "+otherwise" if tt["otherwise"] == s else ""))
            else:
                conds.append("%s@%s" % (sc[0], tt["span"]))
        ctx.check(conds == ["pseudo=None"], "C18-D", "merge:element-style-only-without-pseudo-element#%d" % n_self, r[3]["span"], b.id,
                  "the element's own style becomes the merge target under %s; a `x::before {display:none}` rule would hide x itself" % conds)
    ctx.floor("C18-D", "definitions of the merge target as the element's own style", n_self, 1)
