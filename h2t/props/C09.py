"""C09 — rich annotations mirror element nesting exactly (annotation stack discipline)."""
from ..facts import AnchorMissing, callee_def, op_place, op_const, is_bare
from ..util import (edges_where, unreachable_without_edges, storage_roots, SUBR, TEXTR, RTRAIT, ends, is_callee, field_accesses, site, fn_key,
                    consumer_of_ref, callee_method, dominated_by_true_edge, require,
                    closure_bodies_created_in, transitive_closures, edge_is_true, src_field,
                    deep_atoms, has_call, has_field, direct_place)

EXPLANATION = (
    "Static decision of the annotation-stack discipline: each start_X pushes exactly one annotation "
    "(the decorator's) before its prefix text and each end_X pops exactly one after its suffix text; "
    "each tree-walk arm that starts X creates a reducer that ends the same X; the style pushed by "
    "PushedStyleInfo::apply is given back (unwind) exactly once on every successful path of every arm "
    "(linear use, followed through closures and helper functions); apply/unwind mirror each other; "
    "sub-renderers inherit the stack and parent-drawn structure is tagged with the parent's stack; "
    "preformat tags are appended last under pre_depth>0.")
NOT_DECIDED = "tag vectors of concrete tokens under wrapping; merging of adjacent equal-tag strings"
ASSUMPTIONS = ["A4: user decorators answer push_colour/pop_colour consistently (checked for the three built-ins)"]

PAIRS = {
    "link": "decorate_link_start", "emphasis": "decorate_em_start", "strong": "decorate_strong_start",
    "strikeout": "decorate_strikeout_start", "code": "decorate_code_start",
    "superscript": "decorate_superscript_start",
}
ENDS = {
    "link": "decorate_link_end", "emphasis": "decorate_em_end", "strong": "decorate_strong_end",
    "strikeout": "decorate_strikeout_end", "code": "decorate_code_end",
    "superscript": "decorate_superscript_end",
}


def check(ctx):
    ctx.rule("C09-A", "inside the renderer: start_X pushes exactly one annotation (from decorate_X_start) "
             "on ann_stack, dominating the prefix text; end_X pops exactly one, dominated by the suffix text; "
             "add_image pushes, writes, pops; no other writer of ann_stack")
    ctx.rule("C09-B", "tree walk: an arm that calls start_X creates a reducer calling end_X for the same X "
             "exactly once, before unwinding the pushed style")
    ctx.rule("C09-C", "linear use of PushedStyleInfo: on every successful path of every arm the value returned "
             "by apply is moved exactly once into unwind (directly, via a captured closure, or via a helper)")
    ctx.rule("C09-D", "apply sets flag f iff it performed push f; unwind pops f iff flag f; shared-stack pops "
             "in reverse push order; decorators' push/pop colour answers agree")
    ctx.rule("C09-E", "new_sub_renderer copies ann_stack; parent-drawn prefixes/padding/borders carry the "
             "parent's ann_stack")
    ctx.rule("C09-F", "preformat tags: first/cont annotations pushed last onto clones of ann_stack iff pre_depth>0; "
             "RichDecorator maps them to Preformat(false)/Preformat(true)")
    ctx.rule("C09-G", "the pushed style is unwound on the renderer it was applied to: the number of sub-renderers an arm pushes "
             "after apply equals the number it pops before unwind (a cell's style lives on the cell's own renderer)")
    ctx.rule("C09-H", "collapsed whitespace takes its tag with it: on every path of flush_word on which pending whitespace is "
             "discarded (wslen := 0 without being written), spacetag is cleared before the line is flushed — block padding is "
             "tagged with spacetag, so a stale one would put an inline element's annotations on the padding")
    ctx.rule("C09-L", "annotating node kinds (Em, Strong, Strikeout, Code, Link, Img, Sup) are built only by the element dispatch of "
             "process_dom_node")
    ctx.rule("C09-M", "an inline markup element always builds its annotating node: a reducer of the element dispatch that builds an "
             "Em, Strong, Strikeout, Code or Sup node builds no other kind, and whether it is installed depends on nothing but the "
             "node's kind, its `display` and its name")
    ctx.rule("C09-N", "text is merged into an existing piece only under an equality test of the two tag vectors: every write to the "
             "string of a TaggedString that sits in a line is governed by the true edge of `tag == tag`")
    ctx.rule("C09-K", "the Link annotation carries the link's target as given: start_link hands its argument on unchanged")
    ctx.rule("C09-J", "an element's computed style travels on the node built for it: every reducer of the DOM walk that captured the "
             "element's ComputedStyle returns only nodes built by RenderNode::new_styled with it")
    ctx.rule("C09-I", "padding is a run of its own carrying the tag it is given: TaggedLine::pad_to changes the line only through "
             "push_ws(n, tag) with the caller's tag and never grows an existing piece")
    for rid, fn in (("C09-A", rule_a), ("C09-B", rule_b), ("C09-C", rule_c), ("C09-D", rule_d),
                    ("C09-E", rule_e), ("C09-F", rule_f), ("C09-F", rule_f2), ("C09-C", rule_h), ("C09-G", rule_g),
                    ("C09-H", rule_ws_tag), ("C09-I", rule_pad_tag), ("C09-J", rule_styled_nodes), ("C09-K", rule_link_target_verbatim), ("C09-L", rule_annotating_nodes),
                    ("C09-M", rule_markup_unconditional), ("C09-N", rule_merge_equal_tags)):
        ctx.guard(rid, fn)


ANNOTATING = ("Em", "Strong", "Strikeout", "Code", "Link", "Img", "Sup")


def rule_annotating_nodes(ctx):
    """Text carries the annotations of the elements that enclose it — and no others: a node kind that makes the renderer push
    an annotation is built only by the element dispatch of process_dom_node (one construction per kind, in the arm of the
    element that means it), never by the table or list builders or by insert_child."""
    F = ctx.facts
    from collections import Counter
    c = Counter()
    for b in F.bodies.values():
        if b.raw.get("from_expansion") and b.kind != "Closure":
            continue
        for x in b.reachable():
            for st in b.stmts(x):
                rv = st.get("rv") or {}
                if rv.get("agg") == "adt" and ends(rv.get("adt"), "RenderNodeInfo") and rv.get("variant") in ANNOTATING:
                    root = b.root if b.kind == "Closure" else b.id
                    c[(root, rv["variant"])] += 1
                    ctx.check(root == "process_dom_node", "C09-L", "annotating-node:%s@%s" % (rv["variant"], fn_key(b)), st["span"], b.id,
                              "a %s node is built outside the element dispatch of the DOM walk: the text below it gets a %s annotation "
                              "that no enclosing %s element accounts for" % (rv["variant"], rv["variant"], rv["variant"].lower()))
    for v in ANNOTATING:
        n = sum(k for (r, vv), k in c.items() if vv == v)
        ctx.check(n >= 1, "C09-L", "annotating-node:%s:constructed" % v, "", "", "%d constructions" % n)


def rule_link_target_verbatim(ctx):
    """The Link annotation carries the link's target: the string given to TextRenderer::start_link reaches the
    sub-renderer's start_link (and from there decorate_link_start) unchanged — clean-ups for display (new lines in
    footnotes) belong to the footnote formatter."""
    F = ctx.facts
    for fn, inner in (("TextRenderer::<D>::start_link", RTRAIT + "start_link"), (RTRAIT + "start_link", "TextDecorator::decorate_link_start")):
        b = F.one(fn)
        cs = b.calls(lambda cd, t: ends(cd, inner))
        if not ctx.check(len(cs) == 1, "C09-K", "%s→%s:one-call" % (fn.split("::")[-1], inner.split("::")[-1]), b.span, b.id, "%d calls" % len(cs)):
            continue
        t = cs[0][1]
        at = b.atoms(t["args"][1])
        calls = sorted({a[1].split("::")[-1] for a in at if a[0] == "call" and a[1] and a[1].split("::")[-1] not in ("deref", "deref_mut", "as_str", "as_ref", "borrow", "last_mut", "unwrap", "expect")})
        ctx.check(("arg", 2) in at and not calls, "C09-K", "%s:target-handed-on-verbatim" % fn.split("::")[-1].replace("<D>", ""), t["span"], b.id,
                  "the link target is transformed on its way into the annotation (%s)" % calls)


def rule_styled_nodes(ctx):
    """An element's computed style travels on the node built for it: every closure of process_dom_node that captured the
    element's ComputedStyle returns, whenever it returns a node at all, one built by RenderNode::new_styled — returning a
    child instead (to 'save a level of nesting') drops the element's colours and white-space mode."""
    F = ctx.facts
    pdn = F.one("process_dom_node")
    n = 0
    for (cbb, i, cb, ops, fields) in closure_bodies_created_in(F, pdn):
        tys = [pdn.local_ty(op_place(o)["l"]) if op_place(o) else "" for o in ops]
        if not any("ComputedStyle" in t for t in tys):
            continue
        for x in sorted(cb.reachable()):
            for st in cb.stmts(x):
                rv = st.get("rv") or {}
                if not (rv.get("agg") == "adt" and rv.get("variant") == "Some" and rv.get("ops")):
                    continue
                pl = op_place(rv["ops"][0])
                ty = cb.local_ty(pl["l"]) if pl and not pl["p"] else ""
                if not ty.startswith("RenderNode"):
                    continue
                n += 1
                ctx.check(has_call(cb.atoms(rv["ops"][0]), "RenderNode::new_styled"), "C09-J", "styled-node@%s" % fn_key(cb), st["span"], cb.id,
                          "this reducer captured the element's computed style but returns a node that was not built with it "
                          "(RenderNode::new_styled): the element's colours / white-space never reach the renderer")
        # a node handed back without being wrapped at all: the closure's result is the result of a call (`cs.pop()`, an
        # iterator's `next()`, ...) rather than Some(new_styled(..)) / None
        if "RenderNode" in cb.locals[0]["ty"]:
            for x, t in cb.calls(lambda cd, t: True):
                if t["dest"]["l"] == 0 and not t["dest"]["p"] and not ends(callee_def(t) or "", "from_residual"):
                    n += 1
                    ctx.check(has_call(cb.atoms({"c": {"l": 0, "p": []}}), "RenderNode::new_styled") and False, "C09-J",
                              "styled-node@%s:returns-%s" % (fn_key(cb), callee_method(t)), t["span"], cb.id,
                              "this reducer captured the element's computed style but returns the result of %s as it is: the "
                              "element's own styled node is not built on that path" % callee_method(t))
    ctx.floor("C09-J", "nodes returned by style-carrying reducers of process_dom_node", n, 15)


def rule_pad_tag(ctx):
    """Padding is a run of its own with the tag it is given: TaggedLine::pad_to changes the line only through
    push_ws(self, n, tag) with the caller's tag; it never grows an existing piece (whose tag belongs to an element)."""
    F = ctx.facts
    b = F.one("TaggedLine::<T>::pad_to")
    pw = b.calls(lambda cd, t: ends(cd, "TaggedLine::<T>::push_ws"))
    pl = direct_place(b, pw[0][1]["args"][2]) if len(pw) == 1 else None
    okc = len(pw) == 1 and pl is not None and pl["l"] == 3   # the tag parameter itself (possibly re-borrowed)
    ctx.check(okc, "C09-I", "pad_to:padding=push_ws(n, given tag)", b.span, b.id, "%d push_ws calls" % len(pw))
    other = sorted({callee_method(t) for _bb, t in b.calls() if callee_method(t) in
                    ("push", "push_str", "push_char", "last_mut", "iter_mut", "extend", "insert", "insert_str", "get_mut", "index_mut", "repeat")})
    ctx.check(not other, "C09-I", "pad_to:no-other-mutation", b.span, b.id,
              "pad_to also uses %s: padding merged into an existing piece takes over that piece's annotations (a link, an "
              "emphasis) instead of the tag of the block" % other)
    writes = [1 for (bb, where, pl, acc) in b.all_places() if acc in ("write", "refmut") and any(isinstance(e, dict) and e.get("n") in ("v", "s") for e in pl["p"])]
    ctx.check(not writes, "C09-I", "pad_to:no-direct-write-to-pieces", b.span, b.id, "")


def rule_ws_tag(ctx):
    """Path-wise (powerset) propagation of two facts through flush_word: wslen is known to be 0 (Z) / spacetag is known to
    be None (C).  At a call of flush_line / force_flush_line no path may arrive with Z but without C."""
    F = ctx.facts
    b = F.one("WrappedBlock::<T>::flush_word")

    def field_of(pl):
        fs = [e for e in pl["p"] if isinstance(e, dict) and "f" in e]
        return fs[-1]["n"] if fs and ends(fs[-1]["o"], "WrappedBlock") and len(fs) == 1 else None

    def step_stmt(st, z, c):
        if st["k"] != "assign":
            return z, c
        f = field_of(st["lhs"]) if st["lhs"]["p"] else None
        rv = st.get("rv") or {}
        if f == "wslen":
            k = op_const(rv["use"]) if "use" in rv else None
            z = bool(k is not None and k.get("int") == 0)
        elif f == "spacetag":
            c = rv.get("agg") == "adt" and rv.get("variant") == "None"
            if not c and "use" in rv:
                from ..util import origin
                o = origin(b, rv["use"])
                c = bool(o and o[0] == "rv" and o[1].get("agg") == "adt" and o[1].get("variant") == "None")
        return z, c

    nstores = sum(1 for x in b.reachable() for st in b.stmts(x)
                  if st["k"] == "assign" and st["lhs"]["p"] and field_of(st["lhs"]) == "wslen" and
                  (op_const((st.get("rv") or {}).get("use") or {}) or {}).get("int") == 0)
    ctx.floor("C09-H", "stores of 0 to wslen in flush_word", nstores, 3)
    flushes = [bb for bb, t in b.calls(lambda cd, t: ends(cd, "WrappedBlock::<T>::flush_line", "WrappedBlock::<T>::force_flush_line"))]
    ctx.floor("C09-H", "flush_line calls in flush_word", len(flushes), 2)
    states = {0: {(False, False)}}
    work = [0]
    bad = {}
    while work:
        x = work.pop()
        for (z, c) in list(states[x]):
            for st in b.stmts(x):
                z, c = step_stmt(st, z, c)
            t = b.term(x)
            if t["k"] == "call":
                if callee_method(t) == "take" and t["args"]:
                    pl = direct_place(b, t["args"][0])
                    if pl is not None and field_of(pl) == "spacetag":
                        c = True
                elif x in flushes and z and not c:
                    bad.setdefault(x, t["span"])
            for y in b.succ(x):
                if b.is_cleanup(y):
                    continue
                if (z, c) not in states.setdefault(y, set()):
                    states[y].add((z, c))
                    work.append(y)
    for x in flushes:
        ctx.check(x not in bad, "C09-H", "flush_word:flush_line#%d:discarded-space-has-no-tag" % (sorted(flushes).index(x) + 1),
                  b.term(x)["span"], b.id,
                  "a path reaches this flush with the pending whitespace discarded (wslen = 0) but its tag still in spacetag: "
                  "under pad_block_width the line's padding is then tagged with the annotations of the inline element the "
                  "space stood in")


def ann_ops(b):
    """[(bb, 'push'|'pop'|other, term)] calls consuming &mut self.ann_stack in body b"""
    out = []
    for (bb, where, pl, acc) in b.all_places():
        if acc != "refmut":
            continue
        fs = [e for e in pl["p"] if isinstance(e, dict) and "f" in e]
        if not fs or fs[-1]["n"] != "ann_stack" or not ends(fs[-1]["o"], SUBR):
            continue
        st = b.stmts(bb)[where[1]]
        cons = consumer_of_ref(b, bb, where, st["lhs"]["l"])
        if cons is None:
            out.append((bb, "escape", None))
            continue
        bb2, t, ai = cons
        cd = callee_def(t)
        if ends(cd, "Vec::<T, A>::push"):
            out.append((bb2, "push", t))
        elif ends(cd, "Vec::<T, A>::pop"):
            out.append((bb2, "pop", t))
        else:
            out.append((bb2, "other:%s" % cd, t))
    return out


def rule_a(ctx):
    F = ctx.facts
    npush = npop = 0
    sanctioned = set()
    for x, dec in PAIRS.items():
        for kind in ("start", "end"):
            b = F.one(RTRAIT + "%s_%s" % (kind, x))
            sanctioned.add(b.id)
            ops = ann_ops(b)
            texts = b.calls(lambda cd, t: ends(cd, RTRAIT + "add_inline_text"))
            key = "%s_%s" % (kind, x)
            if kind == "start":
                pushes = [o for o in ops if o[1] == "push"]
                others = [o for o in ops if o[1] != "push"]
                ok1 = ctx.check(len(pushes) == 1 and not others, "C09-A", key + ":one-push", b.span, b.id,
                                "ann_stack operations: %s" % [o[1] for o in ops])
                if not ok1:
                    continue
                npush += 1
                pbb, _, pt = pushes[0]
                at = b.atoms(pt["args"][1])
                ctx.check(has_call(at, "TextDecorator::" + dec), "C09-A", key + ":push-decorator-annotation",
                          pt["span"], b.id, "pushed annotation must be the one returned by %s" % dec)
                # every path to return passes the push
                leak = [r for r in b.reach_from(0, avoid=[pbb]) if b.term(r)["k"] == "return"]
                ctx.check(not leak, "C09-A", key + ":push-on-every-path", pt["span"], b.id, "")
                ctx.check(len(texts) == 1 and b.dominates(pbb, texts[0][0]) and pbb != texts[0][0], "C09-A",
                          key + ":push-before-prefix-text", pt["span"], b.id,
                          "the push must dominate the add_inline_text of the prefix so the prefix is tagged")
                if texts:
                    tat = b.atoms(texts[0][1]["args"][1])
                    ctx.check(has_call(tat, "TextDecorator::" + dec), "C09-A", key + ":prefix-from-decorator",
                              texts[0][1]["span"], b.id, "")
            else:
                pops = [o for o in ops if o[1] == "pop"]
                others = [o for o in ops if o[1] != "pop"]
                ok1 = ctx.check(len(pops) == 1 and not others, "C09-A", key + ":one-pop", b.span, b.id,
                                "ann_stack operations: %s" % [o[1] for o in ops])
                if not ok1:
                    continue
                npop += 1
                pbb, _, pt = pops[0]
                ctx.check(len(texts) == 1 and b.dominates(texts[0][0], pbb) and pbb != texts[0][0], "C09-A",
                          key + ":suffix-text-before-pop", pt["span"], b.id,
                          "the pop must be dominated by the add_inline_text of the suffix so the suffix is tagged")
                if texts:
                    tat = b.atoms(texts[0][1]["args"][1])
                    ctx.check(has_call(tat, "TextDecorator::" + ENDS[x]), "C09-A", key + ":suffix-from-decorator",
                              texts[0][1]["span"], b.id, "")
                # every successful path pops: cut pop and error blocks -> no return reachable
                errs = [bb for bb, t in b.calls(lambda cd, t: ends(cd, "FromResidual<std::result::Result<std::convert::Infallible, E>>>::from_residual"))]
                leak = [r for r in b.reach_from(0, avoid=[pbb] + errs) if b.term(r)["k"] == "return"]
                ctx.check(not leak, "C09-A", key + ":pop-on-every-success-path", pt["span"], b.id, "")
    # add_image
    b = F.one(RTRAIT + "add_image")
    sanctioned.add(b.id)
    ops = ann_ops(b)
    pushes = [o for o in ops if o[1] == "push"]
    pops = [o for o in ops if o[1] == "pop"]
    texts = b.calls(lambda cd, t: ends(cd, RTRAIT + "add_inline_text"))
    okc = len(pushes) == 1 and len(pops) == 1 and len(texts) == 1 and len(ops) == 2
    if ctx.check(okc, "C09-A", "add_image:push-text-pop", b.span, b.id, "ops=%s" % [o[1] for o in ops]):
        npush += 1
        npop += 1
        ctx.check(b.dominates(pushes[0][0], texts[0][0]) and b.dominates(texts[0][0], pops[0][0])
                  and len({pushes[0][0], texts[0][0], pops[0][0]}) == 3,
                  "C09-A", "add_image:order", b.span, b.id, "push, text, pop must occur in dominance order")
        at = b.atoms(pushes[0][2]["args"][1])
        ctx.check(has_call(at, "TextDecorator::decorate_image"), "C09-A", "add_image:push-decorator-annotation",
                  b.span, b.id, "")
    # colour push/pop
    for nm, decm in (("push_colour", "push_colour"), ("push_bgcolour", "push_bgcolour")):
        b = F.one(RTRAIT + nm)
        sanctioned.add(b.id)
        ops = ann_ops(b)
        okc = len(ops) == 1 and ops[0][1] == "push"
        if ctx.check(okc, "C09-A", nm + ":one-push", b.span, b.id, "ops=%s" % [o[1] for o in ops]):
            npush += 1
            pbb, _, pt = ops[0]
            # pushes iff the decorator returned Some
            good = False
            extra = []
            for (a, s) in b.cdeps_transitive(pbb):
                t = b.term(a)
                neg, src = b.switch_source(a)
                if src[0] == "discr" and has_call(b.atoms(src[1]), "TextDecorator::" + decm):
                    vals = [v for v, tb in t["targets"] if tb == s]
                    if vals == [1]:
                        good = True
                else:
                    extra.append("%s@%s" % (src[0], t["span"]))
            ctx.check(good and not extra, "C09-A", nm + ":push-iff-Some", pt["span"], b.id,
                      "the annotation must be pushed exactly when the decorator answers Some (the matching pop is "
                      "unconditional on the renderer's side); further conditions: %s" % extra)
    for nm in ("pop_colour", "pop_bgcolour"):
        b = F.one(RTRAIT + nm)
        sanctioned.add(b.id)
        ops = ann_ops(b)
        okc = len(ops) == 1 and ops[0][1] == "pop"
        if ctx.check(okc, "C09-A", nm + ":one-pop", b.span, b.id, "ops=%s" % [o[1] for o in ops]):
            npop += 1
            pbb, _, pt = ops[0]
            good = False
            extra = []
            for (a, s) in b.cdeps_transitive(pbb):
                truth, src = edge_is_true(b, a, s)
                if src and src[0] == "call" and ends(callee_def(src[1]), "TextDecorator::" + nm) and truth is True:
                    good = True
                else:
                    extra.append("%s@%s" % (src[0] if src else "?", b.term(a)["span"]))
            ctx.check(good and not extra, "C09-A", nm + ":pop-iff-true", pt["span"], b.id,
                      "pop must happen exactly on the true edge of the decorator's answer; further conditions: %s" % extra)
    ctx.floor("C09-A", "ann_stack pushes", npush, 9)
    ctx.floor("C09-A", "ann_stack pops", npop, 9)
    # writer inventory: any other mutable access / assignment of ann_stack
    nsr = F.one(RTRAIT + "new_sub_renderer")
    nassign = 0
    for (b, bb, where, pl, acc) in field_accesses(F, SUBR, "ann_stack"):
        if acc in ("read", "ref", "discr", "drop", "move"):
            # drop/move = the renderer (or its whole stack) ends its life; not a write of the stack
            continue
        if b.raw.get("from_expansion"):
            continue  # derived Clone
        s = site(b, bb, where)
        key = "writer:%s:%s" % (fn_key(b), acc)
        if b.id in sanctioned and acc == "refmut":
            continue
        if b.id == nsr.id and acc in ("write", "drop"):
            if acc == "write":
                nassign += 1
                st = b.stmts(bb)[where[1]]
                at = b.atoms(st["rv"]["use"]) if "use" in st["rv"] else set()
                ctx.check(has_call(at, "Clone>::clone", "Clone::clone") and has_field(at, SUBR, "ann_stack"),
                          "C09-E", "new_sub_renderer:ann_stack=clone(self.ann_stack)", s, b.id,
                          "sub-renderer must start with a copy of the parent's annotation stack")
            continue
        ctx.violation("C09-A", key, s, b.id, "unsanctioned %s of ann_stack" % acc)
    ctx.floor("C09-E", "whole-stack assignment in new_sub_renderer", nassign, 1)


def rule_b(ctx):
    F = ctx.facts
    drn = F.one("do_render_node")
    n = 0
    for x in PAIRS:
        starts = drn.calls(lambda cd, t: callee_method(t) == "start_" + x)
        for sbb, st in starts:
            n += 1
            cls = [(bb, cb) for (bb, i, cb, ops, fields) in closure_bodies_created_in(F, drn)
                   if drn.dominates(sbb, bb)]
            enders = []
            wrong = []
            for bb, cb in cls:
                for ebb, et in cb.calls(lambda cd, t: callee_method(t).startswith("end_") and
                                        callee_method(t)[4:] in PAIRS):
                    if callee_method(et) == "end_" + x:
                        enders.append((cb, ebb, et))
                    else:
                        wrong.append(callee_method(et))
            key = "arm@start_%s#%d" % (x, starts.index((sbb, st)))
            okc = ctx.check(len(enders) == 1 and not wrong, "C09-B", key + ":reducer-ends-same", st["span"], drn.id,
                            "reducers created after start_%s call end_%s %d time(s); other ends: %s"
                            % (x, x, len(enders), wrong))
            if okc:
                cb, ebb, et = enders[0]
                uw = cb.calls(lambda cd, t: ends(cd, "PushedStyleInfo::unwind"))
                okb = len(uw) == 1 and cb.dominates(ebb, uw[0][0])
                if not uw:
                    # the end call is wrapped in a closure of its own that the arm's reducer receives and calls
                    # (`pending_inline(children, style, |r| r.end_X())`): the call of that closure must precede the unwind
                    for (bb2, i2, cb2, ops2, fields2) in closure_bodies_created_in(F, drn):
                        if cb2 is cb:
                            continue
                        for idx, o in enumerate(ops2):
                            pl = direct_place(drn, o)
                            sd = drn.single_def(pl["l"]) if pl is not None and not pl["p"] else None
                            if not (sd and sd[0] == "stmt" and (sd[3].get("rv") or {}).get("agg") == "closure" and sd[3]["rv"].get("def") == cb.id):
                                continue
                            inv = []
                            for cbb, ct in cb2.calls(lambda cd, t: callee_method(t) in ("call_once", "call", "call_mut")):
                                cpl = direct_place(cb2, ct["args"][0])
                                fs = [e for e in (cpl or {}).get("p", []) if isinstance(e, dict) and "f" in e]
                                if cpl is not None and cpl["l"] == 1 and fs and fs[0]["f"] == idx:
                                    inv.append(cbb)
                            uw2 = cb2.calls(lambda cd, t: ends(cd, "PushedStyleInfo::unwind"))
                            if len(inv) == 1 and len(uw2) == 1 and cb2.dominates(inv[0], uw2[0][0]):
                                okb = True
                ctx.check(okb, "C09-B", key + ":end-before-unwind",
                          et["span"], fn_key(cb), "end_%s must precede unwinding the pushed style" % x)
    ctx.floor("C09-B", "start_X calls in tree-walk arms", n, 7)
    # converse: every reducer that ends X was created under a start_X
    for (bb, i, cb, ops, fields) in closure_bodies_created_in(F, drn):
        for ebb, et in cb.calls(lambda cd, t: callee_method(t).startswith("end_") and callee_method(t)[4:] in PAIRS):
            x = callee_method(et)[4:]
            starts = [sbb for sbb, st in drn.calls(lambda cd, t: callee_method(t) == "start_" + x)
                      if drn.dominates(sbb, bb)]
            ctx.check(len(starts) == 1, "C09-B", "reducer-end_%s:has-start" % x, et["span"], fn_key(cb),
                      "a reducer ending %s must be created after exactly one start_%s in its arm" % (x, x))


# ---------------------------------------------------------------------------------------------
# linear use
# ---------------------------------------------------------------------------------------------
FROM_RESIDUAL = "from_residual"


def error_blocks(b):
    return [bb for bb, t in b.calls(lambda cd, t: callee_method(t) == FROM_RESIDUAL)]


def consume_events(F, b, tracked_local=None, tracked_upvar=None, depth=0, seen=None):
    """Blocks of b in which the tracked PushedStyleInfo value is consumed (moved into unwind, into a
    closure that consumes it, or into a helper that consumes it).  Returns (event_blocks, problems)."""
    if seen is None:
        seen = set()
    events = set()
    problems = []

    def is_tracked(pl, locals_):
        if pl is None:
            return False
        if tracked_upvar is not None and pl["l"] == 1 and len(pl["p"]) >= 1:
            # (_1.f) for by-value closures, (*_1).f for by-ref
            fs = [e for e in pl["p"] if isinstance(e, dict) and "f" in e]
            if len(fs) == 1 and fs[0]["f"] == tracked_upvar and all(e == "*" or e is fs[0] for e in pl["p"]):
                return True
        return is_bare(pl) and pl["l"] in locals_

    locals_ = set()
    if tracked_local is not None:
        locals_.add(tracked_local)
    # alias propagation through plain moves
    changed = True
    while changed:
        changed = False
        for bb in b.reachable():
            for st in b.stmts(bb):
                if st["k"] == "assign" and "use" in st["rv"]:
                    src = op_place(st["rv"]["use"])
                    if "m" in st["rv"]["use"] and is_tracked(src, locals_) and is_bare(st["lhs"]) \
                            and st["lhs"]["l"] not in locals_:
                        locals_.add(st["lhs"]["l"])
                        changed = True
    for bb in b.reachable():
        for st in b.stmts(bb):
            rv = st.get("rv") or {}
            if "agg" in rv:
                for i, o in enumerate(rv["ops"]):
                    if "m" in o and is_tracked(o["m"], locals_):
                        if rv["agg"] == "closure":
                            cb = F.bodies.get(rv["def"])
                            memo = F.__dict__.setdefault("_c09_consume_memo", {})
                            if cb is not None and (cb.id, i) in seen and (cb.id, i) in memo:
                                # the same closure created at several sites (a helper inlined into several arms): one verdict
                                okc, why = memo[(cb.id, i)]
                            elif cb is None or (cb.id, i) in seen:
                                problems.append((st["span"], "closure body unavailable"))
                                continue
                            else:
                                seen.add((cb.id, i))
                                okc, why = must_consume(F, cb, upvar=i, depth=depth + 1, seen=seen)
                                memo[(cb.id, i)] = (okc, why)
                            if okc:
                                events.add(bb)
                            else:
                                problems.append((st["span"], "captured by a closure that does not unwind it: %s" % why))
                        else:
                            problems.append((st["span"], "stored into %s" % (rv.get("adt") or rv["agg"])))
        t = b.term(bb)
        if t["k"] == "call":
            for ai, a in enumerate(t["args"]):
                if "m" in a and is_tracked(a["m"], locals_):
                    cd = callee_def(t)
                    if ends(cd, "PushedStyleInfo::unwind") and ai == 0:
                        events.add(bb)
                    elif cd in F.bodies:
                        cb = F.bodies[cd]
                        if (cb.id, "arg", ai) in seen:
                            continue
                        seen.add((cb.id, "arg", ai))
                        okc, why = must_consume(F, cb, local=ai + 1, depth=depth + 1, seen=seen)
                        if okc:
                            events.add(bb)
                        else:
                            problems.append((t["span"], "passed to %s which does not unwind it: %s" % (cd, why)))
                    else:
                        problems.append((t["span"], "passed to external %s" % cd))
    return events, problems


def must_consume(F, b, local=None, upvar=None, depth=0, seen=None, start=0):
    if depth > 6:
        return False, "nesting too deep"
    events, problems = consume_events(F, b, local, upvar, depth, seen)
    avoid = set(events) | set(error_blocks(b))
    reach = b.reach_from(start, avoid=avoid)
    leak = [r for r in reach if b.term(r)["k"] == "return"]
    if leak:
        why = "; ".join("%s %s" % p for p in problems) or "a successful path returns without unwinding"
        return False, why
    return True, ""


def rule_c(ctx):
    F = ctx.facts
    drn = F.one("do_render_node")
    ap = drn.calls(lambda cd, t: ends(cd, "PushedStyleInfo::apply"))
    require(len(ap) == 1, "do_render_node must call PushedStyleInfo::apply exactly once")
    abb, at = ap[0]
    require(is_bare(at["dest"]), "apply result must be a plain local")
    tracked = at["dest"]["l"]
    # the arm dispatch: switch on discriminant(tree.info)
    info = F.adt("RenderNodeInfo")
    names = {v["discr"]: v["name"] for v in info["variants"]}
    disp = None
    for bb in drn.reachable():
        t = drn.term(bb)
        if t["k"] == "switch":
            neg, src = drn.switch_source(bb)
            if src[0] == "discr" and src[1]["ty"].endswith("RenderNodeInfo") and drn.dominates(abb, bb):
                disp = bb
                break
    require(disp is not None, "cannot find the RenderNodeInfo dispatch in do_render_node")
    events, problems = consume_events(F, drn, tracked_local=tracked)
    avoid = set(events) | set(error_blocks(drn))
    t = drn.term(disp)
    n = 0
    for v, tb in t["targets"]:
        nm = names.get(v, str(v))
        n += 1
        reach = drn.reach_from(tb, avoid=avoid)
        leak = [r for r in reach if drn.term(r)["k"] == "return"]
        diverges_only = all(not drn.succ(r) for r in reach if not any(s in reach for s in drn.succ(r))) and not leak
        if leak:
            why = [p for p in problems if True]
            ctx.violation("C09-C", "arm:%s" % nm, drn.term(tb)["span"], drn.id,
                          "the %s arm can return successfully without unwinding the style pushed by apply "
                          "(colour / white-space / preformat state leaks past the element)%s"
                          % (nm, "".join("; %s %s" % p for p in problems)))
        else:
            ctx.ok("C09-C", "arm:%s" % nm, drn.term(tb)["span"], drn.id,
                   "every successful path moves the pushed style into unwind")
    ctx.floor("C09-C", "tree-walk arms", n, 25)
    for p in problems:
        ctx.violation("C09-C", "escape:%s" % p[1][:60], p[0], drn.id, p[1])


def ret_consts(b):
    """constant values assigned to _0 in body b: list of strings like 'Some', 'None', 'true'"""
    out = []
    for bb in b.reachable():
        for st in b.stmts(bb):
            if st["k"] == "assign" and st["lhs"]["l"] == 0 and not st["lhs"]["p"]:
                rv = st["rv"]
                if "agg" in rv:
                    out.append(rv.get("variant") or rv["agg"])
                elif "use" in rv and op_const(rv["use"]):
                    out.append(op_const(rv["use"])["v"])
                else:
                    out.append("?")
        t = b.term(bb)
        if t["k"] == "call" and t["dest"]["l"] == 0:
            out.append("call:" + str(callee_def(t)))
    return out


def rule_d(ctx):
    F = ctx.facts
    ap = F.one("PushedStyleInfo::apply")
    uw = F.one("PushedStyleInfo::unwind")
    psi = F.adt("PushedStyleInfo")
    flags = {"colour": ("push_colour", "pop_colour"), "bgcolour": ("push_bgcolour", "pop_bgcolour"),
             "white_space": ("push_ws", "pop_ws"), "preformat": ("push_preformat", "pop_preformat")}
    present = [f["name"] for f in psi["variants"][0]["fields"]]
    ctx.check(sorted(present) == sorted(flags), "C09-D", "PushedStyleInfo:fields", psi["span"], "PushedStyleInfo",
              "flags: %s" % present)
    css = ctx.has_css and any("colour" == f["name"] for f in F.adt("ComputedStyle")["variants"][0]["fields"])
    order_push, order_pop = {}, {}
    for f, (pu, po) in flags.items():
        if f in ("colour", "bgcolour") and not css:
            continue
        pcalls = ap.calls(lambda cd, t: ends(cd, RTRAIT + pu))
        writes = []
        for bb in ap.reachable():
            for st in ap.stmts(bb):
                if st["k"] == "assign" and st["lhs"]["p"] and isinstance(st["lhs"]["p"][-1], dict) \
                        and st["lhs"]["p"][-1].get("n") == f and ends(st["lhs"]["p"][-1].get("o"), "PushedStyleInfo"):
                    k = op_const(st["rv"].get("use")) if "use" in st["rv"] else None
                    writes.append((bb, k["v"] if k else "?"))
        okc = len(pcalls) == 1 and len(writes) == 1 and writes[0][1] == "true"
        if ctx.check(okc, "C09-D", "apply:%s:one-push-one-flag" % f, ap.span, ap.id,
                     "push calls=%d flag writes=%s" % (len(pcalls), writes)):
            cbb, wbb = pcalls[0][0], writes[0][0]
            ctx.check(ap.dominates(cbb, wbb) and ap.postdominates(wbb, cbb), "C09-D",
                      "apply:%s:flag-iff-push" % f, pcalls[0][1]["span"], ap.id,
                      "the flag write must be control-equivalent with the push")
            order_push[f] = cbb
            # each push is decided by its own style field and by no other (the preformat mark belongs to the <pre> element,
            # not to its white-space value; a colour does not depend on the white-space mode, ...)
            own = {"colour": "colour", "bgcolour": "bg_colour", "white_space": "white_space", "preformat": "internal_pre"}[f]
            fs = set()
            for (a, s2) in ap.cdeps_transitive(cbb):
                fs |= {x2[2] for x2 in ap.atoms(ap.term(a)["discr"]) if x2[0] == "field" and "ComputedStyle" in str(x2[1])}
            ctx.check(fs == {own}, "C09-D", "apply:%s:decided-by-%s-only" % (f, own), pcalls[0][1]["span"], ap.id,
                      "the push is decided by the style fields %s; it must depend on `%s` alone" % (sorted(fs), own))
        ucalls = uw.calls(lambda cd, t: ends(cd, RTRAIT + po))
        if ctx.check(len(ucalls) == 1, "C09-D", "unwind:%s:one-pop" % f, uw.span, uw.id, "%d pop calls" % len(ucalls)):
            ubb = ucalls[0][0]
            ctx.check(dominated_by_true_edge(uw, ubb, "PushedStyleInfo", f, True), "C09-D",
                      "unwind:%s:pop-iff-flag" % f, ucalls[0][1]["span"], uw.id, "pop must be on the true edge of the flag")
            # and unconditional otherwise: only that flag governs it
            govern = {src_field(edge_is_true(uw, a, s)[1]) for (a, s) in uw.cdeps_transitive(ubb)}
            ctx.check(govern == {("PushedStyleInfo", f)}, "C09-D", "unwind:%s:governed-only-by-flag" % f,
                      ucalls[0][1]["span"], uw.id, "governing conditions: %s" % sorted(map(str, govern)))
            order_pop[f] = ubb
    if css and "colour" in order_push and "bgcolour" in order_push and "colour" in order_pop and "bgcolour" in order_pop:
        fwd = order_push["bgcolour"] in ap.reach_from(order_push["colour"]) and \
            order_push["colour"] not in ap.reach_from(order_push["bgcolour"])
        rev = order_pop["colour"] in uw.reach_from(order_pop["bgcolour"]) and \
            order_pop["bgcolour"] not in uw.reach_from(order_pop["colour"])
        ctx.check(fwd == rev and (fwd or rev), "C09-D", "shared-stack:reverse-order", uw.span, uw.id,
                  "colour and bgcolour share ann_stack: pops must occur in reverse order of the pushes")
    # decorators' answers agree
    n = 0
    for im in F.impls:
        if not ends(im.get("trait"), "TextDecorator"):
            continue
        meth = {m["name"]: m for m in im["methods"]}
        for pu, po in (("push_colour", "pop_colour"), ("push_bgcolour", "pop_bgcolour")):
            pb, ob = F.bodies.get(meth[pu]["impl_item"]), F.bodies.get(meth[po]["impl_item"])
            if pb is None or ob is None:
                ctx.violation("C09-D", "decorator:%s:%s" % (im["self_ty"], pu), "", im["self_ty"], "body unavailable")
                continue
            a, c = set(ret_consts(pb)), set(ret_consts(ob))
            n += 1
            okc = (a == {"Some"} and c == {"true"}) or (a == {"None"} and c == {"false"})
            ctx.check(okc, "C09-D", "decorator:%s:%s/%s-agree" % (im["self_ty"].split("::")[-1], pu, po), pb.span,
                      im["self_ty"], "%s returns %s, %s returns %s" % (pu, sorted(a), po, sorted(c)))
    ctx.floor("C09-D", "decorator colour answer pairs", n, 6)


PARENT_DRAWERS = ("append_subrender", "append_columns_with_borders", "append_vert_row",
                  "add_horizontal_border", "add_horizontal_border_width")


def rule_e(ctx):
    F = ctx.facts
    n = 0
    for nm in PARENT_DRAWERS:
        b = F.one(RTRAIT + nm)
        bodies = [b] + [cb for _bb, cb in transitive_closures(F, b)]
        for body in bodies:
            for bb in body.reachable():
                for st in body.stmts(bb):
                    rv = st.get("rv") or {}
                    if rv.get("agg") == "adt" and ends(rv.get("adt"), "TaggedString") and "tag" in rv.get("fields", []):
                        op = rv["ops"][rv["fields"].index("tag")]
                        at = deep_atoms(F, body, op)
                        n += 1
                        ctx.check(has_field(at, SUBR, "ann_stack") and not has_field(at, "TaggedString", "tag"),
                                  "C09-E", "%s:tag-is-parent-stack#%d" % (nm, n), st["span"], fn_key(body),
                                  "text drawn by the parent must carry the parent's annotation stack")
                t = body.term(bb)
                if t["k"] == "call":
                    cd = callee_def(t)
                    idx = None
                    if ends(cd, "BorderHoriz::<T>::new"):
                        idx = 1
                    elif ends(cd, "BorderHoriz::<T>::new_type"):
                        idx = 2
                    elif ends(cd, "TaggedLine::<T>::pad_to"):
                        idx = 2
                    elif ends(cd, "TaggedLine::<T>::push_char"):
                        idx = 2
                    if idx is not None:
                        at = deep_atoms(F, body, t["args"][idx])
                        n += 1
                        ctx.check(has_field(at, SUBR, "ann_stack"), "C09-E",
                                  "%s:%s-tag-is-parent-stack#%d" % (nm, cd.split("::")[-1], n), t["span"], fn_key(body),
                                  "borders and padding drawn by the parent must carry the parent's annotation stack")
    ctx.floor("C09-E", "parent-drawn tag initialisers", n, 9)


def rule_f(ctx):
    F = ctx.facts
    b = F.one(RTRAIT + "add_inline_text")
    for which, want in (("decorate_preformat_first", "false"), ("decorate_preformat_cont", "true")):
        cs = b.calls(lambda cd, t: ends(cd, "TextDecorator::" + which))
        if not ctx.check(len(cs) == 1, "C09-F", "%s:one-call" % which, b.span, b.id, "%d calls" % len(cs)):
            continue
        cbb, ct = cs[0]
        # its result is pushed onto a Vec that is a clone of ann_stack
        pushes = [(bb, t) for bb, t in b.calls(lambda cd, t: ends(cd, "Vec::<T, A>::push"))
                  if has_call(b.atoms(t["args"][1]), "TextDecorator::" + which)]
        if ctx.check(len(pushes) == 1, "C09-F", "%s:pushed" % which, ct["span"], b.id, ""):
            pbb, pt = pushes[0]
            at = b.atoms(pt["args"][0], through_calls=True)
            ctx.check(has_field(at, SUBR, "ann_stack") and has_call(at, "Clone>::clone", "Clone::clone"), "C09-F",
                      "%s:onto-clone-of-ann_stack" % which, pt["span"], b.id,
                      "the preformat tag is appended to a copy of the annotation stack (so it comes last)")
            # governed by pre_depth > 0
            good = False
            for (a, s) in b.cdeps_transitive(pbb):
                truth, src = edge_is_true(b, a, s)
                if src and src[0] == "bin" and src[1]["bin"] in ("Gt", "Ne", "Lt"):
                    at2 = b.atoms(src[1]["a"]) | b.atoms(src[1]["b"])
                    if has_field(at2, SUBR, "pre_depth") and truth is True:
                        good = True
            ctx.check(good, "C09-F", "%s:iff-pre_depth>0" % which, pt["span"], b.id, "")
        # RichDecorator mapping
        for im in F.impls:
            if ends(im.get("trait"), "TextDecorator") and im["self_ty"].endswith("RichDecorator"):
                m = [x for x in im["methods"] if x["name"] == which][0]
                rb = F.bodies.get(m["impl_item"])
                require(rb is not None, "RichDecorator::%s body" % which)
                vals = []
                for bb in rb.reachable():
                    for st in rb.stmts(bb):
                        rv = st.get("rv") or {}
                        if rv.get("agg") == "adt" and rv.get("variant") == "Preformat":
                            k = op_const(rv["ops"][0])
                            vals.append(k["v"] if k else "?")
                ctx.check(vals == [want], "C09-F", "RichDecorator::%s=Preformat(%s)" % (which, want), rb.span, rb.id,
                          "found %s" % vals)
    # the two tags are handed to add_text in (first, cont) order
    at_calls = b.calls(lambda cd, t: ends(cd, "WrappedBlock::<T>::add_text"))
    if ctx.check(len(at_calls) == 1, "C09-F", "add_text:one-call", b.span, b.id, ""):
        t = at_calls[0][1]
        a3 = b.atoms(t["args"][3])
        a4 = b.atoms(t["args"][4])
        ok = (has_call(a3, "TextDecorator::decorate_preformat_first") and
              not has_call(a3, "TextDecorator::decorate_preformat_cont") and
              has_call(a4, "TextDecorator::decorate_preformat_cont") and
              not has_call(a4, "TextDecorator::decorate_preformat_first"))
        if not ok:
            # the two vectors may travel together (a tuple, an Option of a tuple) and be taken apart again: follow each
            # argument field by field to the vectors it can denote, and ask which annotation was pushed onto those
            def pushed_onto(arg):
                pl = op_place(arg)
                roots = storage_roots(b, {"l": pl["l"], "p": ["*"] + list(pl["p"])}) if pl is not None else set()
                got = set()
                for which in ("decorate_preformat_first", "decorate_preformat_cont"):
                    for _bb, pt in b.calls(lambda cd, t: ends(cd, "Vec::<T, A>::push")):
                        if not has_call(b.atoms(pt["args"][1]), "TextDecorator::" + which):
                            continue
                        tp = direct_place(b, pt["args"][0])
                        if tp is not None and (tp["l"], b.expr({"l": tp["l"], "p": tp["p"]})) in roots:
                            got.add(which)
                return got
            ok = pushed_onto(t["args"][3]) == {"decorate_preformat_first"} and \
                pushed_onto(t["args"][4]) == {"decorate_preformat_cont"}
        ctx.check(ok,
                  "C09-F", "add_text:(main=first, wrap=cont)", t["span"], b.id,
                  "main tag must carry the first-line annotation, wrap tag the continuation annotation")


def rule_f2(ctx):
    """The continuation flag: WrappedBlock::add_text starts with tag = pre_wrapped ? wrap_tag : main_tag and keeps
    the two in step — wherever it switches the tag back to the first-line tag (hard newline) it clears
    pre_wrapped, wherever it switches to the continuation tag it sets it.  A switch of the tag without the flag
    lets the *next* text node of the same <pre> start with the wrong flag."""
    F = ctx.facts
    b = F.one("WrappedBlock::<T>::add_text")
    # the tag local: multi-definition local whose definitions are copies of parameters 3 (main) and 4 (wrap)
    cands = []
    for l, loc in enumerate(b.locals):
        ds = [r for r in b.defs()[l] if r[1] in b.reachable()]
        if len(ds) >= 3 and all(r[0] == "stmt" and ("use" in (r[3].get("rv") or {}) or "ref" in (r[3].get("rv") or {})) for r in ds):
            srcs = []
            for r in ds:
                rv = r[3]["rv"]
                pl = direct_place(b, rv["use"]) if "use" in rv else direct_place(b, rv["ref"])
                sd = b.defs().get(pl["l"]) if pl is not None else None
                srcs.append(sd[0][1] if sd and len(sd) == 1 and sd[0][0] == "arg" else None)
            if None not in srcs and len(set(srcs)) == 2:
                cands.append((l, list(zip(ds, srcs)), min(srcs)))
    if not ctx.check(len(cands) == 1, "C09-F", "add_text:tag-variable", b.span, b.id,
                     "expected one local switching between the main and the wrap tag, found %d" % len(cands)):
        return
    l, ds, main_arg = cands[0]
    n = 0
    for r, src in ds:
        x = r[1]
        # straight-line neighbourhood of the assignment
        region = {x}
        cur = x
        while len(b.pred(cur)) == 1 and len([s for s in b.succ(b.pred(cur)[0]) if not b.is_cleanup(s)]) == 1:
            cur = b.pred(cur)[0]
            region.add(cur)
        cur = x
        while True:
            ss = [s for s in b.succ(cur) if not b.is_cleanup(s)]
            if len(ss) != 1 or len(b.pred(ss[0])) != 1:
                break
            cur = ss[0]
            region.add(cur)
        stores = []
        for y in region:
            for st in b.stmts(y):
                if st["k"] == "assign" and st["lhs"]["p"] and isinstance(st["lhs"]["p"][-1], dict) and st["lhs"]["p"][-1].get("n") == "pre_wrapped":
                    k = op_const((st.get("rv") or {}).get("use") or {})
                    stores.append(k.get("v") if k else "?")
        reads_flag = any(isinstance(e, dict) and e.get("n") == "pre_wrapped" for c in b.cdeps_transitive(x)
                         for e in ((edge_is_true(b, c[0], c[1])[1] or (None, {"p": []}))[1].get("p", [])
                                   if (edge_is_true(b, c[0], c[1])[1] or (None,))[0] == "place" else []))
        if reads_flag:
            continue  # the initialisation `if self.pre_wrapped { wrap } else { main }`
        n += 1
        want = "false" if src == main_arg else "true"
        ctx.check(stores == [want], "C09-F", "add_text:tag:=%s⇒pre_wrapped:=%s#%d" % ("main" if src == main_arg else "wrap", want, n),
                  r[3]["span"], b.id, "the tag is switched to the %s tag here but pre_wrapped is set to %s in the same step"
                  % ("first-line" if src == main_arg else "continuation", stores or "nothing"))
    ctx.floor("C09-F", "tag switches in add_text", n, 2)


def rule_h(ctx):
    """A node's style is applied by the render walk once per node.  The synthetic Container that insert_child wraps
    around a node (to attach a marker or generated content) must carry the default style — giving it the element's
    style would apply the element's colours twice."""
    F = ctx.facts
    ic = F.one("insert_child")
    styled = ic.calls(lambda cd, t: ends(cd, "RenderNode::new_styled"))
    news = ic.calls(lambda cd, t: ends(cd, "RenderNode::new"))
    lits = [st for x in ic.reachable() for st in ic.stmts(x) if (st.get("rv") or {}).get("agg") == "adt" and (st.get("rv") or {}).get("adt") == "RenderNode"]
    ctx.check(not styled and not lits and len(news) >= 1, "C09-C", "insert_child:wrapper-has-default-style", ic.span, ic.id,
              "insert_child builds a node with an explicit style (%d new_styled, %d literals): the wrapper around an element "
              "must be a plain RenderNode::new(Container(..))" % (len(styled), len(lits)))
    # and it never reads the style of the node it wraps
    reads = [1 for (_bb, _w, pl, acc) in ic.all_places() if any(isinstance(e, dict) and e.get("n") == "style" and ends(e.get("o"), "RenderNode") for e in pl["p"])]
    ctx.check(not reads, "C09-C", "insert_child:does-not-touch-styles", ic.span, ic.id, "")


def _stack_calls(b, blocks, which):
    return [bb for bb, t in b.calls(lambda cd, t: ends(cd, "TextRenderer::<D>::" + which)) if blocks is None or bb in blocks]


def rule_g(ctx):
    F = ctx.facts
    drn = F.one("do_render_node")
    info = F.adt("RenderNodeInfo")
    names = {v["discr"]: v["name"] for v in info["variants"]}
    ap = drn.calls(lambda cd, t: ends(cd, "PushedStyleInfo::apply"))
    require(len(ap) == 1, "apply call")
    from ..util import find_dispatch
    disp = find_dispatch(drn, "RenderNodeInfo", 10, after=ap[0][0])
    n = 0
    for v, tb in drn.term(disp)["targets"]:
        vn = names.get(v, str(v))
        region = drn.reach_from(tb)
        # bodies in which this arm's value may be unwound: the arm itself, closures created in it, helpers it calls
        cands = [(drn, region)]
        pushes = len(_stack_calls(drn, region, "push"))
        for (bb, i, cb, ops, fields) in closure_bodies_created_in(F, drn):
            if bb in region:
                cands.append((cb, None))
        for x in region:
            t = drn.term(x)
            if t["k"] == "call" and callee_def(t) in F.bodies and F.bodies[callee_def(t)].kind != "Closure" and \
                    any("PushedStyleInfo" in (op_place(a) or {}).get("ty", "") for a in t["args"]):
                hb = F.bodies[callee_def(t)]
                cands.append((hb, None))
                pushes += len(_stack_calls(hb, None, "push"))
                for _bb2, cb2 in transitive_closures(F, hb):
                    cands.append((cb2, None))
        for body, blocks in cands:
            uws = [(bb, t) for bb, t in body.calls(lambda cd, t: ends(cd, "PushedStyleInfo::unwind")) if blocks is None or bb in blocks]
            for ubb, ut in uws:
                # is this unwind consuming an upvar/param/local of type PushedStyleInfo (always, by type)
                pops = [pb for pb in _stack_calls(body, blocks, "pop") if body.dominates(pb, ubb) and pb != ubb]
                n += 1
                ctx.check(len(pops) == pushes, "C09-G", "arm:%s:unwind-at-apply-level" % vn, ut["span"], fn_key(body),
                          "the %s arm pushes %d sub-renderer(s) after applying the node's style but pops %d before unwinding it: the "
                          "style would be unwound on a different renderer than it was applied to" % (vn, pushes, len(pops)))
    ctx.floor("C09-G", "unwind sites checked against the stack level of apply", n, 25)


INLINE_MARKUP = ("Em", "Strong", "Strikeout", "Code", "Sup")


def rule_markup_unconditional(ctx):
    """`<code>` means Code wherever it stands: the reducers of the element dispatch that build an inline-markup node build
    that kind only (no `if fenced { Container } else { Code }`), and the arm that installs them is selected by the node's
    kind, the element's `display` and name tests alone (no look at the parent, at attributes, at the context)."""
    F = ctx.facts
    pdn = F.one("process_dom_node")
    n = 0
    for (cbb, i, cb, ops, fields) in closure_bodies_created_in(F, pdn):
        kinds = set()
        for body in [cb] + [c for (_x, c) in transitive_closures(F, cb)]:
            for x in body.reachable():
                for st in body.stmts(x):
                    rv = st.get("rv") or {}
                    if rv.get("agg") == "adt" and ends(rv.get("adt"), "RenderNodeInfo"):
                        kinds.add(rv["variant"])
        mk = kinds & set(INLINE_MARKUP)
        if not mk:
            continue
        n += 1
        k = sorted(mk)[0]
        ctx.check(len(kinds) == 1, "C09-M", "markup-reducer:%s:one-kind" % k, cb.span, cb.id,
                  "the reducer of an inline markup element builds %s: under some condition the element's text loses (or "
                  "gains) the annotation although the element encloses it" % sorted(kinds))
        bad = []
        for (a, s2) in sorted(pdn.cdeps_transitive(cbb)):
            _neg, src = pdn.switch_source(a)
            if src[0] == "discr":
                pl = src[1]
                at = pdn.atoms({"c": pl})
                if "NodeData" in (pl.get("ty") or "") or has_field(at, "ComputedStyle", "display"):
                    continue
            if src[0] == "bin" and src[1]["bin"] in ("Eq", "Ne"):
                at = pdn.atoms(src[1]["a"]) | pdn.atoms(src[1]["b"])
                if has_call(at, "QualName::expanded") and any(x[0] == "int" for x in at):
                    continue
            bad.append((a, src[0]))
        ctx.check(not bad, "C09-M", "markup-arm:%s:selected-by-name-only" % k, pdn.term(cbb)["span"], pdn.id,
                  "the arm that builds %s nodes is reached under a condition that is not a test of the node kind, of `display` or "
                  "of the element name (%s)" % (k, ", ".join("bb%d:%s" % b for b in bad[:4])))
    ctx.floor("C09-M", "inline-markup reducers in the element dispatch", n, 5)


STRING_WRITES = ("push", "push_str", "insert", "insert_str", "extend", "add_assign", "truncate", "clear", "pop", "remove")


def rule_merge_equal_tags(ctx):
    """A character joins an existing piece only if that piece has exactly the tag the character is to carry."""
    F = ctx.facts
    n = 0
    for b in F.bodies.values():
        if not b.id.startswith("render::text_renderer::") or (b.raw.get("from_expansion") and b.kind != "Closure"):
            continue
        for bb, t in b.calls(lambda cd, t: callee_method(t) in STRING_WRITES and "String" in (cd or "")):
            pl = direct_place(b, t["args"][0])
            fs = [e for e in (pl["p"] if pl else []) if isinstance(e, dict) and "f" in e]
            if not fs or not (fs[-1].get("n") == "s" and ends(fs[-1].get("o"), "TaggedString")):
                continue
            if not any(e == "*" for e in pl["p"]):
                continue  # a TaggedString owned by this function (being built), not one reached through a reference
            n += 1
            cut = edges_where(b, lambda truth, src, a, s2: truth is True and src and src[0] == "call" and
                              callee_method(src[1]) == "eq" and
                              any(has_field(b.atoms(x), "TaggedString", "tag") for x in src[1]["args"]))
            ok = unreachable_without_edges(b, bb, cut)  # every path to the write takes the true edge of a tag comparison
            ctx.check(ok, "C09-N", "merge@%s:%s" % (fn_key(b), callee_method(t)), t["span"], b.id,
                      "text is written into a piece that is already in a line without a dominating `piece.tag == tag` test: it takes "
                      "over that piece's annotations instead of the ones it was given")
    ctx.floor("C09-N", "writes into an existing tagged string", n, 3)
