"""C20 — selectors match exactly the elements CSS designates (structural clauses only)."""
import re

from ..facts import AnchorMissing, callee_def, op_place, op_const, is_bare
from ..util import (ends, site, fn_key, callee_method, require, has_call, has_field, find_dispatch, edge_is_true,
                    direct_place, edges_where, unreachable_without_edges, transitive_closures, reach_with_bool_consts)
from ..widths import norm

EXPLANATION = (
    "Structural clauses only; the equality between the set of matched elements and the CSS semantics over all "
    "documents is NOT decided (it quantifies over runtime tree shapes, and :nth-child over runtime arithmetic). "
    "Decided statically, each a necessary condition: (A) Selector::do_matches dispatches on every kind of selector "
    "component and every arm that can succeed continues with the rest of the components (&comps[1..]) — on the same "
    "node for class, id, element, universal and :nth-child steps, on the parent for the child combinator, on each "
    "proper ancestor in turn for the descendant combinator; the empty remainder matches; Selector::matches starts with "
    "all components on the element itself. (B) The simple selectors compare for equality: a class step against some "
    "whitespace-separated token of the attribute named `class`, an id step against the value of the attribute named "
    "`id`, an element step against the element's local name; all three only under the Element variant of the node. "
    "(C) Selector lists are unions: every selector of a parsed rule becomes its own rule set with the rule's "
    "declarations, no selector of the list is skipped, and computed_style applies a rule set exactly under "
    "`rule.selector.matches(element)`. (D) :nth-child counts only element siblings that match its inner selector, up "
    "to and including the element itself, and an unmatched element is rejected.")
NOT_DECIDED = ("the :nth-child(an+b) arithmetic (which index values satisfy idx = a*n+b with n >= 0); the parsing of selector "
               "text into components (component order, odd/even); that html5ever's parent links and sibling lists are the "
               "document's; the set equality with a reference matcher")
ASSUMPTIONS = ["html5ever's Node::parent / children describe the parsed document"]

CONFIGS_QUICK = ["css"]
CONFIGS_THOROUGH = ["css", "css_ext"]

REST = (r"(&<impl std::ops::Index<I> for \[T\]>::index\(&arg1, ops::RangeFrom\{1_usize\}\)"
        r"|&?\(<impl \[T\]>::split_first\(&arg1\) as Some\)\.1)")
SAME = ("Class", "Hash", "Element", "Star", "NthChild")


def check(ctx):
    ctx.rule("C20-A", "do_matches: every component kind is dispatched; every succeeding arm continues with &comps[1..] on the "
             "right node (same node / parent / each ancestor); the empty remainder matches; matches() starts at the element")
    ctx.rule("C20-B", "class, id and element steps are equalities on the right attribute / name, only for Element nodes")
    ctx.rule("C20-C", "selector lists are unions: one rule set per selector of the list, none skipped; a rule set applies "
             "exactly under rule.selector.matches(element)")
    ctx.rule("C20-D", ":nth-child counts element siblings matching its selector up to the element itself")
    ctx.rule("C20-E", "the parent links the combinators walk are kept by the (vendored) DOM builder: every TreeSink operation "
             "that moves children to another node re-points their parent link, before the source list is emptied")
    ctx.rule("C20-F", "the coefficients of :nth-child(an+b) are signed: every coefficient that parse_nth_child_args reads from "
             "digits is the parsed number multiplied by the value of the sign parsed immediately before those digits")
    ctx.rule("C20-G", "the components of a selector stay in the order they were written: the only order-changing operations on a "
             "sequence of SelectorComponent are the reviewed ones of parse_selector (one reverse of the whole list, the pop of a "
             "trailing descendant combinator) — a sort or a partial reverse moves a test across a combinator")
    ctx.facts.upvar_depth = 8  # captured selector payloads are compared in full
    try:
        for rid, fn in (("C20-A", rule_a), ("C20-B", rule_b), ("C20-C", rule_c), ("C20-D", rule_d), ("C20-E", rule_e),
                        ("C20-F", rule_f)):
            ctx.guard(rid, fn)
        from . import C03
        ctx.guard("C20-G", C03.rule_g, ("SelectorComponent",), "C20-G")
    finally:
        ctx.facts.upvar_depth = 2


def _arms(F):
    b = F.one("css::Selector::do_matches")
    info = F.adt("css::SelectorComponent")
    names = {v["discr"]: v["name"] for v in info["variants"]}
    disp = find_dispatch(b, "css::SelectorComponent", 4)
    arms = {}
    for v, tb in b.term(disp)["targets"]:
        arms[names[v]] = (tb, b.reach_from(tb, avoid=[disp]))
    return b, names, disp, arms


def _self_calls(b, region):
    return [(x, b.term(x)) for x in sorted(region) if b.term(x)["k"] == "call" and callee_def(b.term(x)) == b.id]


def flat(s):
    """captured variables read as the creating body's expressions: up{&X} -> X"""
    prev = None
    while prev != s:
        prev = s
        s = re.sub(r"up\{&?([^{}]*)\}", r"\1", s)
    return s


def _arm_bodies(F, b, region):
    """the arm's blocks plus the closures created in them (transitively):
    [(body, blocks or None, (creating body, call the closure is handed to) or None)]"""
    from ..util import closure_bodies_created_in
    out = [(b, region, None)]

    def rec(pb, blocks, depth):
        if depth > 4:
            return
        for (cbb, i, cb, ops, fields) in closure_bodies_created_in(F, pb):
            if blocks is not None and cbb not in blocks:
                continue
            user = None
            for x in sorted(pb.reach_from(cbb)):
                tt = pb.term(x)
                if tt["k"] != "call":
                    continue
                for a in tt["args"]:
                    pl = op_place(a)
                    if pl is None or pl["p"]:
                        continue
                    sd = pb.single_def(pl["l"])
                    if sd and sd[0] == "stmt" and (sd[3].get("rv") or {}).get("def") == cb.id:
                        user = (pb, tt)
                if user:
                    break
            out.append((cb, None, user))
            rec(cb, None, depth + 1)
    rec(b, region, 0)
    return out


def _calls_in(body, blocks, pred):
    return [(x, body.term(x)) for x in sorted(body.reachable()) if (blocks is None or x in blocks) and body.term(x)["k"] == "call" and pred(body.term(x))]


def rule_a(ctx):
    F = ctx.facts
    b, names, disp, arms = _arms(F)
    listed = set(arms)
    allv = set(names.values())
    oth = b.term(disp)["otherwise"]
    ctx.check(listed == allv or (oth is not None and b.term(oth)["k"] == "unreachable" and len(allv - listed) <= 0), "C20-A",
              "dispatch:every-component-kind", b.term(disp)["span"], b.id, "component kinds without an arm: %s" % sorted(allv - listed))
    n = 0
    for vn, (tb, region) in sorted(arms.items()):
        calls = []
        for body, blocks, user in _arm_bodies(F, b, region):
            for x, t in _calls_in(body, blocks, lambda tt: callee_def(tt) == b.id):
                calls.append((body, x, t, user))
        if not ctx.check(bool(calls), "C20-A", "%s:continues" % vn, b.term(tb)["span"], b.id,
                         "the %s arm never continues with the rest of the selector" % vn):
            continue
        for body, x, t, user in calls:
            n += 1
            a0 = flat(norm(body.canon(t["args"][0])))
            a1 = flat(norm(body.canon(t["args"][1])))
            if body is not b and a1 == "&arg2" and user is not None:
                # inside a closure the node is the closure's parameter: it stands for what the adaptor hands in
                recv = flat(norm(user[0].canon(user[1]["args"][0])))
                if callee_method(user[1]) in ("is_some_and", "map_or", "map", "and_then", "is_some_and") and "get_parent(" in recv and "arg2" in recv:
                    a1 = "&(Node::get_parent(&<std::rc::Rc<T, A> as std::ops::Deref>::deref(&arg2)) as Some)"
            ctx.check(re.fullmatch(REST, a0) is not None, "C20-A", "%s:rest=&comps[1..]#%d" % (vn, n), t["span"], b.id,
                      "continues with %s" % a0)
            if vn in SAME:
                okn = a1 == "&arg2"
                want = "the same node"
            elif vn == "CombChild":
                okn = re.fullmatch(r"&\(Node::get_parent\(&<std::rc::Rc<T, A> as std::ops::Deref>::deref\(&arg2\)\) as Some\)", a1) is not None
                want = "the node's parent"
            else:  # CombDescendant: the loop variable over the ancestor chain
                pl = direct_place(b, t["args"][1]) if body is b else None
                okn = False
                if pl is not None:
                    base = pl["l"]
                    defs = [r for r in b.defs()[base] if r[0] in ("call", "stmt") and r[1] in b.reachable()]
                    # `while let Some(parent) = ancestor`: the bound value is moved out of the loop variable
                    if len(defs) == 1 and defs[0][0] == "stmt" and "use" in (defs[0][3].get("rv") or {}) and \
                            op_place(defs[0][3]["rv"]["use"]) is not None and op_place(defs[0][3]["rv"]["use"])["p"]:
                        base = op_place(defs[0][3]["rv"]["use"])["l"]
                        defs = [r for r in b.defs()[base] if r[0] in ("call", "stmt") and r[1] in b.reachable()]
                    forms = set()
                    for r in defs:
                        if r[0] == "call" and callee_method(r[2]) == "get_parent":
                            forms.add(norm(b.canon(r[2]["args"][0], env={})))
                        elif r[0] == "stmt" and "use" in (r[3].get("rv") or {}):
                            o = b.single_def(op_place(r[3]["rv"]["use"])["l"]) if op_place(r[3]["rv"]["use"]) is not None else None
                            if o and o[0] == "call" and callee_method(o[2]) == "get_parent":
                                forms.add(norm(b.canon(o[2]["args"][0], env={})))
                            else:
                                forms.add("?")
                        else:
                            forms.add("?")
                    okn = "?" not in forms and any("arg2" in f for f in forms) and any("$0" in f and "arg2" not in f for f in forms) and len(forms) == 2
                want = "each proper ancestor in turn (parent of the node, then parent of that)"
            ctx.check(okn, "C20-A", "%s:node#%d" % (vn, n), t["span"], b.id, "continues on %s; expected %s" % (a1, want))
    ctx.floor("C20-A", "continuations of do_matches", n, 7)
    # the empty remainder matches
    okc = False
    for a in b.reachable():
        if b.term(a)["k"] != "switch" or not b.dominates(a, disp):
            continue
        neg, src = b.switch_source(a)
        if src[0] == "discr" and norm(b.canon(src[1])).endswith(("first(&arg1)", "split_first(&arg1)")):
            for v, tb in b.term(a)["targets"]:
                if v == 0:
                    reg = b.reach_from(tb, avoid=[a])
                    vals = [(op_const((st.get("rv") or {}).get("use") or {}) or {}).get("v") for x in reg for st in b.stmts(x)
                            if st["k"] == "assign" and st["lhs"]["l"] == 0 and not st["lhs"]["p"]]
                    okc = bool(vals) and all(str(v).replace("const ", "") == "true" for v in vals) and not _self_calls(b, reg)
                    dbg = vals
    ctx.check(okc, "C20-A", "empty-remainder-matches", b.span, b.id, "comps.first() == None must return true")
    m = F.one("css::Selector::matches")
    cs = m.calls(lambda cd, t: cd == b.id)
    okc = len(cs) == 1 and norm(m.canon(cs[0][1]["args"][0])).endswith("deref(&self.components)") and norm(m.canon(cs[0][1]["args"][1])) in ("arg2", "&arg2")
    ctx.check(okc, "C20-A", "matches=do_matches(all components, element)", m.span, m.id,
              str([[norm(m.canon(a)) for a in t["args"]] for _bb, t in cs]))
    # ... and nothing but that: the call is made on every path and its result is the result (no pre-filter in front of it)
    if cs:
        cbb, ct = cs[0]
        uncond = not [1 for (a, s2) in m.cdeps_transitive(cbb)] and all(m.dominates(cbb, r) for r in m.reachable() if m.term(r)["k"] == "return")
        rets = [norm(m.canon(st["rv"]["use"])) if "use" in (st.get("rv") or {}) else "?" for x in m.reachable() for st in m.stmts(x)
                if st["k"] == "assign" and st["lhs"]["l"] == 0 and not st["lhs"]["p"]]
        direct = ct["dest"]["l"] == 0 and not ct["dest"]["p"] and not rets
        ctx.check(uncond and (direct or all("do_matches(" in r for r in rets)), "C20-A", "matches:is-exactly-do_matches", m.span, m.id,
                  "Selector::matches decides something besides do_matches (a fast path, a pre-filter, a post-condition): %s"
                  % (rets or "conditional call"))


def _eqs(b, region):
    return [(x, b.term(x)) for x in sorted(region) if b.term(x)["k"] == "call" and callee_method(b.term(x)) in ("eq", "ne")]


def _promoted_text(b, canon_arg):
    m = re.search(r"promoted\[(\d+)\]", canon_arg)
    return "".join(b.promoted_consts(int(m.group(1)))) if m else ""


def rule_b(ctx):
    F = ctx.facts
    b, names, disp, arms = _arms(F)
    nd = F.adt("NodeData")
    ev = [v["discr"] for v in nd["variants"] if v["name"] == "Element"][0]
    for vn, attr in (("Class", "class"), ("Hash", "id")):
        tb, region = arms[vn]
        eqs = []
        args = []
        proms = {}
        for body, blocks, user in _arm_bodies(F, b, region):
            for x, t in _calls_in(body, blocks, lambda tt: callee_method(tt) in ("eq", "ne")):
                eqs.append((x, t))
                cargs = [norm(body.canon(a)) for a in t["args"]]
                # a token handed in by `split_whitespace().any(|cls| ..)` is the closure's parameter
                if user is not None and callee_method(user[1]) in ("any", "find", "position", "all") and \
                        any(a_[0] == "call" and str(a_[1]).endswith("split_whitespace") for a_ in user[0].atoms(user[1]["args"][0])):
                    cargs = [("(<std::str::SplitWhitespace<'a> as std::iter::Iterator>::next(&mut $0) as Some)" if c in ("arg2", "&arg2", "&&arg2") else c) for c in cargs]
                args.append([flat(c) for c in cargs])
                for c in cargs:
                    proms[flat(c)] = _promoted_text(body, c)
        name_tests = [a for a in args if any(".name.local" in x for x in a)]
        ok_name = len(name_tests) == 1 and ('"%s"' % attr) in "".join(proms.get(x, "") for x in name_tests[0])
        ctx.check(ok_name and all(callee_method(t) == "eq" for _x, t in eqs), "C20-B", "%s:attribute-named-%s" % (vn, attr), b.term(tb)["span"], b.id,
                  "attribute name comparisons: %s" % name_tests)
        val_tests = [a for a in args if any("as %s)" % vn in x for x in a)]
        okv = len(val_tests) == 1
        if okv:
            other = [x for x in val_tests[0] if "as %s)" % vn not in x][0]
            if vn == "Class":
                okv = "SplitWhitespace" in other and "next(" in other
            else:
                okv = "Tendril" in other and ".value" in other or "deref(&(" in other
        ctx.check(okv, "C20-B", "%s:value-equality" % vn, b.term(tb)["span"], b.id, "value comparisons: %s" % val_tests)
        if vn == "Class":
            sw = []
            for body, blocks, user in _arm_bodies(F, b, region):
                sw += [(body, tt) for _x, tt in _calls_in(body, blocks, lambda tt: callee_method(tt) == "split_whitespace")]
            ctx.check(len(sw) == 1 and ".value" in norm(sw[0][0].canon(sw[0][1]["args"][0])), "C20-B", "Class:tokens-of-the-attribute-value",
                      b.term(tb)["span"], b.id, "")
    tb, region = arms["Element"]
    eqs = _eqs(b, region)
    args = [[norm(b.canon(a)) for a in t["args"]] for _x, t in eqs]
    okc = len(args) == 1 and any("as Element)" in x for x in args[0]) and any("expanded(" in x or ".local" in x for x in args[0])
    ctx.check(okc and all(callee_method(t) == "eq" for _x, t in eqs), "C20-B", "Element:local-name-equality", b.term(tb)["span"], b.id, str(args))
    # only Element nodes: every continuation of the three arms is under the Element variant of the node's data
    for vn in ("Class", "Hash", "Element"):
        tb, region = arms[vn]
        for x, t in _self_calls(b, region):
            under = False
            for a in b.reachable():
                if b.term(a)["k"] != "switch" or not b.dominates(a, x):
                    continue
                neg, src = b.switch_source(a)
                if src[0] == "discr" and "NodeData" in str(src[1].get("ty", "")):
                    via = [s for s in b.succ(a) if x in b.reach_from(s, avoid=[a]) or s == x]
                    vals = sorted(v for v, tb2 in b.term(a)["targets"] if tb2 in via)
                    if vals == [ev] and b.term(a)["otherwise"] not in via:
                        under = True
                    else:
                        # `let hit = match node.data { Element{..} => .., _ => false }; hit && do_matches(..)`: the other
                        # kinds assign a constant `false` that decides the later test
                        others = [s2 for s2 in b.succ(a) if s2 not in [tb2 for v, tb2 in b.term(a)["targets"] if v == ev] and not b.is_cleanup(s2)]
                        if others and all(x not in reach_with_bool_consts(b, s2) for s2 in others):
                            under = True
            ctx.check(under, "C20-B", "%s:only-element-nodes" % vn, t["span"], b.id,
                      "a %s step can match a node that is not an element" % vn)


def rule_c(ctx):
    F = ctx.facts
    da = F.one("css::StyleData::do_add_css")
    # the sink: `rules.push(Ruleset{..})` inside the selector loop, or `rules.extend(selectors.into_iter().map(|s| Ruleset{..}))`
    def is_sink(cd, t):
        return callee_method(t) in ("push", "extend") and "Ruleset" in " ".join((t.get("callee") or {}).get("targs") or [])
    pushes = da.calls(is_sink)
    if ctx.check(len(pushes) == 1, "C20-C", "do_add_css:one-ruleset-push", da.span, da.id, "%d pushes" % len(pushes)):
        pbb, pt = pushes[0]
        lits = [(b2, x, st) for b2 in [da] + [c2 for _x, c2 in transitive_closures(F, da)] for x in b2.reachable() for st in b2.stmts(x)
                if (st.get("rv") or {}).get("agg") == "adt" and ends((st.get("rv") or {}).get("adt"), "Ruleset")]
        okc = len(lits) == 1
        if okc:
            lb, lx, lst = lits[0]
            rv = lst["rv"]
            sel = norm(lb.canon(rv["ops"][rv["fields"].index("selector")]))
            sty = norm(lb.canon(rv["ops"][rv["fields"].index("styles")]))
            if lb is da:
                okc = callee_method(pt) == "push" and "next(" in sel and "IntoIter" in sel
            else:
                # the closure maps each selector of the list: it is the argument of Iterator::map over rule.selectors'
                # into_iter, the map is what `extend` consumes, the literal is its result on every path
                arg = norm(da.canon(pt["args"][1]))
                okc = callee_method(pt) == "extend" and sel in ("arg2", "self") and arg.startswith("Iterator::map(") and \
                    "into_iter(" in arg and ".selectors)" in arg and \
                    not any(lb.term(x)["k"] == "switch" for x in lb.reachable())
            okc = okc and "clone(" in sty and "styles_from_properties" in sty
            ctx.check(okc, "C20-C", "do_add_css:ruleset=(selector of the list, the rule's declarations)", lst["span"], lb.id,
                      "selector %s, styles %s" % (sel[:90], sty[:90]))
        else:
            ctx.violation("C20-C", "do_add_css:ruleset=(selector of the list, the rule's declarations)", da.span, da.id,
                          "%d Ruleset constructions" % len(lits))
        # no selector of the list is skipped: the selector loop is a plain into_iter, the push is on every path of its body
        bad = [callee_method(t) for _bb, t in da.calls() if callee_method(t) in ("skip", "take", "filter", "filter_map", "step_by", "rev", "nth", "last", "find",
                                                                                  "skip_while", "take_while", "map_while", "flat_map")]
        ctx.check(not bad, "C20-C", "do_add_css:every-selector-of-the-list", da.span, da.id, "calls %s" % bad)
        conds = []
        for (a, s) in da.cdeps_transitive(pbb):
            truth, src = edge_is_true(da, a, s)
            if src is None:
                continue
            if src[0] == "discr":
                continue  # loop iteration (next() is Some) / the parse result
            if src[0] == "call" and callee_method(src[1]) == "is_empty":
                continue  # rules without supported declarations add nothing
            conds.append("%s" % (src[0],))
        ctx.check(not conds, "C20-C", "do_add_css:push-depends-only-on-the-list", pt["span"], da.id, "further conditions: %s" % conds)
    cs = F.one("css::StyleData::computed_style")
    mc = cs.calls(lambda cd, t: ends(cd, "css::Selector::matches"))
    if ctx.check(len(mc) == 1, "C20-C", "computed_style:one-matches-call", cs.span, cs.id, ""):
        mbb, mt = mc[0]
        a0, a1 = norm(cs.canon(mt["args"][0])), norm(cs.canon(mt["args"][1]))
        ctx.check(a0.endswith(".selector") and a1 in ("arg3", "&arg3"), "C20-C", "computed_style:rule.selector.matches(element)", mt["span"], cs.id,
                  "matches(%s, %s)" % (a0[-60:], a1))
        # every rule set is tested: no path through the rule loop's body skips the matches call (a rule that matches but is
        # not looked at loses its declarations — and its specificity — to the cascade)
        nb = None
        for bb2, t2 in cs.calls(lambda cd, t2: callee_method(t2) == "next"):
            if cs.dominates(bb2, mbb) and (nb is None or cs.dominates(nb, bb2)):
                nb = bb2
        from .C06 import _some_target
        some = _some_target(cs, nb) if nb is not None else None
        ctx.check(some is not None and nb not in cs.reach_from(some, avoid=[mbb]), "C20-C", "computed_style:every-rule-set-is-tested", mt["span"], cs.id,
                  "a path through the rule loop skips selector.matches(): a matching rule can be passed over (e.g. as a "
                  "'duplicate' of its neighbour), so its declarations and its specificity never reach the cascade")
        cut = edges_where(cs, lambda truth, src, a, s: truth is True and src is not None and src[0] == "call" and src[1] is mt)
        merges = [(bb, t) for bb, t in cs.calls(lambda cd, t: ends(cd, "StyleData::merge_computed_style"))
                  if "rule" in "" or "selector" in norm(cs.canon(t["args"][3])) or "specificity(" in norm(cs.canon(t["args"][3]))]
        ctx.floor("C20-C", "merges of sheet rules in computed_style", len(merges), 1)
        for bb, t in merges:
            ctx.check(unreachable_without_edges(cs, bb, cut), "C20-C", "computed_style:rule-applies-iff-selector-matches", t["span"], cs.id,
                      "a sheet rule's declarations are merged without its selector having matched")


def rule_f(ctx):
    """`-2n+5` must not become `2n+5`: a structural necessary condition of "exactly the elements CSS designates" that
    lives in the parser (the matcher's arithmetic on a and b stays undecided)."""
    import re
    F = ctx.facts
    b = F.one("css::parser::parse_nth_child_args")
    n = 0
    for _x, cb in transitive_closures(F, b):
        for x in sorted(cb.reachable()):
            for st in cb.stmts(x):
                rv = st.get("rv") or {}
                if not (rv.get("agg") == "tuple" and len(rv.get("ops", [])) == 2 and all("i32" in str((op_place(o) or op_const(o) or {}).get("ty", "i32")) for o in rv["ops"])):
                    continue
                for which, o in zip("ab", rv["ops"]):
                    at = cb.atoms(o)
                    if not has_call(at, "from_str"):
                        continue  # a constant (even / odd, the absent coefficient)
                    n += 1
                    mul = any(a[0] == "bin" and str(a[1]).startswith("Mul") for a in at)
                    sgn = has_call(at, "Sign::val")
                    c = cb.canon(o, depth=24)
                    paired = True
                    if "$" not in c:
                        digits = re.findall(r"from_str\(&(?:<T>::unwrap_or\()?arg2\.(\d+)", c)
                        signs = re.findall(r"Sign::val\(&arg2\.(\d+)\)", c)
                        paired = len(digits) == 1 and len(signs) == 1 and int(signs[0]) == int(digits[0]) - 1
                    ctx.check(mul and sgn and paired, "C20-F", "nth-child:%s=digits*sign@%s" % (which, fn_key(cb)), st["span"], cb.id,
                              "coefficient %s of an+b is read from digits but is not (on every path) the parsed number times "
                              "Sign::val of the sign parsed just before it: a negative step or offset would lose its sign; "
                              "value: %s" % (which, c[:200]))
    ctx.floor("C20-F", "coefficients of an+b read from digits", n, 4)


def rule_d(ctx):
    F = ctx.facts
    b, names, disp, arms = _arms(F)
    tb, region = arms["NthChild"]
    ms = [(x, b.term(x)) for x in sorted(region) if b.term(x)["k"] == "call" and ends(callee_def(b.term(x)), "css::Selector::matches")]
    if not ctx.check(len(ms) == 1, "C20-D", "NthChild:inner-selector-tested-once-per-sibling", b.term(tb)["span"], b.id, "%d calls" % len(ms)):
        return
    mbb, mt = ms[0]
    a0, a1 = norm(b.canon(mt["args"][0])), norm(b.canon(mt["args"][1]))
    ctx.check("as NthChild).sel" in a0 and "next(" in a1, "C20-D", "NthChild:sel.matches(sibling)", mt["span"], b.id, "matches(%s, %s)" % (a0[-50:], a1[-70:]))
    # the sibling loop iterates the parent's children; only Element siblings are considered
    under_elem = False
    nd = F.adt("NodeData")
    ev = [v["discr"] for v in nd["variants"] if v["name"] == "Element"][0]
    for a in b.reachable():
        if b.term(a)["k"] == "switch" and b.dominates(a, mbb):
            neg, src = b.switch_source(a)
            if src[0] == "discr" and "NodeData" in str(src[1].get("ty", "")):
                via = [s for s in b.succ(a) if mbb in b.reach_from(s, avoid=[a]) or s == mbb]
                vals = sorted(v for v, t2 in b.term(a)["targets"] if t2 in via)
                if vals == [ev] and b.term(a)["otherwise"] not in via:
                    under_elem = True
    ctx.check(under_elem, "C20-D", "NthChild:only-element-siblings", mt["span"], b.id, "")
    # the counter is incremented exactly on the matching edge, and the walk stops at the element itself (ptr_eq)
    incs = []
    for x in sorted(region):
        for st in b.stmts(x):
            if st["k"] == "assign" and "use" in (st.get("rv") or {}) and not st["lhs"]["p"]:
                env = {}
                l_c = norm(b.canon(st["lhs"], env=env))
                r_c = norm(b.canon(st["rv"]["use"], env=env))
                if r_c == "(%s + 1_i64)" % l_c:
                    incs.append((x, st))
    cut = edges_where(b, lambda truth, src, a, s: truth is True and src is not None and src[0] == "call" and src[1] is mt)
    ctx.check(len(incs) == 1 and unreachable_without_edges(b, incs[0][0], cut), "C20-D", "NthChild:index-counts-matching-siblings",
              incs[0][1]["span"] if incs else b.term(tb)["span"], b.id, "%d increments" % len(incs))
    pe = [(x, b.term(x)) for x in sorted(region) if b.term(x)["k"] == "call" and callee_method(b.term(x)) == "ptr_eq"]
    ctx.check(len(pe) >= 2 and all("arg2" in norm(b.canon(t["args"][1])) or "arg2" in norm(b.canon(t["args"][0])) for _x, t in pe), "C20-D",
              "NthChild:walk-stops-at-the-element", b.term(tb)["span"], b.id, "%d ptr_eq tests" % len(pe))


def rule_e(ctx):
    """get_parent() is what `>` / descendant / :nth-child rely on.  In src/markup5ever_rcdom.rs (vendored into this
    crate) reparent_children is the one operation that moves a whole child list: the loop that re-points each
    child's parent link must run over the children while they are still in the source list."""
    F = ctx.facts
    b = F.one("<markup5ever_rcdom::RcDom as html5ever::tree_builder::TreeSink>::reparent_children")
    sets = b.calls(lambda cd, t: callee_method(t) in ("replace", "set") and "Cell" in (cd or ""))
    takes = b.calls(lambda cd, t: ends(cd, "std::mem::take"))
    nexts = b.calls(lambda cd, t: callee_method(t) == "next")
    okc = len(sets) == 1 and len(takes) == 1 and len(nexts) == 1
    if ctx.check(okc, "C20-E", "reparent_children:shape", b.span, b.id, "parent updates %d, take %d, loops %d" % (len(sets), len(takes), len(nexts))):
        sbb, st = sets[0]
        at = b.atoms(st["args"][1])
        ctx.check(("arg", 3) in at and any(a[0] == "call" and str(a[1]).endswith("downgrade") for a in at), "C20-E",
                  "reparent_children:parent:=new_parent", st["span"], b.id, "")
        # the parent update is inside the loop; the loop does not run after the list was taken
        nbb = nexts[0][0]
        inloop = sbb in b.reach_from(nbb) and nbb in b.reach_from(sbb)
        after_take = nbb in b.reach_from(takes[0][0])
        ctx.check(inloop and not after_take, "C20-E", "reparent_children:links-updated-before-the-list-is-emptied", takes[0][1]["span"], b.id,
                  "the children are taken out of the source node before (or while) their parent links are updated: the loop would "
                  "see an empty list and the moved children keep pointing at the old parent")
    # append / append_before_sibling set the parent of the inserted child
    for fn in ("markup5ever_rcdom::append", "markup5ever_rcdom::append_to_existing_text"):
        pass
    ap = F.find("markup5ever_rcdom::append")
    if ap:
        a = ap[0]
        okp = bool(a.calls(lambda cd, t: callee_method(t) in ("replace", "set") and "Cell" in (cd or ""))) and \
            bool(a.calls(lambda cd, t: callee_method(t) == "push"))
        ctx.check(okp, "C20-E", "append:pushes-child-and-sets-its-parent", a.span, a.id, "")
