"""C01 — rendering is total: any bytes, width and configuration; never panics or hangs."""
import os
import subprocess

from ..facts import AnchorMissing, callee_def, op_place, op_const, is_bare, VERIF, REPO
from ..util import (ends, site, fn_key, callee_method, require, has_call, has_field, find_dispatch, closure_bodies_created_in,
                    transitive_closures, direct_field, direct_place, origin, edge_is_true, edges_where,
                    unreachable_without_edges)
from .. import panics, loops, options
from ..mag import Mag, show, le_alloc
from ..widths import norm

EXPLANATION = (
    "Static, partial proof of totality. (A) A complete inventory of panic-capable operations on the render routes "
    "(every body reachable from the configuration/render API, html5ever's TreeSink callbacks and the relevant drop/"
    "clone glue): MIR Assert terminators (overflow, division, bounds), calls to panicking std APIs (unwrap/expect, "
    "indexing and slicing, Vec::remove/insert, RefCell borrows, integer arithmetic through operator traits, "
    "Iterator::sum, str::repeat / vec![x; n]) and diverging calls (panic!, unreachable!, unimplemented!, assert "
    "failures). Each site is discharged by D1 magnitude classes (an interprocedural fixpoint classifying every "
    "integer as Small / memory-bounded / caller-supplied width / parsed from the document), D2 a dominating guard, "
    "the shared-borrow rule for RefCell, or D3 a reviewed row of tables/panic_sites.txt naming the invariant it leans "
    "on; anything else is a violation. Site keys are canonical (independent of variable names) and include the guards "
    "in force at the site (the conditions it is control dependent on, also at a closure's creation site), so a reviewed "
    "row does not survive a change of the guard it argued from; rows carry the number of sites they cover; magnitude "
    "classes follow what closures passed to iterator adaptors return; interval bounds (masks, shifts, narrowing casts) "
    "discharge small-range arithmetic. (B) Every call-graph cycle has a depth driver that is not the document depth "
    "(self-calls on strict sub-slices, memoised estimates); the tree walks go through the iterative "
    "tree_map_reduce; Node has an iterative Drop. (C) Every loop is driven by a finite iterator or passes a progress "
    "anchor on every cycle (tables/loops.txt). (D) Only TooNarrow can leave a render route: the other Error "
    "constructions are enumerated and justified.")
NOT_DECIDED = ("wall-clock time (html5ever itself is quadratic in nesting depth); stack bytes of bounded-depth recursion "
               "(selector length, drop glue and derived Clone of the render tree: assumption A3)")
ASSUMPTIONS = [
    "A1: no memory-bounded quantity (lengths, counts, display widths and sums of them) exceeds 2^62",
    "A2: std, html5ever, tendril, unicode-width and nom honour their documented contracts; html5ever yields table "
    "sections, rows and cells only inside a table element",
    "A3: recursion bounded by selector length / render-tree drop glue fits the stack for the property's sizes",
    "A4: user TextDecorator implementations are total and deterministic, and make_subblock_decorator returns an "
    "equivalent decorator",
]


def check(ctx):
    ctx.rule("C01-A", "every panic-capable operation on a render route is discharged by a magnitude class, a dominating "
             "guard or a reviewed row naming the invariant it leans on")
    ctx.rule("C01-B", "no recursion proportional to document depth: every call-graph cycle has a non-document depth driver")
    ctx.rule("C01-C", "every loop is driven by a finite iterator or passes a progress anchor on every cycle")
    ctx.rule("C01-D", "only the too-narrow error can leave a render route")
    common(ctx, "C01", None)


def common(ctx, P, body_filter):
    A, B, C, D = P + "-A", P + "-B", P + "-C", P + "-D"
    ctx.guard(A, rule_a, A, body_filter)
    ctx.guard(B, rule_b, B, body_filter)
    ctx.guard(C, rule_c, C, body_filter)
    if P == "C01":
        ctx.guard(D, rule_d, D)


_cache = {}


def analysis(F):
    k = id(F)
    if k not in _cache:
        roots = panics.render_roots(F)
        reach = F.reachable_from(roots)
        mag = Mag(F)
        _cache.clear()
        _cache[k] = (roots, reach, mag)
    return _cache[k]


def rule_a(ctx, rid, body_filter):
    F = ctx.facts
    roots, reach, mag = analysis(F)
    ctx.floor(rid, "render roots", len(roots), 40)
    table = panics.load_table()
    okb, render_phase, muts = panics.shared_borrow_rule(F, roots)
    ctx.check(okb, rid, "shared-borrow-rule:no-borrow_mut-while-rendering", "", "",
              "a RefCell::borrow_mut is reachable from the rendering entry points: %s" % muts[:3])
    inv = panics.inventory(F, reach)
    n = 0
    used = set()
    counts = {"D1": 0, "D2": 0, "borrow": 0, "table": 0}
    seen_per_key = {}
    for s in inv:
        if body_filter and not body_filter(s.b):
            continue
        n += 1
        d = panics.discharge(F, mag, s)
        key = s.key
        if d:
            counts[d[0]] += 1
            ctx.ok(rid, key, s.span, s.b.id, "%s — %s: %s" % (s.text.split(":")[-1][:100], d[0], d[1]), how="auto")
            continue
        if s.kind == "borrow" and okb and s.b.id in render_phase:
            counts["borrow"] += 1
            ctx.ok(rid, key, s.span, s.b.id, "shared borrow while rendering: no mutable borrow of a DOM cell is reachable "
                   "from the rendering entry points", how="auto")
            continue
        row = table.get(key)
        if not row and table.get(s.key_nog):
            key = s.key_nog
            row = table.get(key)
        if row:
            seen_per_key[key] = seen_per_key.get(key, 0) + 1
            if seen_per_key[key] <= row[1]:
                used.add(key)
                counts["table"] += 1
                ctx.ok(rid, key if seen_per_key[key] == 1 else "%s/%d" % (key, seen_per_key[key]), s.span, s.b.id, row[0], how="table")
                continue
            ctx.violation(rid, key + "/%d" % seen_per_key[key], s.span, s.b.id,
                          "%s may panic here: %s — the reviewed row for this key covers %d site(s) in this function and this is "
                          "one more (a new site of the same shape needs its own review)" % (s.desc, s.text.split(":", 1)[-1][-160:], row[1]))
            continue
        cls = ""
        if s.term["k"] == "assert":
            cls = " operand classes: " + "/".join(show(mag.cls_op(s.b, o)) for o in s.term["ops"])
        elif s.term.get("args"):
            cls = " argument classes: " + "/".join(show(mag.cls_op(s.b, o)) for o in s.term["args"])
        ctx.violation(rid, key, s.span, s.b.id,
                      "%s may panic here: %s — nothing discharges it (no magnitude-class bound, no dominating guard, no "
                      "reviewed row).%s" % (s.desc, s.text.split(":", 1)[-1][-160:], cls))
    ctx.stats["panic_sites"] = n
    ctx.stats["discharge"] = counts
    ctx.floor(rid, "panic-capable sites on the routes", n, 200 if body_filter is None else 60)
    if body_filter is None:
        for k in table:
            if k not in used:
                ctx.info(rid, "stale-table-row:%s" % k[:120], "", "", "table row no longer matches a site in this configuration")
    # --- side conditions the reviewed rows lean on
    if body_filter is None:
        side_conditions(ctx, rid)


def side_conditions(ctx, rid):
    F = ctx.facts
    # S1: RenderTable is constructed only by RenderTable::new
    ctors = [(b, st) for (b, st, ops) in options.literal_inits(F, "RenderTable") if ends(st["rv"].get("adt"), "RenderTable")]
    bad = [b.id for b, st in ctors if not ends(b.id, "RenderTable::new")]
    ctx.check(not bad and ctors, rid, "side:RenderTable-only-from-new", "", "", "other constructors: %s" % bad)
    # S2: the remapped colspan is stored as max(_, 1)
    rt = F.one("RenderTable::new")
    okc = False
    for (b, bb, where, acc) in options.writes(F, "RenderTableCell", "colspan"):
        if b.id == rt.id:
            st = b.stmts(bb)[where[1]]
            o = origin(b, st["rv"].get("use")) if "use" in st["rv"] else None
            if o and o[0] == "call" and callee_method(o[1]) == "max" and any((op_const(a) or {}).get("int") == 1 for a in o[1]["args"]):
                okc = True
    ctx.check(okc, rid, "side:remapped-colspan>=1", rt.span, rt.id, "RenderTable::new must store colspan as (..).max(1)")
    # S3 (css): parse_string_token has one caller
    pst = F.find("css::parser::parse_string_token")
    if pst:
        callers = F.callers_of(pst[0].id)
        ctx.check(callers == ["css::parser::parse_token"], rid, "side:parse_string_token-sole-caller", pst[0].span, pst[0].id, str(callers))
    # S4: err_out is io::sink() on every route
    dt = F.one("dom_to_render_tree_with_context")
    cs = F.call_sites(lambda cd, t: cd == dt.id)
    okc = bool(cs)
    for (b, bb, t) in cs:
        o = origin(b, t["args"][1])
        okc = okc and o is not None and o[0] == "call" and ends(callee_def(o[1]), "std::io::sink")
    ctx.check(okc, rid, "side:err_out-is-io::sink", dt.span, dt.id, "")
    # S5: append_columns_with_borders is called only when some column is non-empty
    ac = F.one("<render::text_renderer::SubRenderer<D> as render::Renderer>::append_columns_with_borders")
    cs = F.call_sites(lambda cd, t: cd == ac.id)
    okc = len(cs) == 1 and cs[0][0].root == "render_table_row"
    if okc:
        b, bb, t = cs[0]
        # `any(|c| !c.empty())` true, or equivalently `all(|c| c.empty())` false
        cut = edges_where(b, lambda truth, src, a, s: src and src[0] == "call" and
                          ((truth is True and callee_method(src[1]) == "any") or (truth is False and callee_method(src[1]) == "all")))
        okc = unreachable_without_edges(b, bb, cut)
        if okc:
            # the predicate looks at Renderer::empty(), negated for `any`, plain for `all`
            okc = False
            for _cbb, _i, pc, _o, _f in closure_bodies_created_in(F, b):
                neg, psrc = pc.trace_value({"c": {"l": 0, "p": []}})
                if psrc[0] == "call" and ends(callee_def(psrc[1]), "render::Renderer>::empty"):
                    okc = True
    ctx.check(okc, rid, "side:append_columns-only-with-a-nonempty-column", ac.span, ac.id, "")
    # S11: the render walk never answers Nothing.  tree_map_reduce runs a parent's postfn only for children that produced a
    # result; the list arms push a sub-renderer in prefn and pop it in postfn, so a child answering Nothing would leave a
    # renderer on the stack and trip the `subrender.len() == 1` assertion of TextRenderer::into_inner.
    drn_ = F.one("do_render_node")
    nothings = [st["span"] for b2 in [drn_] + [c for _x, c in transitive_closures(F, drn_)] for x in b2.reachable() for st in b2.stmts(x)
                if (st.get("rv") or {}).get("variant") == "Nothing" and ends((st.get("rv") or {}).get("adt"), "TreeMapResult")]
    ctx.check(not nothings, rid, "side:render-walk-never-answers-Nothing", nothings[0] if nothings else drn_.span, drn_.id,
              "do_render_node returns TreeMapResult::Nothing (%s): the parent's postfn is skipped for such a child, the sub-renderer "
              "its prefn pushed stays on the stack and into_inner's assertion fails" % nothings[:2])
    # S10 (INV-REMAP / INV-SBS, see tables/mag_invariants.txt and the SBS rows): num_cells is read only by
    # RenderTable::new, after the remap loop; render_table_row (side-by-side) is chosen exactly when !vertical
    nc = F.one("RenderTableRow::num_cells")
    callers = F.callers_of(nc.id)
    # (a use = a direct call, the creation of a closure that calls it, or a reference to it as a function value)
    refs = []
    for b2 in F.bodies.values():
        for bb in b2.reachable():
            t2 = b2.term(bb)
            ops2 = list(t2.get("args") or []) + [o for st in b2.stmts(bb) for o in ((st.get("rv") or {}).get("ops") or []) + [((st.get("rv") or {}).get("use"))] if o]
            for o in ops2:
                k = op_const(o) if isinstance(o, dict) else None
                if k and "fn" in k and (k["fn"].get("resolved") or k["fn"].get("def")) == nc.id:
                    refs.append((b2.id, bb))
    users = set(callers) | {bid for bid, _bb in refs}
    okc = bool(users) and all((F.bodies[c].root if F.bodies[c].kind == "Closure" else c) == rt.id for c in users)
    if okc:
        stores = {bb for (b2, bb, where, acc) in options.writes(F, "RenderTableCell", "colspan") if b2.id == rt.id}
        uses = [cbb for (cbb, _i, cdef, _o, _f) in rt.closures_created() if cdef in users] + \
            [bb for bb, t2 in rt.calls(lambda cd, t2: cd == nc.id)] + [bb for bid, bb in refs if bid == rt.id]
        # the remap is complete before any use: no colspan store is reachable from a use
        okc = bool(stores) and bool(uses) and not any(s in rt.reach_from(u) for u in uses for s in stores)
    ctx.check(okc, rid, "side:num_cells-only-after-the-remap", nc.span, nc.id, "callers: %s" % callers)
    drnb = F.one("do_render_node")
    rr = F.one("render_table_row")
    rv_ = F.one("render_table_row_vert")
    okc = False
    for a in drnb.reachable():
        if drnb.term(a)["k"] != "switch":
            continue
        truth_by_succ = {}
        for s in drnb.succ(a):
            tr, src = edge_is_true(drnb, a, s)
            if src and src[0] == "place" and any(isinstance(e, dict) and e.get("n") == "1" for e in src[1]["p"]) is False:
                pass
            truth_by_succ[s] = tr
        calls_true = {callee_def(drnb.term(x)) for s, tr in truth_by_succ.items() if tr is True for x in drnb.reach_from(s, avoid=[a])
                      if drnb.term(x)["k"] == "call" and callee_def(drnb.term(x)) in (rr.id, rv_.id)}
        calls_false = {callee_def(drnb.term(x)) for s, tr in truth_by_succ.items() if tr is False for x in drnb.reach_from(s, avoid=[a])
                       if drnb.term(x)["k"] == "call" and callee_def(drnb.term(x)) in (rr.id, rv_.id)}
        if calls_true == {rv_.id} and calls_false == {rr.id}:
            okc = True
    ctx.check(okc, rid, "side:side-by-side-row-renderer-iff-not-vertical", drnb.span, drnb.id,
              "the TableRow arm must choose render_table_row_vert exactly on the vertical flag")
    # S6: Header nodes are built only from h1..h6
    hs = []
    for b in F.bodies.values():
        if options.derived(b):
            continue
        for bb in b.reachable():
            for st in b.stmts(bb):
                rv = st.get("rv") or {}
                if rv.get("agg") == "adt" and rv.get("variant") == "Header" and ends(rv.get("adt"), "RenderNodeInfo"):
                    hs.append(b)
    ctx.check(bool(hs) and all(b.root == "process_dom_node" for b in hs), rid, "side:Header-only-from-h1..h6", "", "",
              "Header constructed in %s" % [b.id for b in hs])
    # S7: raw mode disables borders (so stacked rules at the full width are never allocated for huge widths)
    rm = F.one("config::Config::<D>::raw_mode")
    w = {}
    for (bb, where, pl, acc) in rm.all_places():
        if acc == "write" and pl["p"] and isinstance(pl["p"][-1], dict) and ends(pl["p"][-1].get("o"), "config::Config"):
            st = rm.stmts(bb)[where[1]]
            k = op_const(st["rv"].get("use")) if "use" in st["rv"] else None
            w[pl["p"][-1]["n"]] = k["v"] if k else "param"
    if not w:
        # struct-update form: `Self { raw, draw_borders: false, ..self }`
        for x in rm.reachable():
            for st in rm.stmts(x):
                rv = st.get("rv") or {}
                if st["k"] == "assign" and rv.get("agg") == "adt" and ends(rv.get("adt"), "config::Config"):
                    for fld, o in zip(rv["fields"], rv["ops"]):
                        k = op_const(o)
                        if k:
                            w[fld] = k["v"]
    ctx.check(w.get("draw_borders") == "false", rid, "side:raw_mode-disables-borders", rm.span, rm.id, str(w))
    # S9: INV-SHRINK's premise (the decrement in the shrink loop cannot underflow)
    from .. import widths as _w
    _w.rule_min_size_matches_shrink(ctx, rid)
    # S8: word strings are built only under `if let Some(width)`
    at = F.one("WrappedBlock::<T>::add_text")
    pcs = [(bb, t) for bb, t in at.calls(lambda cd, t: ends(cd, "TaggedLine::<T>::push_char"))
           if direct_field(at, t["args"][0]) == ("render::text_renderer::WrappedBlock", "word")]
    okc = len(pcs) == 1
    if okc:
        bb, t = pcs[0]
        good = False
        for a in at.reachable():
            if at.term(a)["k"] == "switch" and at.dominates(a, bb):
                neg, src = at.switch_source(a)
                if src[0] == "discr":
                    sd = at.single_def(src[1]["l"])
                    if sd and sd[0] == "call" and ends(callee_def(sd[2]), "UnicodeWidthChar>::width", "UnicodeWidthChar::width"):
                        some = [tb for v, tb in at.term(a)["targets"] if v == 1]
                        if some and at.dominates(some[0], bb):
                            good = True
        okc = good
    ctx.check(okc, rid, "side:word-chars-have-a-width", at.span, at.id, "")


# ---------------------------------------------------------------------------------------------
# B: recursion
# ---------------------------------------------------------------------------------------------
def _callgraph_sccs(F, reach):
    cg = F.callgraph()
    return loops.sccs(reach, lambda v: [s for s in cg.get(v, ()) if s in reach])


REC_TABLE = {
    "css::Selector::specificity": ("constant", "recurses into the inner selector of :nth-child, which the parser always builds as the "
                                   "single-component selector `*` (depth 1)"),
}


def rule_b(ctx, rid, body_filter):
    F = ctx.facts
    roots, reach, mag = analysis(F)
    comps = _callgraph_sccs(F, reach)
    n = 0
    for comp in comps:
        names = sorted(comp)
        if body_filter and not any(body_filter(F.bodies[x]) for x in names):
            continue
        n += 1
        key = "cycle:" + "+".join(sorted({fn_key(F.bodies[x]) for x in names}))[:200]
        fns = [x for x in names if F.bodies[x].kind != "Closure"]
        if set(fns) <= {"css::Selector::do_matches", "css::Selector::matches"} and "css::Selector::do_matches" in fns:
            b = F.bodies["css::Selector::do_matches"]
            # the detour through Selector::matches is the :nth-child(.. of sel) test on the inner selector
            for bb, t in b.calls(lambda cd, t: ends(cd, "css::Selector::matches")):
                at = b.atoms(t["args"][0], through_calls=False)
                ctx.check(("field", "css::SelectorComponent::NthChild", "sel") in at, rid, "recursion:do_matches→matches:inner-selector",
                          t["span"], b.id, "Selector::matches is re-entered only for the inner selector of :nth-child (which the "
                          "parser always builds as `*`)", how="table")
            calls = b.calls(lambda cd, t: cd == b.id)
            drivers = set()
            for bb, t in calls:
                a0 = norm(b.expr(t["args"][0]))
                o = origin(b, t["args"][0])
                c0 = norm(b.canon(t["args"][0]))
                if o and o[0] == "call" and callee_method(o[1]) == "index" and "RangeFrom{1_usize}" in norm(b.expr(o[1]["args"][1])) \
                        and ("arg", 1) in b.atoms(o[1]["args"][0], through_calls=False):
                    drivers.add("selector-length")
                elif c0 in ("&(<impl [T]>::split_first(&arg1) as Some).1", "(<impl [T]>::split_first(&arg1) as Some).1",
                            "&(<impl [T]>::split_last(&arg1) as Some).1", "(<impl [T]>::split_last(&arg1) as Some).1"):
                    drivers.add("selector-length")  # `let (first, rest) = comps.split_first()`: rest is a strict sub-slice
                else:
                    drivers.add("same-selector(%s)" % a0[:40])
            if drivers == {"selector-length"}:
                ctx.violation(rid, "recursion:do_matches:selector-length", b.span, b.id,
                              "Selector::do_matches recurses once per selector component (every self-call passes &comps[1..]): "
                              "not document depth, but a stylesheet with tens of thousands of components still exhausts the stack")
            else:
                ctx.violation(rid, "recursion:do_matches:document-depth", b.span, b.id,
                              "a self-call of Selector::do_matches keeps the whole selector (%s): its depth follows the "
                              "ancestor chain of the document" % sorted(drivers))
            continue
        if any(ends(x, "RenderNode::calc_size_estimate") for x in fns):
            # memoised: depth 1 when every child was estimated first
            okc = _memo_check(ctx, rid, F)
            ctx.check(okc, rid, key, F.one("RenderNode::calc_size_estimate").span, "RenderNode::calc_size_estimate",
                      "calc_size_estimate ↔ its `recurse` closure: depth 1 because precalc_size_estimate (driven by the iterative "
                      "tree_map_reduce) estimates every child before its parent and the cache test comes first")
            continue
        row = None
        for f in fns:
            if f in REC_TABLE:
                row = REC_TABLE[f]
        if row:
            ctx.ok(rid, key, F.bodies[fns[0]].span, fns[0], "driver %s: %s" % row, how="table")
            continue
        if any("add_node_to_string" in x for x in fns):
            ctx.violation(rid, "recursion:add_node_to_string:document-depth", F.bodies[fns[0]].span, fns[0],
                          "RcDom::add_node_to_string recurses over the DOM (display: x-raw-dom of the css_ext feature): depth "
                          "follows the document")
            continue
        ctx.violation(rid, key, F.bodies[names[0]].span, names[0],
                      "call-graph cycle without a reviewed depth driver: %s" % names[:4])
    if body_filter is None:
        ctx.floor(rid, "call-graph cycles on the routes", n, 2)
        # tree walks go through tree_map_reduce, which is not recursive
        tmr = F.one("tree_map_reduce")
        ctx.check(not any(tmr.id in c for c in comps), rid, "tree_map_reduce:not-recursive", tmr.span, tmr.id, "")
        for fn in ("process_dom_node", "do_render_node", "precalc_size_estimate"):
            b = F.one(fn)
            callers = F.callers_of(b.id)
            okc = callers and all(F.bodies[c].kind == "Closure" and F.bodies[c].root in
                                  ("dom_to_render_tree_with_context", "render_tree_to_string") for c in callers)
            ctx.check(bool(okc), rid, "%s:only-via-tree_map_reduce" % fn, b.span, b.id, "callers: %s" % callers)
        # iterative Drop for DOM nodes
        nd = F.one("<markup5ever_rcdom::Node as std::ops::Drop>::drop")
        takes = nd.calls(lambda cd, t: ends(cd, "std::mem::take"))
        lps = loops.loops_of(nd)
        okc = len(lps) >= 1 and len(takes) >= 2 and all(
            any(bb in lp.blocks for lp in lps) for bb, t in takes[1:])
        ctx.check(okc, rid, "Node::drop:iterative-worklist", nd.span, nd.id,
                  "Node::drop must detach the children into a worklist inside a loop (otherwise dropping a deep DOM recurses)")
        # drop glue / derived Clone of the render tree recurse to render-tree depth: stated assumption
        ctx.ok(rid, "drop-glue:RenderNode", "", "RenderNode", "drop glue and derived Clone of RenderNode recurse to render-tree "
               "depth; measured: 20000-deep <div> nesting renders in a debug build (assumption A3)", how="table")


def _memo_check(ctx, rid, F):
    """B2: the variants whose children precalc schedules ⊇ the variants calc_size_estimate recurses into, and the
    cache test dominates the rest of calc_size_estimate"""
    info = F.adt("RenderNodeInfo")
    names = {v["discr"]: v["name"] for v in info["variants"]}
    pre = F.one("precalc_size_estimate")
    cse = F.one("RenderNode::calc_size_estimate")
    dpre = find_dispatch(pre, "RenderNodeInfo", 10)
    dcse = find_dispatch(cse, "RenderNodeInfo", 10)
    sched = set()
    for v, tb in pre.term(dpre)["targets"]:
        region = [x for x in pre.reachable() if pre.dominates(tb, x)]
        region = pre.reach_from(tb)
        for x in region:
            for st in pre.stmts(x):
                rv = st.get("rv") or {}
                if rv.get("variant") == "PendingChildren":
                    op = rv["ops"][rv["fields"].index("children")]
                    at = pre.atoms(op)
                    shrink = [a[1] for a in at if a[0] == "call" and a[1] and a[1].split("::")[-1] in
                              ("take", "skip", "filter", "step_by", "take_while", "skip_while", "filter_map", "truncate", "pop")]
                    payload = any(a[0] == "field" and a[1].startswith("RenderNodeInfo::%s" % names[v]) for a in at) or names[v] == "Table"
                    if payload and not shrink:
                        sched.add(names[v])
    rec = set()
    recurse_closures = [cb.id for _bb, _i, cb, _o, _f in closure_bodies_created_in(F, cse)
                        if cb.calls(lambda cd, t: cd == cse.id)]
    for v, tb in cse.term(dcse)["targets"]:
        region = cse.reach_from(tb)
        uses = False
        for x in region:
            t = cse.term(x)
            if t["k"] == "call":
                for a in t["args"]:
                    k = op_const(a)
                    pl = direct_place(cse, a) if op_place(a) is not None else None
                    if pl is not None:
                        sd = cse.single_def(pl["l"])
                        if sd and sd[0] == "stmt" and (sd[3].get("rv") or {}).get("agg") == "closure" and sd[3]["rv"]["def"] in recurse_closures:
                            uses = True
        if uses:
            rec.add(names[v])
    ok1 = rec <= sched and bool(rec)
    # cache test first
    gets = cse.calls(lambda cd, t: ends(cd, "std::cell::Cell::<T>::get"))
    ok2 = bool(gets) and cse.dominates(gets[0][0], dcse)
    if not ok1:
        ctx.violation(rid, "memo:scheduled⊇recursed", cse.span, cse.id,
                      "calc_size_estimate recurses into children of %s that precalc_size_estimate does not schedule first"
                      % sorted(rec - sched))
    return ok1 and ok2


# ---------------------------------------------------------------------------------------------
# C: loops
# ---------------------------------------------------------------------------------------------
def load_loop_table():
    rows = {}
    p = os.path.join(VERIF, "tables", "loops.txt")
    if os.path.exists(p):
        for line in open(p):
            line = line.rstrip("\n")
            if not line.strip() or line.startswith("#"):
                continue
            parts = [x.strip() for x in line.split(" :: ")]
            if len(parts) >= 3:
                rows.setdefault(parts[0], []).append((parts[1].split(" ; "), parts[2]))
    return rows


def _glob(pat, s):
    import re
    return re.fullmatch(".*".join(re.escape(x) for x in pat.split("*")), s) is not None


def anchor_blocks(b, lp, anchors):
    """blocks of the loop that contain one of the anchors.  Anchors are written over *canonical* expressions
    (Body.canon: parameters argN/self, multi-definition locals $k numbered per statement, single-definition locals
    expanded), `*` is a wildcard:
       call:<method>
       assign:<place>=<expression>[ @ lhs > 0 | @ nonzero-step]
       dec1:<place>                      the statement `place = place - 1`"""
    out = set()
    for x in lp.blocks:
        t = b.term(x)
        for a in anchors:
            if a.startswith("call:") and t["k"] == "call":
                if callee_method(t) == a[5:].strip():
                    out.add(x)
            elif a.startswith("assign:") or a.startswith("dec1:"):
                for st in b.stmts(x):
                    if st["k"] != "assign" or "use" not in st["rv"]:
                        continue
                    env = {}
                    lhs_c = norm(b.canon(st["lhs"], env=env))
                    rhs_c = norm(b.canon(st["rv"]["use"], env=env))
                    if a.startswith("dec1:"):
                        if _glob(a[5:].strip(), lhs_c) and rhs_c == "(%s - 1_usize)" % lhs_c:
                            out.add(x)
                        continue
                    spec, _, cond = a[7:].partition(" @ ")
                    lhs, _, rhs = spec.partition("=")
                    if _glob(lhs.strip(), lhs_c) and _glob(rhs.strip(), rhs_c):
                        if _anchor_condition(b, lp, x, st, cond):
                            out.add(x)
    return out


def _anchor_condition(b, lp, x, st, cond):
    """side conditions of an arithmetic anchor:
       ''              none
       'lhs > 0'       the anchor block is reachable only through the true edge of `<assigned place> > 0`
       'nonzero-step'  the second operand of the assigned `a - b` / `a + b` is provably >= 1 at the anchor"""
    cond = cond.strip()
    if not cond:
        return True
    if cond == "nonzero-step":
        pl = op_place(st["rv"]["use"])
        sd = b.single_def(pl["l"]) if pl is not None else None  # `tmp` or `tmp.0` of a checked operation
        if sd and sd[0] == "stmt":
            rv = sd[3].get("rv") or {}
            if rv.get("bin") in ("Sub", "Add", "SubWithOverflow", "AddWithOverflow") or "bin" in rv:
                return _nonzero_op(b, rv["b"], x, 4)
            # checked arithmetic: (a - b) is computed into a tuple first
            if "use" in rv:
                pl2 = op_place(rv["use"])
                sd2 = b.single_def(pl2["l"]) if pl2 is not None else None
                if sd2 and sd2[0] == "stmt" and "bin" in (sd2[3].get("rv") or {}):
                    return _nonzero_op(b, sd2[3]["rv"]["b"], x, 4)
        return False
    if cond == "lhs > 0":
        same = lambda op: (lambda p: p is not None and p["l"] == st["lhs"]["l"] and p["p"] == st["lhs"]["p"])(direct_place(b, op))  # noqa: E731
        zero = lambda op: (op_const(op) or {}).get("int") == 0  # noqa: E731
        cut = edges_where(b, lambda truth, src, a, s: src is not None and src[0] == "bin" and same(src[1]["a"]) and zero(src[1]["b"]) and (
            (src[1]["bin"] == "Gt" and truth is True) or (src[1]["bin"] == "Ne" and truth is True) or
            (src[1]["bin"] == "Eq" and truth is False)))
        return unreachable_without_edges(b, x, cut)
    return False


def _nonzero_def(b, rec, at_bb, depth):
    if depth <= 0:
        return False
    if rec[0] == "call":
        t = rec[2]
        m = callee_method(t)
        if m == "min":
            return all(_nonzero_op(b, a, rec[1], depth - 1) for a in t["args"])
        if m == "max":
            return any(_nonzero_op(b, a, rec[1], depth - 1) for a in t["args"])
        return False
    rv = rec[3].get("rv") or {}
    if "use" in rv:
        return _nonzero_op(b, rv["use"], rec[1], depth - 1)
    return False


def _nonzero_op(b, op, at_bb, depth):
    k = op_const(op)
    if k is not None:
        return (k.get("int") or 0) >= 1
    pl = op_place(op)
    ex = norm(b.expr(op))
    # guarded by a dominating `ex > 0`
    g = panics._cmp_guards(b, at_bb)
    if panics.implies_ge_const(g, ex, 1) or panics.implies_ne_zero(g, ex):
        return True
    if pl is not None and is_bare(pl):
        defs = [r for r in b.defs()[pl["l"]] if r[0] in ("stmt", "call")]
        if len(defs) == 1:
            return _nonzero_def(b, defs[0], at_bb, depth)
    return False


def rule_c(ctx, rid, body_filter):
    F = ctx.facts
    roots, reach, mag = analysis(F)
    table = load_loop_table()
    n = nauto = nman = 0
    for fid in sorted(reach):
        b = F.bodies[fid]
        if body_filter and not body_filter(b):
            continue
        lps = loops.loops_of(b)
        seen_keys = {}
        for lp in lps:
            n += 1
            it = loops.iterator_exit(b, lp)
            if it:
                nb, ty, recv = it
                key = "loop:%s:next(%s)" % (fn_key(b), ty.split("<")[0].split("::")[-1] + ("<" if "<" in ty else ""))
                if any(x in ty for x in loops.INFINITE_ITERS):
                    ctx.violation(rid, key, lp.span, b.id, "loop driven by an infinite iterator %s" % ty)
                    continue
                if ty.startswith("std::ops::Range<") or ty.startswith("std::ops::RangeInclusive<"):
                    # bound must be memory-bounded: the range value's class
                    o = b.term(nb)["args"][0]
                    c = mag.cls_op(b, o)
                    rng = norm(b.expr_top(o, expand_named=True))
                    if le_alloc(c):
                        nauto += 1
                        ctx.ok(rid, key + ":" + rng[-50:], lp.span, b.id, "finite range with a memory-bounded end (%s)" % show(c))
                    else:
                        rows = table.get("%s:range" % fn_key(b))
                        # a counted loop that does per iteration what a reviewed manual loop of this function does
                        # (e.g. pushes one element): same progress argument, same row
                        anch = None
                        for anchors, reason in (table.get(fn_key(b)) or ()):
                            ab = anchor_blocks(b, lp, anchors)
                            if ab and not _reaches_self(b, lp.header, lp.blocks - ab):
                                anch = reason
                        if rows:
                            nman += 1
                            ctx.ok(rid, key + ":" + rng[-50:], lp.span, b.id, rows[0][1], how="table")
                        elif anch:
                            nman += 1
                            ctx.ok(rid, key + ":" + rng[-50:], lp.span, b.id, anch, how="table")
                        else:
                            ctx.violation(rid, key + ":" + rng[-50:], lp.span, b.id,
                                          "range loop whose bound is of class %s: the iteration count is not memory-bounded" % show(c))
                    continue
                nauto += 1
                ctx.ok(rid, key, lp.span, b.id, "driven by the finite iterator %s" % ty[:80])
                continue
            rows = table.get(fn_key(b))
            okc = False
            why = "manual loop without a reviewed progress anchor"
            if rows:
                for anchors, reason in rows:
                    ab = anchor_blocks(b, lp, anchors)
                    if not ab:
                        continue
                    rest = lp.blocks - ab
                    # every cycle through the loop header passes an anchor: the header cannot reach itself avoiding anchors
                    h = lp.header
                    cyc = h in b.reach_from(h, avoid=ab) - {h} if False else _reaches_self(b, h, rest)
                    if not cyc:
                        okc = True
                        why = "%s (anchors: %s)" % (reason, ", ".join(anchors))
                        break
                    else:
                        why = "a cycle of the loop avoids every anchor (%s)" % ", ".join(anchors)
            nman += 1
            idx = seen_keys.get(fn_key(b), 0)
            seen_keys[fn_key(b)] = idx + 1
            ctx.check(okc, rid, "loop:%s:manual#%d" % (fn_key(b), idx), lp.span, b.id, why, how="table")
    if body_filter is None:
        ctx.floor(rid, "loops on the routes", n, 60)
        ctx.floor(rid, "manual loops with anchors", nman, 9)


def _reaches_self(b, h, allowed):
    """is there a cycle h -> ... -> h using only blocks in `allowed` (h included)?"""
    if h not in allowed:
        return False
    seen = set()
    st = [s for s in b.succ(h) if s in allowed]
    while st:
        x = st.pop()
        if x == h:
            return True
        if x in seen:
            continue
        seen.add(x)
        st.extend(s for s in b.succ(x) if s in allowed)
    return False


# ---------------------------------------------------------------------------------------------
# D: errors
# ---------------------------------------------------------------------------------------------
def rule_d(ctx, rid):
    F = ctx.facts
    roots, reach, mag = analysis(F)
    sites = []
    for fid in sorted(reach):
        b = F.bodies[fid]
        for bb in sorted(b.reachable()):
            for st in b.stmts(bb):
                rv = st.get("rv") or {}
                if rv.get("agg") == "adt" and rv.get("adt") == "Error":
                    sites.append((b, st, rv["variant"]))
                for o in ([rv["use"]] if "use" in rv else []) + list(rv.get("ops", [])):
                    k = op_const(o)
                    if k and k["ty"] == "Error":
                        sites.append((b, st, k["v"].split("::")[-1]))
            t = b.term(bb)
            if t["k"] == "call":
                for a in t["args"]:
                    k = op_const(a)
                    if k and k["ty"] == "Error":
                        sites.append((b, {"span": t["span"]}, k["v"].split("::")[-1]))
    n = 0
    for b, st, var in sites:
        n += 1
        key = "Error::%s@%s" % (var, fn_key(b))
        if var == "TooNarrow":
            ctx.ok(rid, key, st["span"], b.id, "the too-narrow error")
        elif var == "IoError":
            ctx.check(ends(b.id, "From<std::io::Error>>::from") or "From<std::io::Error>" in b.id, rid, key, st["span"], b.id,
                      "IoError may only come from the caller's reader")
        elif var == "CssParseError":
            okc = b.root in ("css::StyleData::do_add_css", "css::parser::parse_style_attribute")
            ctx.check(okc, rid, key, st["span"], b.id, "CssParseError outside the CSS entry points")
        elif var == "Fail":
            if b.id in ("config::Config::<D>::do_parse", "config::Config::<D>::dom_to_render_tree"):
                # ok_or(Fail) on the tree-building result: unreachable because the Document arm's reducer always returns Some
                pdn = F.one("process_dom_node")
                okc = False
                nd = F.adt("NodeData")
                dv = [v["discr"] for v in nd["variants"] if v["name"] == "Document"][0]
                disp = find_dispatch(pdn, "NodeData", 3)
                tb = [tb for v, tb in pdn.term(disp)["targets"] if v == dv]
                if tb:
                    region = pdn.reach_from(tb[0])
                    for (cbb, i, cb, ops, fields) in closure_bodies_created_in(F, pdn):
                        if cbb in [x for x in region if pdn.dominates(tb[0], x)]:
                            rets = [s2["rv"].get("variant") for x in cb.reachable() for s2 in cb.stmts(x)
                                    if s2["k"] == "assign" and s2["lhs"]["l"] == 0 and not s2["lhs"]["p"] and "agg" in s2["rv"]]
                            okc = rets == ["Some"]
                ctx.check(okc, rid, key, st["span"], b.id,
                          "ok_or(Error::Fail) is unreachable only while the Document reducer returns Some on every path", how="table")
            elif b.root == "render_table_row_vert":
                ctx.ok(rid, key, st["span"], b.id, "non-cell child of a stacked row: into_cells only builds TableCell nodes "
                       "(same invariant as the panic!() in render_table_row)", how="table")
            else:
                ctx.violation(rid, key, st["span"], b.id, "Error::Fail can be returned from a render route")
        else:
            ctx.violation(rid, key, st["span"], b.id, "unexpected error variant %s" % var)
    ctx.floor(rid, "Error constructions on the routes", n, 4)
    # signatures of the render roots
    for r in roots:
        b = F.bodies[r]
        if r.startswith("config::Config") and b.name in ("string_from_read", "lines_from_read", "coloured", "render_coloured",
                                                          "render_to_string", "render_to_lines", "parse_html", "dom_to_render_tree"):
            sig = b.raw.get("sig", "")
            ctx.check("std::result::Result<" in sig.split("->")[-1] and "Error>" in sig.split("->")[-1], rid,
                      "signature:%s" % b.name, b.span, b.id, sig[-80:])


# ---------------------------------------------------------------------------------------------
# thorough tier: clippy cross-reference (E4) — an independent HIR-level extractor of the same inventory
# ---------------------------------------------------------------------------------------------
def thorough_extra(ctx):
    ctx.rule("C01-A/clippy", "cross-reference: every site clippy's restriction lints (arithmetic_side_effects, indexing_slicing, "
             "string_slice, unwrap_used, expect_used, panic, unreachable, todo, unimplemented) report in the render-route files "
             "is covered by an inventory site on the same line (the inventory only sees what it parsed)")
    from ..facts import load_facts
    F = load_facts("css")
    roots, reach, mag = analysis(F)
    inv = panics.inventory(F, F.reachable_from(roots))
    lines = set()
    for s in inv:
        lines.add(s.span)
    # all assert/call spans in reachable bodies (discharged or not) are in `inv`; also accept lines of checked ops
    target = "/tmp/h2t-clippy-%d" % os.getpid()
    env = dict(os.environ)
    env["CARGO_TARGET_DIR"] = target
    env["CARGO_NET_OFFLINE"] = "true"
    lints = ["arithmetic_side_effects", "indexing_slicing", "string_slice", "unwrap_used", "expect_used", "panic", "unreachable",
             "todo", "unimplemented"]
    cmd = ["cargo", "+nightly", "clippy", "--offline", "--lib", "--features", "css", "--message-format=short", "--"] + \
        sum((["-W", "clippy::" + l] for l in lints), [])
    try:
        r = subprocess.run(cmd, cwd=REPO, env=env, stdout=subprocess.PIPE, stderr=subprocess.STDOUT, text=True, timeout=900)
        out = r.stdout
    finally:
        subprocess.call(["rm", "-rf", target])
    import re
    sites = set()
    for line in out.splitlines():
        m = re.match(r"^(src/[^:]+):(\d+):\d+: warning: (.*)$", line)
        if m and any(k in m.group(3) for k in ("arithmetic operation", "indexing", "slicing", "unwrap", "expect", "panic", "unreachable",
                                               "todo", "unimplemented", "`assert")):
            sites.add(("%s:%s" % (m.group(1), m.group(2)), m.group(3)[:60]))
    ctx.floor("C01-A/clippy", "clippy restriction-lint sites", len(sites), 100)
    # which of them are on the routes? compare only lines that lie inside a reachable body's span range
    ranges = {}
    for fid in F.reachable_from(roots):
        b = F.bodies[fid]
        f, _, ln = b.span.rpartition(":")
        spans = [int(x.rpartition(":")[2]) for x in _all_spans(b) if x.startswith(f + ":")]
        if spans:
            ranges.setdefault(f, []).append((min(spans + [int(ln)]), max(spans)))
    missing = []
    for sp, msg in sorted(sites):
        f, _, ln = sp.rpartition(":")
        ln = int(ln)
        if not any(lo <= ln <= hi for lo, hi in ranges.get(f, ())):
            continue  # off-route (Debug/Display impls, tests)
        if sp not in lines and not _line_has_checked_op(F, roots, sp):
            missing.append((sp, msg))
    ctx.check(not missing, "C01-A/clippy", "inventory-covers-clippy-sites", "", "",
              "clippy sites on the routes with no inventory site on the same line: %s" % missing[:8])


def _all_spans(b):
    for bb in b.reachable():
        for st in b.stmts(bb):
            yield st["span"]
        yield b.term(bb)["span"]


def _line_has_checked_op(F, roots, sp):
    """a clippy arithmetic site with no inventory site on its line is accepted only when the MIR shows why it cannot
    panic there: the operator is a user-defined std::ops impl of this crate (its body is inventoried on its own), or
    a float operation"""
    for fid in F.reachable_from(roots):
        b = F.bodies[fid]
        for bb in b.reachable():
            t = b.term(bb)
            if t["span"] == sp and t["k"] == "call":
                c = t.get("callee") or {}
                if (c.get("trait") or "").startswith("std::ops::") and (c.get("resolved_local") or c.get("local")):
                    return True
            for st in b.stmts(bb):
                if st["span"] == sp and st["k"] == "assign":
                    rv = st["rv"]
                    if "bin" in rv and rv.get("opty") in ("f32", "f64"):
                        return True
                    if "un" in rv and rv["un"] == "Neg":
                        return True
    return False
