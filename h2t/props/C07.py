"""C07 — lists, quotes, headings prefix every line; ordered items count from start (structural clauses)."""
from ..facts import AnchorMissing, callee_def, op_place, op_const, is_bare
from ..util import (SUBR, RTRAIT, ends, site, fn_key, callee_method, require, has_call, has_field, find_dispatch,
                    closure_bodies_created_in, transitive_closures, deep_atoms, direct_field, direct_place)
from .. import widths, drops
from ..widths import norm, stop_prefix, arms_of_do_render_node, arm_bodies, calls_in, PREFIX_OF

EXPLANATION = (
    "Decided statically: (A) which lines get which prefix, by the resolved type of the prefix iterator at every "
    "append_subrender call — heading, quote and definition use Repeat<&str> of the marker (every line), list items "
    "use Chain<Once<&str>, Repeat<&str>> with the marker once and a whitespace-only string repeated; all are "
    "infinite; (B) the content is rendered at width minus the prefix's display width (rules shared with C02); "
    "(C) the continuation indentation has the marker's width; (D) numbering: the counter starts at the node's "
    "start value, the marker shows the counter's current value, and every item steps it by exactly +1 on every "
    "successful path; start is parsed from the attribute with default 1; estimate and renderer compute the marker "
    "width from the same two numbers; (E) nested structures stack: append_subrender prepends the prefix "
    "(insert_front) to every line of the inner block.")
NOT_DECIDED = ("compositionality as an equality of renderings; padding of markers to a common width (arithmetic on digit counts)")
ASSUMPTIONS = []

EXPECT_ITER = {
    "Header": "std::iter::Repeat<&str>", "BlockQuote": "std::iter::Repeat<&str>", "Dd": "std::iter::Repeat<&str>",
    "Ul": "std::iter::Chain<std::iter::Once<&str>, std::iter::Repeat<&str>>",
    "Ol": "std::iter::Chain<std::iter::Once<&str>, std::iter::Repeat<&str>>",
}
INFINITE = ("std::iter::Repeat<&str>", "std::iter::Chain<std::iter::Once<&str>, std::iter::Repeat<&str>>")


def check(ctx):
    ctx.rule("C07-A", "per-block prefix iterator type: marker on every line (heading/quote/dd) vs marker once then blank "
             "indentation (list items); all prefix iterators are infinite")
    ctx.rule("C07-B", "content is rendered at width − display width of the prefix that is attached")
    ctx.rule("C07-C", "continuation indentation has the marker's width")
    ctx.rule("C07-D", "ordered items: counter from start, marker shows the counter, +1 per item on every path; start "
             "defaults to 1; estimate and renderer agree on the marker width inputs")
    ctx.rule("C07-E", "append_subrender prepends the prefix to every line of the inner block")
    ctx.guard("C07-A", rule_a)
    ctx.guard("C07-B", widths.rule_prefix_pairing, "C07-B")
    ctx.guard("C07-B", widths.rule_sub_widths, "C07-B")
    ctx.guard("C07-B", widths.rule_width_minus_def, "C07-B")
    ctx.guard("C07-C", rule_c)
    ctx.guard("C07-D", rule_d)
    ctx.guard("C07-E", rule_e)
    ctx.guard("C07-E", rule_e2)
    ctx.rule("C07-F", "a list node's children are its items and nothing else: insert_child never pushes a marker or generated "
             "content into a node kind whose renderer gives every child an item prefix")
    ctx.guard("C07-F", rule_f)
    ctx.rule("C07-G", "there is no way around the prefix: in the arm of every prefixed block kind, each path to a successful result "
             "passes through the creation of the reducer that attaches the prefix (append_subrender) — a fast path that writes the "
             "marker as ordinary text leaves the block's later lines without it")
    ctx.guard("C07-G", rule_g)


def _append_sites(F):
    drn, arms = arms_of_do_render_node(F)
    out = {}
    for vn in PREFIX_OF:
        tb, region = arms[vn]
        subs = []
        for body, blocks in arm_bodies(F, drn, region):
            subs += [(body, bb, t) for bb, t in calls_in(body, blocks, lambda cd, t: callee_method(t) == "append_subrender")]
        out[vn] = subs
    return drn, arms, out


def rule_a(ctx):
    F = ctx.facts
    drn, arms, sites = _append_sites(F)
    n = 0
    for vn, subs in sites.items():
        if not ctx.check(len(subs) == 1, "C07-A", "%s:one-append_subrender" % vn, drn.term(arms[vn][0])["span"], drn.id, "%d" % len(subs)):
            continue
        n += 1
        b, bb, t = subs[0]
        ity = (t["callee"].get("targs") or ["", ""])[-1]
        ctx.check(ity == EXPECT_ITER[vn], "C07-A", "%s:prefix-iterator=%s" % (vn, "every-line" if "Chain" not in EXPECT_ITER[vn] else "first-then-indent"),
                  t["span"], fn_key(b), "prefix iterator type is %s" % ity)
        meth = PREFIX_OF[vn]
        if "Chain" in EXPECT_ITER[vn]:
            ch = direct_call(b, t["args"][2])
            if ch is None or callee_method(ch) != "chain":
                ctx.violation("C07-A", "%s:chain(once(marker), repeat(indent))" % vn, t["span"], fn_key(b), "not a chain call")
                continue
            first, rest = direct_call(b, ch["args"][0]), direct_call(b, ch["args"][1])
            okc = first is not None and rest is not None and callee_method(first) == "once" and callee_method(rest) == "repeat"
            if ctx.check(okc, "C07-A", "%s:chain(once(marker), repeat(indent))" % vn, t["span"], fn_key(b), ""):
                fa = deep_atoms(F, b, first["args"][0], stop_calls=stop_prefix)
                ra = deep_atoms(F, b, rest["args"][0], stop_calls=stop_prefix)
                ctx.check(any(a[0] == "call" and a[1] and a[1].endswith("::" + meth) for a in fa), "C07-A",
                          "%s:first-line=marker" % vn, t["span"], fn_key(b), "")
                blank = _blank_string(F, b, rest["args"][0])
                ctx.check(blank, "C07-A", "%s:later-lines=blank-indentation" % vn, t["span"], fn_key(b),
                          "continuation prefix must be built from spaces only")
        else:
            rp = direct_call(b, t["args"][2])
            okc = rp is not None and callee_method(rp) == "repeat"
            if ctx.check(okc, "C07-A", "%s:repeat(marker)" % vn, t["span"], fn_key(b), ""):
                ra = deep_atoms(F, b, rp["args"][0], stop_calls=stop_prefix)
                if meth:
                    ctx.check(any(a[0] == "call" and a[1] and a[1].endswith("::" + meth) for a in ra), "C07-A",
                              "%s:every-line=marker" % vn, t["span"], fn_key(b), "")
                else:
                    ctx.check(("const", '"  "') in ra, "C07-A", "%s:every-line=two-spaces" % vn, t["span"], fn_key(b), "")
    ctx.floor("C07-A", "prefixed block kinds", n, 5)
    # every append_subrender anywhere zips with an infinite iterator (a finite one truncates the block)
    alls = F.call_sites(lambda cd, t: callee_method(t) == "append_subrender")
    for (b, bb, t) in alls:
        ity = (t["callee"].get("targs") or ["", ""])[-1]
        ctx.check(ity in INFINITE, "C07-A", "infinite-prefixes@%s#%s" % (fn_key(b), ity.split("::")[-1][:20]), t["span"], b.id,
                  "prefix iterator %s may be finite: zip would truncate the block" % ity)
    ctx.floor("C07-A", "append_subrender call sites", len(alls), 6)


BORROWS = ("deref", "index", "as_str", "as_ref", "borrow", "must_use")


def _blank_string(F, b, op, depth=8):
    """Is the string behind `op` produced from spaces only: `" ".repeat(n)` or `format!("{: <w$}", "")`?
    Follows borrows and closure captures back to the producing call; only the *content* matters (the
    count may depend on the marker's width)."""
    pl = op_place(op)
    while depth > 0 and pl is not None:
        depth -= 1
        # closure capture?
        fs = [e for e in pl["p"] if isinstance(e, dict) and "f" in e]
        if b.kind == "Closure" and pl["l"] == 1 and fs and fs[0]["o"].startswith("closure:"):
            parent = F.bodies.get(b.parent)
            if parent is None:
                return False
            for (bb, i, cdef, ops, fields) in parent.closures_created():
                if cdef == b.id and fs[0]["n"] in fields:
                    return _blank_string(F, parent, ops[fields.index(fs[0]["n"])], depth)
            return False
        sd = b.single_def(pl["l"])
        if sd is None:
            return False
        if sd[0] == "call":
            t = sd[2]
            m = callee_method(t)
            if m in BORROWS:
                pl = op_place(t["args"][0])
                continue
            if m == "repeat" and "str" in (callee_def(t) or ""):
                k = b.atoms(t["args"][0], through_calls=False)
                return ("const", '" "') in k
            if m == "format" and ends(callee_def(t), "fmt::format"):
                disp = [tt for _bb, tt in b.calls(lambda cd, x: ends(cd, "Argument::<'_>::new_display")) if tt["span"] == t["span"]]
                return bool(disp) and all(any(a == ("const", '""') for a in b.atoms(d["args"][0], through_calls=False)) for d in disp)
            return False
        if sd[0] == "stmt":
            rv = sd[3].get("rv") or {}
            if "use" in rv:
                pl = op_place(rv["use"])
            elif "ref" in rv:
                pl = rv["ref"]
            else:
                return False
        else:
            return False
    return False


def direct_call(b, op):
    """the call terminator that defines the operand (through moves/copies)"""
    pl = op_place(op)
    depth = 6
    while pl is not None and is_bare(pl) and depth > 0:
        depth -= 1
        sd = b.single_def(pl["l"])
        if sd is None:
            return None
        if sd[0] == "call":
            return sd[2]
        if sd[0] == "stmt" and "use" in sd[3]["rv"]:
            pl = op_place(sd[3]["rv"]["use"])
        else:
            return None
    return None


def rule_c(ctx, rid="C07-C"):
    F = ctx.facts
    drn, arms, sites = _append_sites(F)
    # Ul: " ".repeat(n): n is the same local that is subtracted
    for vn in ("Ul", "Ol"):
        tb, region = arms[vn]
        bodies = arm_bodies(F, drn, region)
        wm = []
        for body, blocks in bodies:
            wm += [(body, t) for bb, t in calls_in(body, blocks, lambda cd, t: ends(cd, "SubRenderer::<D>::width_minus"))]
        if not wm:
            ctx.violation(rid, "%s:width_minus" % vn, drn.term(tb)["span"], drn.id, "no width_minus call")
            continue
        sub_name = norm(wm[0][0].expr(wm[0][1]["args"][1]))
        if vn == "Ul":
            reps = []
            for body, blocks in bodies:
                reps += [(body, t) for bb, t in calls_in(body, blocks, lambda cd, t: callee_method(t) == "repeat" and "str" in (callee_def(t) or ""))]
            okc = len(reps) == 1 and norm(reps[0][0].expr(reps[0][1]["args"][1])) == sub_name
            ctx.check(okc, rid, "Ul:indent-width=subtracted-width", reps[0][1]["span"] if reps else drn.span, drn.id,
                      "indent of %s columns vs width_minus(%s)" % ([norm(r[0].expr(r[1]["args"][1])) for r in reps], sub_name))
        else:
            # Ol: prefixn = format!("{: <w$}", "", w = prefix_width); marker padded by prefix_width − width(marker)
            fu = drn.calls(lambda cd, t: ends(cd, "Argument::<'_>::from_usize") and t["args"] and True)
            fu = [(bb, t) for bb, t in fu if bb in region]
            okc = any(("local", sub_name) in drn.atoms(t["args"][0]) for bb, t in fu)
            # ... or, like the Ul arm, `" ".repeat(prefix_width)` built in the arm itself
            reps = [t for bb, t in calls_in(drn, region, lambda cd, t: callee_method(t) == "repeat" and "str" in (callee_def(t) or ""))]
            okc = okc or any(norm(drn.expr(t["args"][1])) == sub_name for t in reps)
            ctx.check(okc, rid, "Ol:indent-width=subtracted-width", drn.term(tb)["span"], drn.id,
                      "blank prefix padded to %s, width_minus(%s)" % ([norm(drn.expr(t["args"][0])) for bb, t in fu], sub_name))
            pads = []
            for body, blocks in bodies:
                pads += [(body, t) for bb, t in calls_in(body, blocks, lambda cd, t: callee_method(t) == "saturating_sub")]
            okp = False
            for body, t in pads:
                a0 = norm(body.expr(t["args"][0]))
                a1 = body.atoms(t["args"][1], stop_calls=stop_prefix)
                if a0 == sub_name and has_call(a1, "UnicodeWidthStr>::width", "UnicodeWidthStr::width") and \
                        any(a[0] == "call" and a[1] and a[1].endswith("::ordered_item_prefix") for a in a1):
                    okp = True
            ctx.check(okp, rid, "Ol:marker-padded-to-subtracted-width", drn.term(tb)["span"], drn.id, "")


def rule_d(ctx):
    F = ctx.facts
    drn, arms = arms_of_do_render_node(F)
    tb, region = arms["Ol"]
    # counter cell initialised from the node's start payload
    news = [(bb, t) for bb, t in drn.calls(lambda cd, t: ends(cd, "std::cell::Cell::<T>::new")) if bb in region]
    if ctx.check(len(news) == 1, "C07-D", "Ol:one-counter-cell", drn.term(tb)["span"], drn.id, "%d Cell::new" % len(news)):
        at = drn.atoms(news[0][1]["args"][0])
        okc = ("field", "RenderNodeInfo::Ol", "0") in at and not any(a[0] in ("bin", "call") for a in at)
        ctx.check(okc, "C07-D", "Ol:counter-starts-at-start", news[0][1]["span"], drn.id,
                  "counter initialised from %s" % norm(drn.expr(news[0][1]["args"][0])))
    post = None
    for body, blocks in arm_bodies(F, drn, region):
        if body.kind == "Closure" and body.calls(lambda cd, t: callee_method(t) == "ordered_item_prefix"):
            post = body
    require(post is not None, "per-item closure of the Ol arm")
    oip = post.calls(lambda cd, t: callee_method(t) == "ordered_item_prefix")
    gets = post.calls(lambda cd, t: ends(cd, "std::cell::Cell::<T>::get"))
    sets = post.calls(lambda cd, t: ends(cd, "std::cell::Cell::<T>::set"))
    if ctx.check(len(oip) == 1, "C07-D", "Ol:one-marker-per-item", post.span, fn_key(post), ""):
        d = widths_direct_call(post, oip[0][1]["args"][1])
        okc = d is not None and ends(callee_def(d), "Cell::<T>::get") and not any(a[0] == "bin" for a in post.atoms(oip[0][1]["args"][1]))
        ctx.check(okc, "C07-D", "Ol:marker-shows-counter", oip[0][1]["span"], fn_key(post), "marker number is %s" % norm(post.expr(oip[0][1]["args"][1])))
    if ctx.check(len(sets) == 1, "C07-D", "Ol:one-counter-update", post.span, fn_key(post), "%d Cell::set" % len(sets)):
        sbb, st = sets[0]
        ex = norm(post.canon(st["args"][1]))
        d = direct_call(post, st["args"][1])
        import re as _re
        # the new value is (counter.get() + 1), possibly wrapped by an overflow policy (unwrap_or(.., MAX) after checked_add)
        okc = bool(_re.search(r"\((<T>|Cell::<T>|std::cell::Cell::<T>)::get\(.*\) \+ 1_i64\)", ex)) and " - " not in ex and \
            ex.count("::get(") == 1 and not _re.search(r"[*/]", ex.replace("::<", "").replace("i64::MAX", ""))
        ctx.check(okc, "C07-D", "Ol:counter+=1", st["span"], fn_key(post), "counter update is %s" % ex)
        errs = drops.error_blocks(post)
        leak = [r for r in post.reach_from(0, avoid={sbb} | errs) if post.term(r)["k"] == "return"]
        ctx.check(not leak, "C07-D", "Ol:counter-stepped-on-every-success-path", st["span"], fn_key(post), "")
        inloop = sbb in post.reach_from(post.succ(sbb)[0]) if post.succ(sbb) else False
        ctx.check(not inloop, "C07-D", "Ol:one-step-per-item", st["span"], fn_key(post), "")
    # start attribute default 1
    pdn = F.one("process_dom_node")
    pbodies = [pdn] + [cb for _bb, cb in transitive_closures(F, pdn)]
    uo = []

    def parses(pb, op):
        at = pb.atoms(op)
        if has_call(at, "str>::parse", "<impl str>::parse"):
            return True
        # `.and_then(|attr| attr.value.parse().ok())`: the parse sits in a closure handed to an Option combinator on the way
        for (_cbb, _i, cb, _ops, _f) in closure_bodies_created_in(F, pb):
            if any(callee_method(t2) == "parse" for _b2, t2 in cb.calls(lambda cd, t2: True)) and \
                    has_call(at, "Option::<T>::and_then", "Option::<T>::map"):
                return True
        return False

    for pb in pbodies:
        uo += [(pb, t) for bb, t in pb.calls(lambda cd, t: callee_method(t) == "unwrap_or")
               if (op_const(t["args"][1]) or {}).get("ty") == "i64" and parses(pb, t["args"][0])]
    okc = len(uo) == 1 and (op_const(uo[0][1]["args"][1]) or {}).get("int") == 1
    ctx.check(okc, "C07-D", "ol-start:parse-or-1", uo[0][1]["span"] if uo else pdn.span, pdn.id, "")
    init = []
    # the start number: the i64 captured by the closure that builds the Ol node; its defaults — a constant
    # initialiser, or the fallback argument of map_or / unwrap_or — must all be 1
    for (cbb, i, cb, ops, fields) in closure_bodies_created_in(F, pdn):
        builds_ol = any((st.get("rv") or {}).get("variant") == "Ol" for x in cb.reachable() for st in cb.stmts(x))
        if not builds_ol:
            continue
        for o in ops:
            pl = direct_place(pdn, o)
            if pl is not None and is_bare(pl) and pdn.local_ty(pl["l"]) == "i64":
                for r in pdn.defs()[pl["l"]]:
                    if r[0] == "stmt" and "use" in r[3]["rv"]:
                        k = op_const(r[3]["rv"]["use"])
                        if k:
                            init.append(k.get("int"))
                    elif r[0] == "call" and callee_method(r[2]) in ("map_or", "unwrap_or", "map_or_else"):
                        for a in r[2]["args"][1:]:
                            k = op_const(a)
                            if k and k.get("ty") == "i64":
                                init.append(k.get("int"))
    init = sorted(set(init))
    ctx.check(init == [1], "C07-D", "ol-start:default-1", pdn.span, pdn.id, "constant initialisers of start: %s" % init)
    # estimate and renderer compute the marker width from (start, start + n − 1)
    cops = F.one("calc_ol_prefix_size")
    for body, nm in ((cops, "estimate"), (drn, "renderer")):
        cs = [(bb, t) for bb, t in body.calls(lambda cd, t: callee_method(t) == "ordered_item_prefix")
              if body is cops or bb in region]
        forms = sorted(norm(body.expr_top(t["args"][1], expand_named=True)) for bb, t in cs)
        forms = [f.replace("<impl i64>::saturating_sub(", "sat_sub(") for f in forms]
        okc = len(forms) == 2 and any((f.endswith("- 1_i64)") or (f.startswith("sat_sub(") and f.endswith(", 1_i64)"))) and " + " in f
                                      for f in forms) and any(("+" not in f and "-" not in f and "sat_sub" not in f) for f in forms)
        ctx.check(okc, "C07-D", "marker-width-inputs:%s=(start, start+n-1)" % nm, body.span, body.id, "numbers measured: %s" % forms)


def widths_direct_call(b, op):
    return direct_call(b, op)


def rule_e(ctx):
    F = ctx.facts
    b = F.one(RTRAIT + "append_subrender")
    cls = [b] + [cb for _bb, cb in transitive_closures(F, b)]   # (a `map` closure or the body of a `for` loop)
    ins = []
    for cb in cls:
        ins += [(cb, t) for bb, t in cb.calls(lambda cd, t: ends(cd, "TaggedLine::<T>::insert_front"))]
    if ctx.check(len(ins) == 1, "C07-E", "text-lines:prefix-prepended", b.span, b.id, "%d insert_front" % len(ins)):
        cb, t = ins[0]
        at = cb.atoms(t["args"][1])
        ctx.check(("agg", "render::text_renderer::TaggedString", "TaggedString") in at, "C07-E", "prefix-as-tagged-string", t["span"], fn_key(cb), "")
    z = b.calls(lambda cd, t: callee_method(t) == "zip")
    il = b.calls(lambda cd, t: ends(cd, "SubRenderer::<D>::into_lines"))
    ctx.check(len(z) == 1 and len(il) == 1, "C07-E", "lines-zipped-with-prefixes", b.span, b.id, "")
    bad = [callee_method(t) for bb, t in b.calls() if callee_method(t) in
           ("rev", "skip", "take", "step_by", "filter", "filter_map", "skip_while", "take_while", "pop", "pop_back", "pop_front", "truncate",
            "drain", "retain", "split_off", "remove", "dedup", "swap_remove", "clear")]
    ctx.check(not bad, "C07-E", "all-lines-in-order", b.span, b.id,
              "the inner block's lines are not all handed on in order (%s): a dropped line is a line of the block without its prefix" % bad)


def rule_f(ctx):
    """Sibling agreement between the render walk and insert_child: the kinds whose arm of do_render_node prefixes
    *each child* (calls ordered_item_prefix / unordered_item_prefix per child) must not be among the kinds into whose
    children insert_child pushes a FragStart / ::before text — such a child would be numbered like an item."""
    F = ctx.facts
    drn, arms = arms_of_do_render_node(F)
    itemised = set()
    for vn, (tb, region) in arms.items():
        for body, blocks in arm_bodies(F, drn, region):
            if calls_in(body, blocks, lambda cd, t: callee_method(t) in ("ordered_item_prefix", "unordered_item_prefix")):
                itemised.add(vn)
    ctx.floor("C07-F", "node kinds whose children are all items", len(itemised), 2)
    ic = F.one("insert_child")
    info = F.adt("RenderNodeInfo")
    names = {v["discr"]: v["name"] for v in info["variants"]}
    disp = find_dispatch(ic, "RenderNodeInfo", 3)
    inplace = {names[v] for v, tb in ic.term(disp)["targets"]}
    for vn in sorted(itemised):
        ctx.check(vn not in inplace, "C07-F", "insert_child:not-into-%s" % vn, ic.span, ic.id,
                  "insert_child pushes the marker / generated content of an element with an id into the children of a %s "
                  "node; the renderer treats every child of a %s as an item (it would take a number / bullet and shift "
                  "the following ones)" % (vn, vn))


def rule_e2(ctx):
    """TaggedLine::insert_front is how a prefix reaches a line: on every path it either merges the string into the
    first piece (insert_str at 0) or inserts a new first piece — there is no path that returns without the text (a
    blank line inside a quote still carries the quote mark)."""
    F = ctx.facts
    b = F.one("TaggedLine::<T>::insert_front")
    ins = [bb for bb, t in b.calls(lambda cd, t: callee_method(t) in ("insert", "insert_str"))]
    rets = [x for x in b.reachable() if b.term(x)["k"] == "return"]
    ctx.check(len(ins) == 2, "C07-E", "insert_front:two-insertion-forms", b.span, b.id, "%d insert/insert_str calls" % len(ins))
    leak = [r for r in b.reach_from(0, avoid=set(ins)) if r in rets]
    ctx.check(not leak, "C07-E", "insert_front:no-path-without-the-text", b.span, b.id,
              "insert_front can return without having inserted the string (e.g. an early return for empty lines): block "
              "prefixes would be missing on those lines")



def rule_g(ctx):
    from ..drops import error_blocks
    from ..util import closure_bodies_created_in, transitive_closures
    F = ctx.facts
    drn, arms, sites = _append_sites(F)
    errs = error_blocks(drn)
    n = 0
    for vn, subs in sites.items():
        if len(subs) != 1:
            continue  # C07-A reports that
        body = subs[0][0]
        tb, region = arms[vn]
        creators = set()
        for (cbb, _i, cb, _ops, _fields) in closure_bodies_created_in(F, drn):
            if cbb in region and (cb.id == body.id or any(c2.id == body.id for _x, c2 in transitive_closures(F, cb))):
                creators.add(cbb)
        if not ctx.check(bool(creators), "C07-G", "%s:reducer-created-in-arm" % vn, drn.term(tb)["span"], drn.id, ""):
            continue
        n += 1
        # leave the arm without passing the creation of that reducer (error exits apart)
        inside = drn.reach_from(tb, avoid=creators | errs)
        around = sorted(x for x in inside if x in region and any(s2 not in region and not drn.is_cleanup(s2) and drn.term(s2)["k"] != "unreachable" for s2 in drn.succ(x)))
        ctx.check(not around, "C07-G", "%s:every-result-goes-through-the-prefixing-reducer" % vn,
                  drn.term(around[0])["span"] if around else drn.term(tb)["span"], drn.id,
                  "the %s arm can produce a result without installing the reducer that calls append_subrender: the block's lines "
                  "would not all carry the marker / indentation" % vn)
    ctx.floor("C07-G", "prefixed arms with a prefixing reducer", n, 5)
