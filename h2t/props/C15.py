"""C15 — layout options are orthogonal and do only what they say (structural clauses)."""
from ..facts import AnchorMissing, callee_def, op_place, op_const, is_bare
from ..util import (SUBR, RTRAIT, ends, site, fn_key, callee_method, require, has_call, has_field, find_dispatch,
                    transitive_closures, closure_bodies_created_in, edge_is_true, src_field, edges_where,
                    unreachable_without_edges, direct_field, consumer_of_ref, field_accesses, effects_in, direct_place)
from .. import options

EXPLANATION = (
    "An option can only influence the code that reads it. Decided statically: a complete read-site "
    "inventory for every field of Config, HtmlContext and RenderOptions (and the two WrappedBlock "
    "copies), each read classified as plumbing (copied into the same-named field of the next struct), "
    "decision (branched on) or value use, and compared with the sanctioned reader table; plus what each "
    "decision governs: wrap_width yields min(m, width) or width; pad_blocks governs only pad_to, which "
    "only appends spaces when the line is narrower; use_unicode_strikeout governs only the push/pop of "
    "the strikeout filter; every border-line creation and the '│' separator are governed by "
    "draw_borders and box-drawing constants occur nowhere else; raw only forces stacked rows; "
    "wrap_links governs only the wrapping branch of fmt_links; min_wrap_width only caps the min-width "
    "estimate of text. Builder setters write only their own field (raw_mode also clears draw_borders).")
NOT_DECIDED = ("relations that need two renderings compared value by value (e.g. equality after deleting U+0336 relies "
               "on U+0336 having display width 0, a Unicode-table fact)")
ASSUMPTIONS = []

# (owner suffix, field) -> list of sanctioned (kind, function suffix, detail predicate)
R = "render::text_renderer::RenderOptions"


def _agg(adt, fld):
    return lambda d: d[0] == "agg" and ends(d[1], adt) and d[2] == fld


def _arg(callee, idx):
    return lambda d: d[0] == "callarg" and ends(d[1], callee) and d[2] == idx


ANY = lambda d: True  # noqa: E731

SANCTIONED = {
    ("config::Config", "max_wrap_width"): [("plumbing", "Config::<D>::make_context", _agg("HtmlContext", "max_wrap_width"))],
    ("config::Config", "use_doc_css"): [("plumbing", "Config::<D>::make_context", _agg("HtmlContext", "use_doc_css"))],
    ("config::Config", "pad_block_width"): [("plumbing", "Config::<D>::make_context", _agg("HtmlContext", "pad_block_width"))],
    ("config::Config", "allow_width_overflow"): [("plumbing", "Config::<D>::make_context", _agg("HtmlContext", "allow_width_overflow"))],
    ("config::Config", "min_wrap_width"): [("plumbing", "Config::<D>::make_context", _agg("HtmlContext", "min_wrap_width"))],
    ("config::Config", "raw"): [("plumbing", "Config::<D>::make_context", _agg("HtmlContext", "raw"))],
    ("config::Config", "draw_borders"): [("plumbing", "Config::<D>::make_context", _agg("HtmlContext", "draw_borders"))],
    ("config::Config", "wrap_links"): [("plumbing", "Config::<D>::make_context", _agg("HtmlContext", "wrap_links"))],
    ("config::Config", "include_link_footnotes"): [("plumbing", "Config::<D>::make_context", _agg("HtmlContext", "include_link_footnotes"))],
    ("config::Config", "use_unicode_strikeout"): [("plumbing", "Config::<D>::make_context", _agg("HtmlContext", "use_unicode_strikeout"))],
    ("config::Config", "style"): [("value", "Config::<D>::make_context", _arg("Clone>::clone", 0))],
    ("HtmlContext", "max_wrap_width"): [("plumbing", "RenderTree::render_with_context", _agg(R, "wrap_width"))],
    ("HtmlContext", "pad_block_width"): [("plumbing", "RenderTree::render_with_context", _agg(R, "pad_block_width"))],
    ("HtmlContext", "allow_width_overflow"): [("plumbing", "RenderTree::render_with_context", _agg(R, "allow_width_overflow"))],
    ("HtmlContext", "raw"): [("plumbing", "RenderTree::render_with_context", _agg(R, "raw"))],
    ("HtmlContext", "draw_borders"): [("plumbing", "RenderTree::render_with_context", _agg(R, "draw_borders"))],
    ("HtmlContext", "wrap_links"): [("plumbing", "RenderTree::render_with_context", _agg(R, "wrap_links"))],
    ("HtmlContext", "include_link_footnotes"): [("plumbing", "RenderTree::render_with_context", _agg(R, "include_link_footnotes"))],
    ("HtmlContext", "use_unicode_strikeout"): [("plumbing", "RenderTree::render_with_context", _agg(R, "use_unicode_strikeout"))],
    ("HtmlContext", "min_wrap_width"): [("value", "RenderNode::calc_size_estimate", _arg("Ord::min", 1))],
    ("HtmlContext", "use_doc_css"): [("decision", "dom_to_render_tree_with_context", ANY),
                                     ("value", "process_dom_node", _arg("StyleData::computed_style", 3))],
    (R, "wrap_width"): [("decision", "get_wrapping_or_insert::{closure}", ANY),
                        ("value", "get_wrapping_or_insert::{closure}", ANY)],
    (R, "allow_width_overflow"): [("value", "get_wrapping_or_insert::{closure}", _arg("WrappedBlock::<T>::new", 2)),
                                  ("decision", "SubRenderer::<D>::width_minus", ANY)],
    (R, "pad_block_width"): [("value", "get_wrapping_or_insert::{closure}", _arg("WrappedBlock::<T>::new", 1))],
    (R, "raw"): [("decision", "render_table_tree", ANY)],
    (R, "draw_borders"): [("decision", RTRAIT + "append_columns_with_borders", ANY),
                          ("decision", RTRAIT + "append_vert_row", ANY),
                          ("decision", "render_table_tree", ANY)],
    (R, "wrap_links"): [("decision", "SubRenderer::<D>::fmt_links", ANY)],
    (R, "include_link_footnotes"): [("decision", "TextRenderer::<D>::end_link", ANY),
                                    ("decision", "SubRenderer::<D>::finalise", ANY)],
    (R, "use_unicode_strikeout"): [("decision", RTRAIT + "start_strikeout", ANY),
                                   ("decision", RTRAIT + "end_strikeout", ANY)],
}
# number of decision/value reads reviewed per (field, function); default 1.  A further read of an option in a function
# that already reads it is a new decision site (what does it govern?) and is not covered by the sanctioned row.
MAXREADS = {("draw_borders", RTRAIT + "append_columns_with_borders"): 2, ("draw_borders", RTRAIT + "append_vert_row"): 2}
IGNORED_FIELDS = {("config::Config", "decorator"), ("HtmlContext", "style_data")}
FLOORS = {(R, "wrap_width"): 1, (R, "pad_block_width"): 1, (R, "use_unicode_strikeout"): 2, (R, "draw_borders"): 5,
          (R, "raw"): 1, (R, "include_link_footnotes"): 2, (R, "wrap_links"): 1, ("HtmlContext", "min_wrap_width"): 1}

BOX = "─┬┴┼│"


def check(ctx):
    ctx.rule("C15-A", "read-site inventory: every read of every option field is a sanctioned reader of that option")
    ctx.rule("C15-B", "what each decision governs: wrap width = min(m,width)|width; padding only pads; strikeout option only "
             "installs/removes the filter; borders only under draw_borders; raw only forces stacked rows; wrap_links only "
             "the wrapping branch")
    ctx.rule("C15-C", "builder setters write only the field(s) their documentation names; defaults are the documented ones")
    ctx.guard("C15-A", rule_a)
    ctx.guard("C15-B", rule_b)
    from .. import widths as _w
    ctx.guard("C15-B", _w.rule_footnote_text_cleaned, "C15-B")
    ctx.guard("C15-C", rule_c)
    ctx.rule("C15-D", "the strikeout filter only adds combining marks: filter_text_strikeout walks s.chars(), pushes every character "
             "as it is on every path through the loop, and pushes nothing else but U+0336 (no splitting, trimming, joining or "
             "replacing of the text — white space inside struck text keeps its kind)")
    ctx.guard("C15-D", rule_d)


def rule_a(ctx):
    F = ctx.facts
    for owner in options.OWNERS:
        a = F.adt(owner)
        for f in a["variants"][0]["fields"]:
            key0 = (owner, f["name"])
            if key0 in IGNORED_FIELDS:
                continue
            rows = SANCTIONED.get(key0)
            reads = options.classify_reads(F, owner, f["name"])
            ndec = 0
            per_fn = {}
            for r in reads:
                if r["kind"] != "plumbing":
                    per_fn[fn_key(r["body"])] = per_fn.get(fn_key(r["body"]), 0) + 1
            for fk_, n_ in sorted(per_fn.items()):
                cap = max([v for (fld, fn), v in MAXREADS.items() if fld == f["name"] and ends(fk_, fn)] or [1])
                ctx.check(n_ <= cap, "C15-A", "%s.%s@%s:read-count" % (owner.split("::")[-1], f["name"], fk_), "", fk_,
                          "option %s is read %d times in this function, %d reviewed: a new place where the option decides "
                          "something needs review" % (f["name"], n_, cap))
            for r in reads:
                b = r["body"]
                fk = fn_key(b)
                k = "%s.%s@%s:%s" % (owner.split("::")[-1], f["name"], fk, r["kind"])
                if rows is None:
                    ctx.violation("C15-A", k, r["site"], b.id, "option field without a sanctioned-reader row (new option?)")
                    continue
                okc = False
                d0 = r["detail"]
                if r["kind"] == "plumbing" and isinstance(d0, tuple) and d0[0] == "agg" and ends(str(d0[1]), owner) and d0[2] == f["name"]:
                    okc = True  # copied into the same field of a new value of the same struct (`Self { x, ..self }`)
                for (kind, fn, pred) in rows:
                    if kind == r["kind"] and (ends(fk, fn) or ends(b.id, fn)):
                        d = r["detail"]
                        if kind == "decision" or pred is ANY or (isinstance(d, tuple) and pred(d)):
                            okc = True
                if okc and r["kind"] != "plumbing":
                    ndec += 1
                ctx.check(okc, "C15-A", k, r["site"], b.id,
                          "option %s is read here as %s (%s); not a sanctioned reader — the option would influence more "
                          "than its documented effect" % (f["name"], r["kind"], str(r["detail"])[:80]))
            if key0 in FLOORS:
                ctx.floor("C15-A", "decision/value reads of %s" % f["name"], ndec, FLOORS[key0])
    # WrappedBlock copies
    for name, fns in (("pad_blocks", ("WrappedBlock::<T>::force_flush_line",)),
                      ("allow_overflow", ("WrappedBlock::<T>::flush_word_hard_wrap", "WrappedBlock::<T>::flush_word",
                                          "WrappedBlock::<T>::add_text"))):
        reads = options.classify_reads(F, "WrappedBlock", name)
        for r in reads:
            b = r["body"]
            ctx.check(r["kind"] == "decision" and any(ends(b.id, fn) for fn in fns), "C15-A",
                      "WrappedBlock.%s@%s:%s" % (name, fn_key(b), r["kind"]), r["site"], b.id,
                      "the block's copy of the option is read outside the functions that decide about overflowing")
        ctx.floor("C15-A", "reads of WrappedBlock.%s" % name, len(reads), 1)
        ws = options.writes(F, "WrappedBlock", name)
        ctx.check(not ws, "C15-A", "WrappedBlock.%s:no-writer" % name, "", "", "%s" % [(b.id, site(b, bb, w)) for b, bb, w, _ in ws])
    # no writer of RenderOptions / HtmlContext fields after construction
    for owner in ("HtmlContext", R):
        a = F.adt(owner)
        for f in a["variants"][0]["fields"]:
            if (owner, f["name"]) in IGNORED_FIELDS:
                continue
            ws = options.writes(F, owner, f["name"])
            ctx.check(not ws, "C15-A", "%s.%s:no-writer" % (owner.split("::")[-1], f["name"]), "", "",
                      "%s" % [(b.id, site(b, bb, w)) for b, bb, w, _ in ws])


def _draw_cut(b):
    from ..util import field_true_edges
    return field_true_edges(b, R, "draw_borders")


def rule_b(ctx):
    F = ctx.facts
    # --- wrap width
    from ..widths import block_width_kinds
    cb, tnew, kinds = block_width_kinds(F)
    wn = [(None, tnew)]
    ctx.check(kinds in (["min", "width"], ["map_or-min"]), "C15-B", "wrap-width=min(m,width)|width", tnew["span"], fn_key(cb),
              "block width is computed as %s" % kinds)
    if kinds == ["min", "width"]:
        # match form: Some ⇒ min, None ⇒ width
        for r in block_width_kinds.last_defs:
            bb = r[1]
            some = False
            for (a, s) in cb.cdeps_transitive(bb):
                neg, src = cb.switch_source(a)
                if src[0] == "discr" and direct_field(cb, src[1]) == (R, "wrap_width"):
                    vals = [v for v, tb in cb.term(a)["targets"] if tb == s]
                    some = vals == [1]
            is_min = r[0] == "call"
            ctx.check(some == is_min, "C15-B", "wrap-width:%s-arm" % ("Some" if is_min else "None"), cb.term(bb)["span"], fn_key(cb), "")
    # --- padding
    ffl = F.one("WrappedBlock::<T>::force_flush_line")
    cut = edges_where(ffl, lambda truth, src, a, s: truth is True and src_field(src) == ("render::text_renderer::WrappedBlock", "pad_blocks"))
    governed = [x for x in ffl.reachable() if unreachable_without_edges(ffl, x, cut)]
    eff = effects_in(ffl, governed)
    calls = sorted({e[1] for e in eff if e[0] == "call"})
    stores = sorted({e[1] for e in eff if e[0] == "store"})
    ctx.check("pad_to" in calls and set(calls) <= {"pad_to", "as_ref", "default", "unwrap_or", "unwrap_or_default", "clone", "cloned",
                                                "as_deref"} and not stores, "C15-B",
              "padding-governs-only-pad_to", ffl.span, ffl.id, "governed by pad_blocks: calls %s, stores %s" % (calls, stores))
    pushes = ffl.calls(lambda cd, t: ends(cd, "Vec::<T, A>::push"))
    ctx.check(len(pushes) == 1 and not unreachable_without_edges(ffl, pushes[0][0], cut), "C15-B", "line-pushed-regardless-of-padding",
              ffl.span, ffl.id, "")
    pt = F.one("TaggedLine::<T>::pad_to")
    pcalls = sorted({callee_method(t) for _bb, t in pt.calls()})
    ws = pt.calls(lambda cd, t: ends(cd, "TaggedLine::<T>::push_ws"))
    okc = set(pcalls) <= {"width", "push_ws"} and len(ws) == 1
    if okc:
        good = False
        for (a, s) in pt.cdeps_transitive(ws[0][0]):
            truth, src = edge_is_true(pt, a, s)
            if src and src[0] == "bin" and ((src[1]["bin"] in ("Gt", "Lt") and truth is True) or (src[1]["bin"] in ("Le", "Ge") and truth is False)):
                good = True   # `if width > w { pad }` or `if width <= w { return }; pad`
        okc = good
    ctx.check(okc, "C15-B", "pad_to-only-appends-spaces-when-narrower", pt.span, pt.id, "calls: %s" % pcalls)
    pw = F.one("TaggedLine::<T>::push_ws")
    rep = pw.calls(lambda cd, t: callee_method(t) == "repeat")
    okc = len(rep) == 1 and ("const", '" "') in pw.atoms(rep[0][1]["args"][0])
    ctx.check(okc, "C15-B", "push_ws-pushes-spaces", pw.span, pw.id, "")
    # --- strikeout
    for nm, op in (("start_strikeout", "push"), ("end_strikeout", "pop")):
        b = F.one(RTRAIT + nm)
        cut = edges_where(b, lambda truth, src, a, s: truth is True and src_field(src) == (R, "use_unicode_strikeout"))
        governed = [x for x in b.reachable() if unreachable_without_edges(b, x, cut)]
        eff = effects_in(b, governed)
        calls = sorted({e[1] for e in eff if e[0] == "call"})
        stores = sorted({e[1] for e in eff if e[0] == "store"})
        ctx.check(op in calls and set(calls) <= {op, "expect"} and not stores, "C15-B",
                  "%s:option-governs-only-filter-%s" % (nm, op), b.span, b.id,
                  "governed by the option: calls %s, stores %s" % (calls, stores))
        # the governed push/pop is on text_filter_stack
        okf = False
        for x in governed:
            t = b.term(x)
            if t["k"] == "call" and callee_method(t) == op:
                okf = direct_field(b, t["args"][0]) == (SUBR, "text_filter_stack")
        ctx.check(okf, "C15-B", "%s:filter-stack" % nm, b.span, b.id, "")
    # the filtered (struck) text only reaches the wrapped block: layout decisions taken before it — the
    # "ignore white space between blocks" test — look at the unfiltered text
    ait = F.one(RTRAIT + "add_inline_text")
    chs = ait.calls(lambda cd, t: callee_method(t) == "chars")
    nfil = 0
    for bb, t in chs:
        at = ait.atoms(t["args"][0])
        # "filtered" = derived from the text_filter_stack (a loop calling the fn pointers, or an iterator fold over them)
        filtered = ("call", None) in at or has_field(at, SUBR, "text_filter_stack")
        nfil += 1
        ctx.check(not filtered and ("arg", 2) in at, "C15-B", "strikeout:whitespace-test-on-unfiltered-text#%d" % nfil, t["span"], ait.id,
                  "the white-space-between-blocks test must look at the document text, not at the output of the strikeout "
                  "filter (a struck space is not white space any more: the option would change the layout)")
    ctx.floor("C15-B", "text inspections in add_inline_text", nfil, 1)
    adds = ait.calls(lambda cd, t: ends(cd, "WrappedBlock::<T>::add_text"))
    a_add = ait.atoms(adds[0][1]["args"][1]) if len(adds) == 1 else set()
    okc = len(adds) == 1 and (("call", None) in a_add or has_field(a_add, SUBR, "text_filter_stack"))
    ctx.check(okc, "C15-B", "strikeout:filtered-text-reaches-add_text", ait.span, ait.id, "")
    # --- borders: every border-line creation governed by draw_borders
    nb = 0
    for fn in ("render_table_tree", RTRAIT + "append_columns_with_borders", RTRAIT + "append_vert_row"):
        b = F.one(fn)
        cut = _draw_cut(b)
        for x in sorted(b.reachable()):
            hits = []
            t = b.term(x)
            if t["k"] == "call" and callee_method(t) in ("add_horizontal_border", "add_horizontal_border_width", "add_horizontal_line"):
                hits.append(callee_method(t))
            for st in b.stmts(x):
                rv = st.get("rv") or {}
                if rv.get("agg") == "adt" and rv.get("variant") == "Line" and ends(rv.get("adt"), "RenderLine"):
                    hits.append("RenderLine::Line")
            for h in hits:
                nb += 1
                ctx.check(unreachable_without_edges(b, x, cut), "C15-B", "border:%s@%s" % (h, fn_key(b)), t["span"], b.id,
                          "a border line is created without draw_borders being true")
    ctx.floor("C15-B", "border-line creation sites in table code", nb, 4)
    # box-drawing constants occur only in the border code
    allowed = ("BorderHoriz::<T>::to_string::{closure}", "BorderHoriz::<T>::to_vertical_lines_above::{closure}",
               RTRAIT + "append_columns_with_borders")
    nconst = 0
    for b in F.bodies.values():
        if options.derived(b):
            continue
        found = set()
        for bb in b.reachable():
            ops = []
            for st in b.stmts(bb):
                rv = st.get("rv") or {}
                ops += ([rv["use"]] if "use" in rv else []) + list(rv.get("ops", []))
            t = b.term(bb)
            if t["k"] == "call":
                ops += list(t["args"])
            for o in ops:
                k = op_const(o)
                if k:
                    v = k.get("char") or k.get("v", "")
                    found |= {c for c in v if c in BOX}
                    if "promoted" in k:
                        for pv in b.promoted_consts(k["promoted"]):
                            found |= {c for c in pv if c in BOX}
        if found:
            nconst += 1
            ctx.check(any(ends(fn_key(b), a) for a in allowed), "C15-B", "box-chars@%s" % fn_key(b), b.span, b.id,
                      "box-drawing characters %s outside the border code" % sorted(found))
    ctx.floor("C15-B", "bodies containing box-drawing constants", nconst, 3)
    # --- raw: only feeds the stacked-row decision
    rtt = F.one("render_table_tree")
    reads = options.classify_reads(F, R, "raw")
    for r in reads:
        if r["kind"] == "decision" and r["body"].id == rtt.id:
            sw = r["detail"]
            # both outcomes only select vert_row: the value assigned under the branch is a bool const / comparison
            governed = [x for x in rtt.reachable() if any(a == sw for (a, s) in rtt.cdeps(
            ).get(x, ()))]
            calls = [callee_method(rtt.term(x)) for x in governed if rtt.term(x)["k"] == "call"]
            ctx.check(set(calls) <= {"width"} or not calls, "C15-B", "raw-only-selects-stacked-layout", rtt.term(sw)["span"], rtt.id,
                      "calls directly governed by raw: %s" % calls)
    # --- wrap_links
    fl = F.one("SubRenderer::<D>::fmt_links")
    reads = [r for r in options.classify_reads(F, R, "wrap_links") if r["kind"] == "decision"]
    if ctx.check(len(reads) == 1, "C15-B", "wrap_links:one-decision", fl.span, fl.id, ""):
        sw = reads[0]["detail"]
        # the not-wrapping edge pushes the whole string
        for s in fl.succ(sw):
            truth, src = edge_is_true(fl, sw, s)
            if truth is False:
                region = fl.reach_from(s)
                ctx.check(any(fl.term(x)["k"] == "call" and callee_method(fl.term(x)) == "push_str" for x in region), "C15-B",
                          "wrap_links:off⇒whole-string-kept", fl.term(s)["span"], fl.id, "")


SETTERS = {
    "pad_block_width": {"pad_block_width": "true"},
    "max_wrap_width": {"max_wrap_width": "Some(arg)"},
    "allow_width_overflow": {"allow_width_overflow": "true"},
    "min_wrap_width": {"min_wrap_width": "arg"},
    "raw_mode": {"raw": "arg", "draw_borders": "false"},
    "no_table_borders": {"draw_borders": "false"},
    "no_link_wrapping": {"wrap_links": "false"},
    "unicode_strikeout": {"use_unicode_strikeout": "arg"},
    "link_footnotes": {"include_link_footnotes": "arg"},
    "use_doc_css": {"use_doc_css": "true"},
}
DEFAULTS = {"use_doc_css": "false", "max_wrap_width": "None", "pad_block_width": "false", "allow_width_overflow": "false",
            "min_wrap_width": "MIN_WIDTH", "raw": "false", "draw_borders": "true", "wrap_links": "true",
            "include_link_footnotes": "false", "use_unicode_strikeout": "true"}


def _value_form(b, op):
    k = op_const(op)
    if k is not None:
        v = k.get("v", "")
        if v in ("true", "false"):
            return v
        if "unevaluated" in k and k["unevaluated"].endswith("MIN_WIDTH"):
            return "MIN_WIDTH"
        return v
    at = b.atoms(op)
    if ("agg", "std::option::Option", "None") in at and not any(a[0] == "arg" for a in at):
        return "None"
    if ("agg", "std::option::Option", "Some") in at and ("arg", 2) in at:
        return "Some(arg)"
    if ("arg", 2) in at and not any(a[0] in ("bin", "un", "call") for a in at):
        return "arg"
    if any(a[0] == "const" and a[1].endswith("MIN_WIDTH") for a in at):
        return "MIN_WIDTH"
    return "?"


TEXT_REWRITERS = ("split", "split_whitespace", "split_ascii_whitespace", "splitn", "rsplit", "split_terminator", "lines", "trim", "trim_start",
                  "trim_end", "trim_matches", "replace", "replacen", "filter", "filter_map", "skip", "skip_while", "take", "take_while", "rev",
                  "join", "concat", "to_lowercase", "to_uppercase", "dedup", "step_by", "strip_prefix", "strip_suffix", "collect", "fold")


def strikeout_filter_shape(F):
    """(problems, info): the filter copies every character and adds nothing but U+0336 — written as a loop
    (`for c in s.chars() { out.push(c); if .. { out.push(U+0336) } }`) or as an iterator chain
    (`s.chars().flat_map(|c| once(c).chain(cond.then_some(U+0336))).collect()`)."""
    b = F.one("render::text_renderer::filter_text_strikeout")
    bodies_ = [b] + [c for _x, c in transitive_closures(F, b)]
    problems = []
    ch = b.calls(lambda cd, t: callee_method(t) == "chars" and ("arg", 1) in b.atoms(t["args"][0]))
    if len(ch) != 1:
        return ["the filter does not walk s.chars() exactly once"], b
    nx = b.calls(lambda cd, t: callee_method(t) == "next" and "Chars<" in (callee_def(t) or ""))
    fm = b.calls(lambda cd, t: callee_method(t) == "flat_map")
    allowed_iter = ("flat_map", "collect") if (fm and not nx) else ()
    bad = sorted({callee_method(t) for x in bodies_ for _bb, t in x.calls() if callee_method(t) in TEXT_REWRITERS and callee_method(t) not in allowed_iter})
    if bad:
        problems.append("the filter uses %s: the struck text is re-assembled instead of being copied character by character" % bad)
    if nx:
        nb = nx[0][0]
        pushes = b.calls(lambda cd, t: callee_method(t) in ("push", "push_str", "extend", "insert", "insert_str") and "String" in (callee_def(t) or ""))
        item, marks, other = [], [], []
        for bb, t in pushes:
            k = op_const(t["args"][1]) if len(t["args"]) > 1 else None
            at = b.atoms(t["args"][1]) if len(t["args"]) > 1 else set()
            if k is not None and k.get("int") == 0x336:
                marks.append(bb)
            elif callee_method(t) == "push" and has_call(at, "Iterator>::next", "::next") and not any(a[0] == "bin" for a in at):
                item.append(bb)
            else:
                other.append(t["span"])
        if other:
            problems.append("other pushes at %s" % other)
        if not item or not marks:
            problems.append("the character itself / U+0336 is not pushed (%d / %d)" % (len(item), len(marks)))
        some = None
        for a in b.reach_from(nb):
            if b.term(a)["k"] == "switch":
                _neg, src = b.switch_source(a)
                if src and src[0] == "discr" and src[1]["l"] == nx[0][1]["dest"]["l"]:
                    tb = [tb for v, tb in b.term(a)["targets"] if v == 1]
                    some = tb[0] if tb else None
                    break
        if some is None or nb in b.reach_from(some, avoid=item):
            problems.append("a path through the loop skips the push of the character itself")
    elif fm:
        # iterator form: the flat_map closure yields once(c) followed by an optional U+0336
        cpl = direct_place(b, fm[0][1]["args"][1])
        sd = b.single_def(cpl["l"]) if cpl is not None and not cpl["p"] else None
        cb = F.bodies.get(sd[3]["rv"].get("def")) if sd and sd[0] == "stmt" and sd[3]["rv"].get("agg") == "closure" else None
        if cb is None or not b.calls(lambda cd, t: callee_method(t) == "collect"):
            problems.append("flat_map(..).collect() shape not recognised")
        else:
            onces = cb.calls(lambda cd, t: callee_method(t) == "once")
            chains = cb.calls(lambda cd, t: callee_method(t) == "chain")
            first_ok = len(onces) == 1 and ("arg", 2) in cb.atoms(onces[0][1]["args"][0]) and not any(a[0] == "bin" for a in cb.atoms(onces[0][1]["args"][0], through_calls=False))
            consts = set()
            for x in cb.reachable():
                tt = cb.term(x)
                ops_ = list(tt.get("args") or []) + [o for st in cb.stmts(x) for o in ((st.get("rv") or {}).get("ops") or []) + [(st.get("rv") or {}).get("use")] if o]
                for o in ops_:
                    k = op_const(o) if isinstance(o, dict) else None
                    if k and k.get("ty") == "char":
                        consts.add(k.get("int"))
            chain_ok = len(chains) == 1 and has_call(cb.atoms(chains[0][1]["args"][0]), "::once")
            if not (first_ok and chain_ok and consts == {0x336}):
                problems.append("the flat_map closure must yield once(c) chained with an optional U+0336 (once=%d, chain=%d, char constants %s)"
                                % (len(onces), len(chains), sorted(map(str, consts))))
    else:
        problems.append("neither a loop over chars() nor chars().flat_map(..).collect()")
    return problems, b


def rule_d(ctx):
    F = ctx.facts
    problems, b = strikeout_filter_shape(F)
    ctx.check(not problems, "C15-D", "strikeout-filter:every-character-kept-only-U+0336-added", b.span, b.id, "; ".join(problems))


def rule_c(ctx):
    F = ctx.facts
    n = 0
    for nm, want in SETTERS.items():
        bs = F.find("Config::<D>::" + nm)
        if not bs:
            if nm == "use_doc_css" and (not ctx.has_css):
                continue
            raise AnchorMissing("builder %s" % nm)
        b = bs[0]
        got = {}
        for (bb, where, pl, acc) in b.all_places():
            if acc != "write" or not pl["p"]:
                continue
            last = pl["p"][-1]
            if isinstance(last, dict) and ends(last.get("o"), "config::Config"):
                st = b.stmts(bb)[where[1]]
                got[last["n"]] = _value_form(b, st["rv"]["use"]) if "use" in st["rv"] else _value_form(b, {"c": st["lhs"]})
                if "agg" in st["rv"]:
                    at = set()
                    for o in st["rv"]["ops"]:
                        at |= b.atoms(o)
                    got[last["n"]] = "Some(arg)" if st["rv"].get("variant") == "Some" and ("arg", 2) in at else "?"
        if not got:
            # the setter written with struct-update syntax: `Self { raw, draw_borders: false, ..self }` — every field that
            # is not copied from the same field of self counts as written
            for x in sorted(b.reachable()):
                for st in b.stmts(x):
                    rv = st.get("rv") or {}
                    if st["k"] == "assign" and rv.get("agg") == "adt" and ends(rv.get("adt"), "config::Config"):
                        for fld, o in zip(rv["fields"], rv["ops"]):
                            if direct_field(b, o) == ("config::Config", fld):
                                continue
                            got[fld] = _value_form(b, o)
        n += 1
        ctx.check(got == want, "C15-C", "setter:%s" % nm, b.span, b.id, "writes %s, documented %s" % (got, want))
    ctx.floor("C15-C", "builder setters", n, 9)
    wd = F.one("config::with_decorator")
    lits = [(b, st, ops) for (b, st, ops) in options.literal_inits(F, "config::Config") if b.id == wd.id]
    require(len(lits) == 1, "with_decorator builds Config with one literal")
    b, st, ops = lits[0]
    for fld, want in DEFAULTS.items():
        if fld not in ops:
            if fld == "use_doc_css" and (not ctx.has_css):
                continue
            ctx.violation("C15-C", "default:%s" % fld, st["span"], b.id, "field missing")
            continue
        got = _value_form(b, ops[fld])
        ctx.check(got == want, "C15-C", "default:%s=%s" % (fld, want), st["span"], b.id, "default is %s" % got)
    # plain(): do_decorate + link_footnotes(true)
    pl = F.one("config::plain")
    lf = pl.calls(lambda cd, t: ends(cd, "Config::<D>::link_footnotes"))
    okc = len(lf) == 1 and (op_const(lf[0][1]["args"][1]) or {}).get("v") == "true"
    ctx.check(okc, "C15-C", "plain()=footnotes-on", pl.span, pl.id, "")
