"""C03 — document text is preserved: nothing lost, duplicated, reordered or invented (structural clauses)."""
from ..facts import AnchorMissing, callee_def, op_place, op_const, is_bare, feasible_states
from ..util import (SUBR, RTRAIT, ends, site, fn_key, callee_method, require, has_call, has_field, find_dispatch,
                    closure_bodies_created_in, transitive_closures, deep_atoms, direct_field, direct_place,
                    edge_is_true, edges_where, unreachable_without_edges, origin)
from .. import drops
from ..widths import norm as widths_norm
from .. import widths
from .C07 import INFINITE

EXPLANATION = (
    "A piece of document text is treated as a linear resource and Rust's ownership makes its destruction "
    "visible as a Drop in drop-elaborated MIR. Decided statically: (A) every feasible normal-path destruction "
    "of a render node (or a container of them) and every filtering iterator over render nodes in the "
    "tree-building code is an enumerated site — auto-discharged (emptiness-guarded, iterator exhausted, error "
    "path), reviewed in tables/drops_nodes.txt, or a known finding; (B) the set of element names that yield "
    "nothing without looking at their children, decoded from the interned-atom constants in MIR, is exactly "
    "{head, script, style, link, meta, hr}; unknown elements forward their children; text nodes become Text "
    "with the node's contents; (C) the dispatches over the node kind are exhaustive and every variant's payload "
    "flows to the renderer or to the children list; (D) line pieces (tagged strings, lines) are destroyed only at "
    "reviewed sites; (E) prefix iterators are infinite (a finite one would truncate a block); (G) no "
    "order-perturbing operation is applied to a sequence of nodes, rows, cells, sub-renderers or lines outside "
    "the reviewed stack/prepend idioms (positive control: the css parser's reverse() is found by the same query).")
NOT_DECIDED = "that whitespace bookkeeping never swallows a non-space character; hard-wrap split arithmetic"
ASSUMPTIONS = ["html5ever's tree construction only leaves td/th/script/style/template and whitespace under <tr>, and tr/script/style/template/whitespace under <tbody> (text and other elements are foster-parented)"]

NODE_TYPES = ("RenderNode", "RenderTable")
BUILD_FNS = ("process_dom_node", "table_to_render_tree", "tbody_to_render_tree", "tr_to_render_tree", "td_to_render_tree",
             "pending", "pending_noempty", "insert_child", "tree_map_reduce", "dom_to_render_tree_with_context",
             "RenderTable::new", "RenderTable::into_rows", "RenderTableRow::into_cells", "do_render_node",
             "render_table_tree", "render_table_row", "render_table_row_vert", "render_table_cell", "pending2",
             "render_tree_to_string", "RenderTree::render_with_context")
IGNORED = {"head", "script", "style", "link", "meta", "hr"}
SEQ_TYPES = ("RenderNode", "RenderTableRow", "RenderTableCell", "SubRenderer<", "RenderLine<", "TaggedLine<", "TaggedLineElement<",
             "RenderInput",  # RenderInput: the DOM children still to be converted (their order is document order)
             "Rc<markup5ever_rcdom::Node>")  # the DOM's own child lists (vendored TreeSink)
ORDER_OPS = ("rev", "reverse", "sort", "sort_by", "sort_by_key", "sort_unstable", "sort_unstable_by", "sort_unstable_by_key",
             "swap", "swap_remove", "pop", "pop_front", "pop_back", "push_front", "insert", "remove", "rotate_left",
             "rotate_right", "dedup", "retain", "drain", "split_off", "truncate")
ORDER_OK = {
    ("render::text_renderer::TextRenderer::<D>::pop", "pop"): "renderer stack (LIFO by design)",
    ("render::text_renderer::TextRenderer::<D>::into_inner", "pop"): "renderer stack: the single remaining renderer",
    ("render::text_renderer::TaggedLine::<T>::insert_front", "insert"): "prepends the block prefix at index 0 (checked: constant 0)",
    ("render::text_renderer::TaggedLine::<T>::consume", "drain"): "drain(..) of the whole word in order",
    ("render::text_renderer::SubRenderer::<D>::fmt_links", "drain"): "drain(..) of all footnote lines in order",
    (RTRAIT + "append_columns_with_borders", "remove"): "removes a leading border line of a nested table (guarded by starts_border)",
    (RTRAIT + "append_columns_with_borders", "pop"): "removes a trailing border line of a nested table (guarded by `if let Some(Line)`)",
    ("insert_child", "insert"): "inserts the marker / generated content at index 0 (ChildPosition::Start)",
    ("tree_map_reduce::{closure}", "pop"): "returns the single result of the root",
    ("css::parser::parse_selector", "reverse"): "selectors are stored innermost-first: one reverse of the whole component list after parsing",
    ("css::parser::parse_selector", "pop"): "drops a trailing descendant combinator (guarded by `last() == Some(CombDescendant)`)",
    ("<css::Selector as std::fmt::Display>::fmt", "rev"): "prints the components back in written order (display only; not used by matching)",
    ("tree_map_reduce", "pop"): "the walk's own stack of unfinished parents (LIFO is the traversal: the innermost parent receives the finished child)",
    ("<markup5ever_rcdom::Node as std::ops::Drop>::drop", "pop"): "iterative destruction of a subtree (no rendering involved)",
    ("markup5ever_rcdom::remove_from_parent", "remove"): "upstream TreeSink: removes the node at the index get_parent_and_index found (enumerate().find by pointer identity)",
    ("<markup5ever_rcdom::RcDom as html5ever::tree_builder::TreeSink>::append_before_sibling", "insert"): "upstream TreeSink: inserts at the sibling's index",
    ("<markup5ever_rcdom::SerializableHandle as html5ever::serialize::Serialize>::serialize", "rev"): "serialisation work list (not used by rendering)",
}


def check(ctx):
    ctx.rule("C03-A", "render-node accounting: every feasible normal-path destruction of a RenderNode (or container) and "
             "every filtering of node sequences in tree-building code is an enumerated, justified site")
    ctx.rule("C03-B", "ignored-element set is exactly {head, script, style, link, meta, hr}; unknown elements forward "
             "children; text nodes keep their contents")
    ctx.rule("C03-C", "dispatch over the node kind is exhaustive; every variant's payload reaches the renderer or the "
             "children list")
    ctx.rule("C03-D", "line-piece accounting: tagged strings/lines are destroyed only at reviewed sites")
    ctx.rule("C03-E", "prefix iterators are infinite")
    ctx.rule("C03-F", "zero-width skip: beyond the known integer-division case (K3) a column holding text cannot be shrunk to "
             "zero — the layout decision and the shrink loop agree on the separator count")
    ctx.rule("C03-G", "no order-perturbing operation on node/row/cell/renderer/line sequences outside reviewed idioms")
    ctx.rule("C03-H", "a node kind that a parent selects its children by (li under ol, dt/dd under dl, tbody/tr/td under "
             "table/tbody/tr) is never wrapped into another kind by insert_child (a wrapped child would be filtered out)")
    ctx.guard("C03-F", widths.rule_min_size_matches_shrink, "C03-F")
    ctx.guard("C03-F", widths.rule_estimate_merge, "C03-F")
    ctx.guard("C03-F", widths.rule_stacked_cells_full_width, "C03-F")
    ctx.rule("C03-I", "buffer hand-over in WrappedBlock: flush_word returns Ok only after the pending word was moved out "
             "(line.consume / hard wrap) or TaggedLine::is_empty(word) held; flush_line likewise for the line; flush and "
             "into_lines run them in that order before the text is taken")
    ctx.guard("C03-H", rule_h)
    ctx.guard("C03-I", rule_i)
    ctx.rule("C03-J", "an image stands for its alt text and nothing else: the `img` arm of the DOM walk looks only at the `alt` and "
             "`src` attributes, and the Img node's text is an attribute value")
    ctx.guard("C03-J", rule_j)
    ctx.rule("C03-K", "the DOM walk drops a subtree (TreeMapResult::Nothing) only at the reviewed kinds of sites: non-element nodes, "
             "the ignored element names, display:none, an image without alt or src, the pass-through of an inner Nothing")
    ctx.guard("C03-K", rule_k)
    ctx.rule("C03-L", "an error while rendering is never turned into silence: the Result of every fallible call of the crate is "
             "propagated (`?`) or returned — a handled TooNarrow would let the rendering succeed with the text of the failed "
             "block missing (shared with C11-G)")
    from . import C11
    ctx.guard("C03-L", C11.rule_g_as, "C03-L")
    for rid, fn in (("C03-A", rule_a), ("C03-B", rule_b), ("C03-C", rule_c), ("C03-D", rule_d), ("C03-E", rule_e),
                    ("C03-G", rule_g)):
        ctx.guard(rid, fn)


SELECTOR_FNS = ("process_dom_node", "table_to_render_tree", "tbody_to_render_tree", "tr_to_render_tree")


def rule_h(ctx):
    """insert_child attaches a marker (or generated content) to an existing node either in place (pushing into the
    node's children) or by wrapping both into a new Container.  Parents that pick their children by kind — the `ol`
    filter keeps ListItem, the `dl` filter Dt/Dd, the table reducers TableBody/TableRow/TableCell — would silently drop a
    wrapped child, text included.  Sibling agreement: every kind some parent selects by is handled in place."""
    F = ctx.facts
    info = F.adt("RenderNodeInfo")
    names = {v["discr"]: v["name"] for v in info["variants"]}
    ic = F.one("insert_child")
    disp = find_dispatch(ic, "RenderNodeInfo", 3)
    inplace = {names[v] for v, tb in ic.term(disp)["targets"]}
    other = ic.term(disp)["otherwise"]
    # the otherwise arm is the one that builds the wrapping Container
    wraps = other is not None and any((st.get("rv") or {}).get("variant") == "Container" for x in ic.reach_from(other) for st in ic.stmts(x))
    ctx.check(wraps, "C03-H", "insert_child:default-arm-wraps", ic.span, ic.id,
              "expected the default arm of insert_child to build Container[new, orig]")
    selected = {}
    for b in F.bodies.values():
        root = b.root if b.kind == "Closure" else b.id
        if not any(ends(root, f) for f in SELECTOR_FNS):
            continue
        for a in sorted(b.reachable()):
            t = b.term(a)
            if t["k"] != "switch":
                continue
            neg, src = b.switch_source(a)
            if src[0] == "discr" and src[1]["ty"].startswith("RenderNodeInfo") and len(t["targets"]) <= 4 and t["otherwise"] is not None:
                for v, tb in t["targets"]:
                    selected.setdefault(names[v], fn_key(b))
    ctx.floor("C03-H", "node kinds that parents select children by", len(selected), 6)
    for vn, where in sorted(selected.items()):
        ctx.check(vn in inplace, "C03-H", "insert_child:in-place:%s" % vn, ic.span, ic.id,
                  "%s selects its children by the kind %s, but insert_child wraps a %s into a Container when a marker or "
                  "generated content is attached to it: such a child is then dropped with its text" % (where, vn, vn))


HANDOVER = (
    # (function, buffer field, calls that move the buffer's contents on)
    ("WrappedBlock::<T>::flush_word", "word", ("consume", "flush_word_hard_wrap")),
    ("WrappedBlock::<T>::flush_line", "line", ("force_flush_line",)),
)


def rule_i(ctx):
    """tables/drops_elements.txt discharges the destruction of a consumed block's word and line by 'flush() moved
    them on'.  That holds when, in flush_word / flush_line, every path to a normal return either passes one of the
    calls that move the buffer on, or takes the true edge of TaggedLine::is_empty(<that buffer>) — and no other test
    (a width counter, a flag) can skip the move: a word made of zero-width characters has wordlen 0 but is not empty."""
    F = ctx.facts
    for fn, field, movers in HANDOVER:
        b = F.one(fn)
        def on_buffer(op):
            f = direct_field(b, op)
            return f is not None and ends(f[0], "WrappedBlock") and f[1] == field
        mv = set()
        for bb, t in b.calls(lambda cd, t: callee_method(t) in movers):
            if callee_method(t) == "consume":
                if len(t["args"]) > 1 and on_buffer(t["args"][1]):
                    mv.add(bb)
            else:
                mv.add(bb)
        ctx.floor("C03-I", "calls in %s that move self.%s on" % (fn.split("::")[-1], field), len(mv), len(movers))
        def pred(truth, src, a, s):
            return truth is True and src and src[0] == "call" and callee_method(src[1]) == "is_empty" and \
                ends(callee_def(src[1]) or "", "TaggedLine::<T>::is_empty") and on_buffer(src[1]["args"][0])
        cut = edges_where(b, pred)
        ctx.floor("C03-I", "is_empty(self.%s) tests in %s" % (field, fn.split("::")[-1]), len({a for a, _s in cut}), 1)
        seen, st = set(), [0]
        while st:
            x = st.pop()
            if x in seen:
                continue
            seen.add(x)
            if x in mv:
                continue
            for s in b.succ(x):
                if (x, s) in cut or b.is_cleanup(s):
                    continue
                st.append(s)
        # normal returns: the unit function returns; the Result one assigns Ok
        bad = []
        for x in sorted(seen):
            if x in mv:
                continue
            isres = b.locals[0]["ty"].startswith("std::result::Result")
            if isres:
                if any(st_["k"] == "assign" and st_["lhs"]["l"] == 0 and (st_.get("rv") or {}).get("variant") == "Ok" for st_ in b.stmts(x)):
                    bad.append(x)
            elif b.term(x)["k"] == "return":
                bad.append(x)
        ctx.check(not bad, "C03-I", "%s:%s-moved-or-empty" % (fn.split("::")[-1], field), b.span, b.id,
                  "%s can return normally with self.%s neither moved on (%s) nor found empty by TaggedLine::is_empty: "
                  "the pending pieces are then dropped when the block is consumed (reachable normal exit: bb%s)"
                  % (fn.split("::")[-1], field, " / ".join(movers), bad[:3]))
    # flush = flush_word; flush_line, in this order, on the normal path; into_lines flushes before taking the text
    fl = F.one("WrappedBlock::<T>::flush")
    fw = fl.calls(lambda cd, t: ends(cd, "WrappedBlock::<T>::flush_word"))
    fline = fl.calls(lambda cd, t: ends(cd, "WrappedBlock::<T>::flush_line"))
    okc = len(fw) == 1 and len(fline) == 1 and fl.dominates(fw[0][0], fline[0][0]) and \
        all(fl.dominates(fline[0][0], x) for x in fl.reachable() for st_ in fl.stmts(x)
            if st_["k"] == "assign" and st_["lhs"]["l"] == 0 and (st_.get("rv") or {}).get("variant") == "Ok")
    ctx.check(okc, "C03-I", "flush:word-then-line", fl.span, fl.id,
              "flush must call flush_word and then flush_line on every path that returns Ok")
    il = F.one("WrappedBlock::<T>::into_lines")
    fc = il.calls(lambda cd, t: ends(cd, "WrappedBlock::<T>::flush"))
    reads = [x for x in il.reachable() for st_ in il.stmts(x) if st_["k"] == "assign" and
             any(ends(o, "WrappedBlock") and n == "text" for o, n in _rv_fields(st_.get("rv") or {}))]
    ctx.floor("C03-I", "reads of self.text in into_lines", len(reads), 1)
    ctx.check(len(fc) == 1 and all(il.dominates(fc[0][0], x) and x != fc[0][0] for x in reads), "C03-I",
              "into_lines:flush-before-text", il.span, il.id, "into_lines must flush before it takes self.text")


def _rv_fields(rv):
    out = []
    for k in ("use", "ref", "cast"):
        v = rv.get(k)
        pl = op_place(v) if k != "ref" else v
        if isinstance(pl, dict) and "p" in pl:
            out += [(e["o"], e["n"]) for e in pl["p"] if isinstance(e, dict) and "f" in e]
    for o in rv.get("ops", []) or []:
        pl = op_place(o)
        if pl:
            out += [(e["o"], e["n"]) for e in pl["p"] if isinstance(e, dict) and "f" in e]
    return out


def in_build(b):
    return any(ends(b.root if b.kind == "Closure" else b.id, f) for f in BUILD_FNS)


def _guarded_by_is_empty(b, bb, place):
    """drop of a Vec on the edge where `vec.is_empty()` was true"""
    if not is_bare(place):
        return False
    def pred(truth, src, a, s):
        if truth is not True or not src or src[0] != "call" or callee_method(src[1]) != "is_empty":
            return False
        pl = direct_place(b, src[1]["args"][0])
        return pl is not None and pl["l"] == place["l"]
    cut = edges_where(b, pred)
    if not cut:
        return False
    # drop-flag aware: no feasible state reaches the drop once the is_empty()==true edges are removed
    return not feasible_states(b, bb, cut_edges=cut)


def rule_a(ctx):
    F = ctx.facts
    table = drops.load_table("drops_nodes.txt")
    inv = drops.inventory(F, lambda ty: any(n in ty for n in NODE_TYPES))
    n = 0
    used = set()
    counts = {}
    info = F.adt("RenderNodeInfo")
    names = {v["discr"]: v["name"] for v in info["variants"]}
    for (b, bb, t, states) in inv:
        pl = t["place"]
        ex = widths_norm(b.canon(pl))
        ex_readable = b.expr(pl)
        key = "%s:drop(%s)" % (fn_key(b), ex)
        s = t["span"]
        if not in_build(b):
            ctx.info("C03-A", key + ":off-route", s, b.id, "outside the tree-building/rendering routes")
            continue
        n += 1
        errs = drops.error_blocks(b)
        if drops.on_error_path(b, bb, errs):
            ctx.ok("C03-A", key + ":error-path", s, b.id, "rendering is abandoned on this path")
            continue
        if any(pl["ty"].startswith(it) for it in drops.ITER_TYPES) and drops.loop_exit_of_iterator(b, bb, pl):
            ctx.ok("C03-A", key + ":iterator-exhausted", s, b.id, "dropped after next() returned None")
            continue
        if pl["ty"].startswith("std::vec::Vec<") and _guarded_by_is_empty(b, bb, pl):
            ctx.ok("C03-A", key + ":empty-vec", s, b.id, "dropped only on the is_empty() edge")
            continue
        row = table.get((fn_key(b), ex))
        if row:
            counts[(fn_key(b), ex)] = counts.get((fn_key(b), ex), 0) + drops.incoming_paths(b, bb)
            used.add((fn_key(b), ex))
            ctx.ok("C03-A", key, s, b.id, row, how="table")
            continue
        ctx.violation("C03-A", key, s, b.id,
                      "a %s can be destroyed here on a feasible normal path: document text inside it would be lost"
                      % pl["ty"].split("<")[0].split("::")[-1])
    ctx.floor("C03-A", "feasible destruction sites of render nodes on the build/render routes", n, 15)
    drops.check_counts(ctx, "C03-A", table, counts)
    # filtering iterators over node sequences (destruction happens inside std)
    nf = 0
    for b in F.bodies.values():
        if not in_build(b) or (b.raw.get("from_expansion") and b.kind != "Closure"):
            continue
        for bb, t in b.calls(lambda cd, t: callee_method(t) in ("filter", "filter_map", "flat_map", "take", "skip", "take_while",
                                                                "skip_while", "step_by", "truncate", "clear", "retain")):
            c = t["callee"]
            tys = " ".join(c.get("targs", []) + [c.get("self_ty", "")])
            if not any(n_ in tys for n_ in ("RenderNode", "RenderTableRow", "RenderTableCell")):
                continue
            sty = c.get("self_ty") or ""
            if ("slice::Iter<" in sty or "slice::IterMut<" in sty) and "IntoIter" not in sty and "Drain" not in sty:
                continue  # an iterator over borrowed nodes: skipping an element destroys nothing
            nf += 1
            # filter / filter_map / flat_map over Options are one idiom: "keep the children of the expected kind"
            meth = "filter" if callee_method(t) in ("filter", "filter_map", "flat_map") else callee_method(t)
            key = "%s:%s" % (fn_key(b), meth)
            row = table.get((fn_key(b), meth))
            if row:
                used.add((fn_key(b), meth))
                ctx.ok("C03-A", key, t["span"], b.id, row, how="table")
            else:
                ctx.violation("C03-A", key, t["span"], b.id,
                              "children are filtered here: a child that is not of the expected kind is destroyed together with its text")
    ctx.floor("C03-A", "filtering sites over node sequences", nf, 4)
    for k in table:
        if k not in used:
            ctx.info("C03-A", "stale-table-row:%s:%s" % k, "", k[0], "table row no longer matches a site")
    # reducers that can return None must test their children for emptiness: pending (not pending_noempty) closures
    # returning None are enumerated above through the drops of their `children` argument.


def decode_atom(v):
    """string_cache packed atom: inline (tag 1) atoms carry up to 7 bytes; static atoms (tag 2) only an index"""
    tag = v & 0x3
    if tag == 1:
        ln = (v >> 4) & 0xF
        bs = bytes(((v >> (8 * (i + 1))) & 0xFF) for i in range(ln))
        try:
            return bs.decode("ascii")
        except UnicodeDecodeError:
            return None
    return None


def rule_b(ctx):
    F = ctx.facts
    pdn = F.one("process_dom_node")
    # name tests: switch on Eq(const atom, name.local)
    tests = {}
    for a in sorted(pdn.reachable()):
        t = pdn.term(a)
        if t["k"] != "switch":
            continue
        neg, src = pdn.switch_source(a)
        if src[0] == "bin" and src[1]["bin"] == "Eq":
            for side in ("a", "b"):
                ats = pdn.atoms(src[1][side], through_calls=False)
                ints = [x[1] for x in ats if x[0] == "int"]
                other = pdn.atoms(src[1]["b" if side == "a" else "a"], through_calls=False)
                if ints and any(x[0] == "field" and x[2] == "local" for x in other):
                    for s in pdn.succ(a):
                        truth, _ = edge_is_true(pdn, a, s)
                        if truth is True:
                            tests[a] = (ints[0], s)
    ctx.floor("C03-B", "element-name tests in process_dom_node", len(tests), 30)
    # targets that produce Nothing directly (no children looked at)
    nothing_names = set()
    unknown = []
    by_target = {}
    for a, (val, tgt) in tests.items():
        by_target.setdefault(tgt, []).append(val)
    for tgt, vals in by_target.items():
        # follow gotos
        x = tgt
        hops = 0
        while pdn.term(x)["k"] == "goto" and not pdn.stmts(x) and hops < 4:
            x = pdn.term(x)["target"]
            hops += 1
        is_nothing = any(st.get("rv", {}).get("variant") == "Nothing" and ends(st["rv"].get("adt"), "TreeMapResult") for st in pdn.stmts(x)) \
            and pdn.term(x)["k"] == "goto"
        if is_nothing:
            for v in vals:
                nm = decode_atom(v)
                if nm is None:
                    unknown.append(v)
                else:
                    nothing_names.add(nm)
    ctx.check(not unknown, "C03-B", "ignored-elements:all-decodable", pdn.span, pdn.id, "undecodable atoms %s" % unknown)
    ctx.check(nothing_names == IGNORED, "C03-B", "ignored-elements={head,script,style,link,meta,hr}", pdn.span, pdn.id,
              "elements whose content is discarded without being looked at: %s" % sorted(nothing_names))
    # the fallback arm forwards children: the last false edge of the name-test chain reaches pending_noempty(Container)
    # = some pending_noempty call is reachable from the element branch without taking any true edge of a name test
    true_edges = {(a, s) for a, (v, s) in tests.items()}
    first = min(tests) if tests else 0
    seen, st_ = set(), [first]
    while st_:
        x = st_.pop()
        if x in seen:
            continue
        seen.add(x)
        for s in pdn.succ(x):
            if (x, s) in true_edges or pdn.is_cleanup(s):
                continue
            st_.append(s)
    fb = [(x, pdn.term(x)) for x in seen if pdn.term(x)["k"] == "call" and ends(callee_def(pdn.term(x)), "pending_noempty")]
    okc = False
    for x, t in fb:
        cl = direct_place(pdn, t["args"][1])
        for (cbb, i, cb, ops, fields) in closure_bodies_created_in(F, pdn):
            if cbb == x or pdn.dominates(cbb, x):
                if any(st.get("rv", {}).get("variant") == "Container" for y in cb.reachable() for st in cb.stmts(y)):
                    okc = True
    ctx.check(okc, "C03-B", "unknown-elements-forward-children", pdn.span, pdn.id,
              "the catch-all element arm must keep the children (pending_noempty → Container)")
    # text nodes
    nd = F.adt("NodeData")
    disp = find_dispatch(pdn, "NodeData", 3)
    tv = [v["discr"] for v in nd["variants"] if v["name"] == "Text"][0]
    cv = [v["discr"] for v in nd["variants"] if v["name"] == "Comment"][0]
    ttb = [tb for v, tb in pdn.term(disp)["targets"] if v == tv]
    ctb = [tb for v, tb in pdn.term(disp)["targets"] if v == cv]
    okt = False
    if ttb:
        region = [x for x in pdn.reachable() if pdn.dominates(ttb[0], x)]
        for x in region:
            for st in pdn.stmts(x):
                rv = st.get("rv") or {}
                if rv.get("agg") == "adt" and rv.get("variant") == "Text" and ends(rv.get("adt"), "RenderNodeInfo"):
                    at = pdn.atoms(rv["ops"][0])
                    okt = ("field", "markup5ever_rcdom::NodeData::Text", "contents") in at and not any(
                        a[0] == "call" and callee_method({"callee": {"def": a[1]}}) in ("trim", "replace", "to_lowercase", "to_uppercase") for a in at)
    ctx.check(okt, "C03-B", "text-node→Text(contents)", pdn.span, pdn.id, "")
    okc = False
    if ctb:
        okc = any(st.get("rv", {}).get("variant") == "Nothing" for st in pdn.stmts(ctb[0]))
    ctx.check(okc, "C03-B", "comment→Nothing", pdn.span, pdn.id, "")


def rule_j(ctx):
    """An image contributes its alt text and nothing else (no alt: nothing): in the `img` arm the only attribute names looked
    at are `alt` and `src`."""
    F = ctx.facts
    pdn = F.one("process_dom_node")
    tests = []
    for a in sorted(pdn.reachable()):
        t = pdn.term(a)
        if t["k"] != "switch":
            continue
        neg, src = pdn.switch_source(a)
        if src[0] == "bin" and src[1]["bin"] == "Eq":
            for side in ("a", "b"):
                ats = pdn.atoms(src[1][side], through_calls=False)
                ints = [x[1] for x in ats if x[0] == "int"]
                other = pdn.atoms(src[1]["b" if side == "a" else "a"], through_calls=False)
                if ints and any(x[0] == "field" and x[2] == "local" for x in other):
                    for s2 in pdn.succ(a):
                        truth, _ = edge_is_true(pdn, a, s2)
                        if truth is True:
                            tests.append((a, decode_atom(ints[0]), s2))
    imgs = [(a, s2) for a, nm, s2 in tests if nm == "img"]
    require(len(imgs) == 1, "the `img` element test of process_dom_node")
    region = {x for x in pdn.reachable() if pdn.dominates(imgs[0][1], x)}
    aggs = [(x, st) for x in sorted(region) for st in pdn.stmts(x)
            if (st.get("rv") or {}).get("agg") == "adt" and (st.get("rv") or {}).get("variant") == "Img" and ends(st["rv"].get("adt"), "RenderNodeInfo")]
    ctx.floor("C03-J", "Img node constructions in the img arm", len(aggs), 1)
    # attribute names are compared as strings: `&attr.name.local == "alt"` (the literal is a promoted constant)
    attr_names = set()
    for bb, t in pdn.calls(lambda cd, t: callee_method(t) in ("eq", "ne")):
        if bb not in region or len(t["args"]) < 2:
            continue
        for i in (0, 1):
            if any(a[0] == "field" and a[2] == "local" for a in pdn.atoms(t["args"][i], through_calls=False)):
                o = origin(pdn, t["args"][1 - i])
                k = (o[1] or {}) if o and o[0] == "const" else {}
                if "promoted" in k:
                    attr_names |= {v.strip('"') for v in pdn.promoted_consts(k["promoted"]) if v.startswith('"')}
                elif str(k.get("v", "")).startswith('"'):
                    attr_names.add(k["v"].strip('"'))
                else:
                    attr_names.add("?")
    names = sorted(attr_names | {nm or "?" for a, nm, s2 in tests if a in region})
    ctx.check(names == ["alt", "src"], "C03-J", "img-arm:attributes={alt,src}", pdn.term(imgs[0][0])["span"], pdn.id,
              "the img arm looks at the attributes %s: an image stands for its alt text only — text taken from another attribute "
              "is invented, and a loop that stops early on it can lose the alt text" % names)
    for x, st in aggs:
        at = pdn.atoms(st["rv"]["ops"][1]) if len(st["rv"]["ops"]) > 1 else set()
        ctx.check(any(a[0] == "field" and a[2] == "value" for a in at), "C03-J", "img-arm:text-is-an-attribute-value", st["span"], pdn.id, "")


def rule_k(ctx):
    """Where process_dom_node yields Nothing (a subtree that contributes nothing): the non-element arms of the node-kind
    dispatch, the element-name test of the ignored elements (their set is C03-B), an image without alt or src, the
    pass-through of an inner Nothing, and — with css — the display:none edge (C18-A).  Any other Nothing is a new way of
    dropping a subtree."""
    F = ctx.facts
    pdn = F.one("process_dom_node")
    idom = pdn.idom()
    n = 0
    for x in sorted(pdn.reachable()):
        for st in pdn.stmts(x):
            rv = st.get("rv") or {}
            if not (rv.get("variant") == "Nothing" and ends(rv.get("adt"), "TreeMapResult")):
                continue
            n += 1
            a = idom[x] if not isinstance(idom, dict) else idom.get(x)
            hops = 0
            while a is not None and pdn.term(a)["k"] != "switch" and hops < 400:
                na = idom[a] if not isinstance(idom, dict) else idom.get(a)
                a = None if na == a else na
                hops += 1
            kind = None
            if a is not None:
                neg, src = pdn.switch_source(a)
                ty = str(src[1].get("ty", "")) if src and src[0] == "discr" else ""
                if src and src[0] == "discr" and ty.endswith("NodeData"):
                    kind = "non-element node"
                elif src and src[0] == "discr" and "css::Display" in ty:
                    kind = "display:none (C18-A)"
                elif src and src[0] == "discr" and ty.startswith("TreeMapResult"):
                    kind = "pass-through of an inner Nothing"
                elif src and src[0] == "discr" and ty.startswith("std::option::Option<&str>"):
                    kind = "image without alt or src"
                elif src and src[0] == "bin" and src[1]["bin"] == "Eq" and any(
                        x2[0] == "field" and x2[2] == "local" for side in ("a", "b") for x2 in pdn.atoms(src[1][side], through_calls=False)):
                    kind = "ignored element name (C03-B)"
            ctx.check(kind is not None, "C03-K", "process_dom_node:Nothing@%s" % (kind or "bb-under-%s" % (pdn.term(a)["span"] if a is not None else "?")),
                      st["span"], pdn.id,
                      "process_dom_node yields Nothing here under a test that is none of the reviewed ones (node kind, ignored element "
                      "name, display:none, image without alt/src, inner Nothing): the subtree is dropped with its text")
    ctx.floor("C03-K", "Nothing results in process_dom_node", n, 5)


PAYLOAD_SINKS = {
    "Text": ("add_inline_text",), "Img": ("add_image",), "FragStart": ("record_frag_start",),
    "Table": ("render_table_tree",), "TableRow": ("render_table_row", "render_table_row_vert"),
    "TableCell": ("render_table_cell",),
}


def _not_borrow(c):
    return not (c and c.split("::")[-1] in ("deref", "deref_mut", "as_str", "as_ref", "borrow", "index", "as_slice"))


def rule_c(ctx):
    F = ctx.facts
    info = F.adt("RenderNodeInfo")
    names = {v["discr"]: v for v in info["variants"]}
    for fn in ("do_render_node", "precalc_size_estimate", "RenderNode::calc_size_estimate"):
        b = F.one(fn)
        disp = find_dispatch(b, "RenderNodeInfo", 10)
        t = b.term(disp)
        listed = {v for v, _ in t["targets"]}
        oth = t["otherwise"]
        ok_oth = oth is None or b.term(oth)["k"] == "unreachable"
        ctx.check(listed == set(names) and ok_oth, "C03-C", "%s:exhaustive" % fn.split("::")[-1], t["span"], b.id,
                  "variants dispatched: %d of %d; fall-through %s" % (len(listed), len(names), "unreachable" if ok_oth else "reachable"))
    drn, arms = widths.arms_of_do_render_node(F)
    n = 0
    for d, v in sorted(names.items()):
        vn = v["name"]
        if vn not in arms:
            ctx.violation("C03-C", "payload:%s" % vn, drn.span, drn.id, "variant has no arm")
            continue
        tb, region = arms[vn]
        region = drn.reach_from(tb)
        if vn in ("TableBody",):
            # must diverge (unimplemented!): never silently skipped
            div = any(drn.term(x)["k"] == "call" and drn.term(x).get("target") is None for x in region)
            ctx.check(div, "C03-C", "payload:%s:diverges" % vn, drn.term(tb)["span"], drn.id, "")
            n += 1
            continue
        if not v["fields"]:
            n += 1
            ctx.ok("C03-C", "payload:%s:none" % vn, drn.term(tb)["span"], drn.id, "no payload")
            continue
        # find sinks in region: calls or PendingChildren aggregates whose operands depend on the variant's payload
        owner = "RenderNodeInfo::%s" % vn
        reached = set()
        for x in region:
            tt = drn.term(x)
            if tt["k"] == "call":
                m = callee_method(tt) or ""
                cd = callee_def(tt) or ""
                for a in tt["args"]:
                    at = drn.atoms(a, stop_calls=_not_borrow)
                    for fa in at:
                        if fa[0] == "field" and fa[1] == owner:
                            if m not in ("deref", "deref_mut", "as_str", "as_ref", "borrow", "index", "as_slice"):
                                reached.add((fa[2], m if m else cd.split("::")[-1]))
            for st in drn.stmts(x):
                rv = st.get("rv") or {}
                if rv.get("agg") == "adt" and rv.get("variant") == "PendingChildren":
                    op = rv["ops"][rv["fields"].index("children")]
                    for fa in drn.atoms(op, stop_calls=_not_borrow):
                        if fa[0] == "field" and fa[1] == owner:
                            reached.add((fa[2], "PendingChildren.children"))
        n += 1
        for f in v["fields"]:
            ty = f["ty"]
            sinks = sorted(s for (fi, s) in reached if fi == f["name"])
            if "Vec<RenderNode>" in ty:
                okc = any(s in ("pending2", "PendingChildren.children") for s in sinks)
                ctx.check(okc, "C03-C", "payload:%s.%s→children" % (vn, f["name"]), drn.term(tb)["span"], drn.id,
                          "child nodes of %s flow to %s" % (vn, sinks))
            elif ty == "std::string::String" and vn in ("Text", "Img", "FragStart", "Link"):
                want = PAYLOAD_SINKS.get(vn, ("start_link",))
                okc = any(s in want for s in sinks)
                ctx.check(okc, "C03-C", "payload:%s.%s→%s" % (vn, f["name"], "/".join(want)), drn.term(tb)["span"], drn.id,
                          "flows to %s" % sinks)
            elif ty.startswith("RenderTable"):
                want = PAYLOAD_SINKS.get(vn, ())
                okc = any(s in want for s in sinks)
                ctx.check(okc, "C03-C", "payload:%s.%s→%s" % (vn, f["name"], "/".join(want)), drn.term(tb)["span"], drn.id,
                          "flows to %s" % sinks)
    ctx.floor("C03-C", "node kinds with checked payload flow", n, 25)


def rule_d(ctx):
    F = ctx.facts
    table = drops.load_table("drops_elements.txt")
    inv = drops.inventory(F, lambda ty: ty.startswith("render::text_renderer::TaggedString<") or "<render::text_renderer::TaggedString<" in ty
                          or "RenderLine<" in ty or ty.startswith("render::text_renderer::SubRenderer<") or "impl IntoIterator" in ty or
                          "as std::iter::IntoIterator>::IntoIter" in ty)
    n = 0
    counts = {}
    for (b, bb, t, states) in inv:
        pl = t["place"]
        ex = widths_norm(b.canon(pl))
        ex_readable = b.expr(pl)
        key = "%s:drop(%s)" % (fn_key(b), ex)
        s = t["span"]
        n += 1
        errs = drops.error_blocks(b)
        if drops.on_error_path(b, bb, errs):
            ctx.ok("C03-D", key + ":error-path", s, b.id, "rendering is abandoned on this path")
            continue
        if drops.loop_exit_of_iterator(b, bb, pl):
            ctx.ok("C03-D", key + ":iterator-exhausted", s, b.id, "dropped after next() returned None")
            continue
        row = table.get((fn_key(b), ex))
        if row:
            counts[(fn_key(b), ex)] = counts.get((fn_key(b), ex), 0) + drops.incoming_paths(b, bb)
            ctx.ok("C03-D", key, s, b.id, row, how="table")
            continue
        ctx.violation("C03-D", key, s, b.id, "a %s can be destroyed here on a feasible normal path: rendered text inside it would be lost"
                      % pl["ty"].split("<")[0].split("::")[-1])
    ctx.floor("C03-D", "feasible destruction sites of line pieces / renderers", n, 8)
    drops.check_counts(ctx, "C03-D", table, counts)


def rule_e(ctx):
    F = ctx.facts
    alls = F.call_sites(lambda cd, t: callee_method(t) == "append_subrender")
    for (b, bb, t) in alls:
        ity = (t["callee"].get("targs") or ["", ""])[-1]
        ctx.check(ity in INFINITE, "C03-E", "infinite-prefixes@%s#%s" % (fn_key(b), ity.split("::")[-1][:20]), t["span"], b.id,
                  "prefix iterator %s may be finite: zip would truncate the block and lose its remaining lines" % ity)
    ctx.floor("C03-E", "append_subrender call sites", len(alls), 6)
    # the zip partner really is the prefixes argument
    b = F.one(RTRAIT + "append_subrender")
    z = b.calls(lambda cd, t: callee_method(t) == "zip")
    okc = len(z) == 1 and ("arg", 3) in b.atoms(z[0][1]["args"][1])
    ctx.check(okc, "C03-E", "append_subrender:zips-lines-with-prefixes", b.span, b.id, "")


def rule_g(ctx, only=None, rid="C03-G"):
    F = ctx.facts
    n = 0
    control = 0
    for b in F.bodies.values():
        if b.raw.get("from_expansion") and b.kind != "Closure":
            continue
        for bb, t in b.calls(lambda cd, t: callee_method(t) in ORDER_OPS and not ends(cd, "std::mem::swap")):
            c = t["callee"]
            tys = " ".join([c.get("self_ty", "")] + c.get("targs", []))
            if "SelectorComponent" in tys and callee_method(t) == "reverse":
                control += 1
            generic_walk = only is None and fn_key(b).startswith("tree_map_reduce") and "Vec<" in tys
            if not any(s in tys for s in (only or SEQ_TYPES)) and not generic_walk:
                continue  # (the generic walk's vectors hold nodes and results under type parameters: all tracked)
            if tys.startswith("render::text_renderer::TextRenderer<"):
                continue  # TextRenderer::pop itself is listed at its definition
            n += 1
            m = callee_method(t)
            key = "%s:%s" % (fn_key(b), m)
            why = ORDER_OK.get((fn_key(b), m))
            if why:
                ctx.ok(rid, key, t["span"], b.id, why, how="table")
            else:
                ctx.violation(rid, key, t["span"], b.id,
                              "%s on a sequence of %s: %s order may be perturbed" % (m, tys.split("<")[-1][:40], "selector" if "SelectorComponent" in tys else "document"))
    ctx.floor(rid, "order-sensitive operations on tracked sequences (all sanctioned)", n, 5 if only is None else 2)
    if F.bodies.get("css::parser::parse_selector"):
        ctx.check(control >= 1, rid, "positive-control:css-parser-reverse-found", "", "",
                  "the query must see components.reverse() in the css parser")
    # insert index constants
    tl = F.one("TaggedLine::<T>::insert_front")
    ins = tl.calls(lambda cd, t: callee_method(t) == "insert")
    ctx.check(all((op_const(t["args"][1]) or {}).get("int") == 0 for _bb, t in ins), rid, "insert_front:index-0", tl.span, tl.id, "")
