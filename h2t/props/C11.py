"""C11 — width errors: overflow option always succeeds and is otherwise a no-op (clauses 1-3)."""
from ..facts import AnchorMissing, callee_def, op_place, op_const, is_bare
from ..util import (SUBR, RTRAIT, ends, field_accesses, site, fn_key, callee_method, require,
                    edge_is_true, src_field, has_call, has_field, final_uses, field_reads,
                    edges_where, unreachable_without_edges, origin, agg_operand_index)

EXPLANATION = (
    "Static decision of three clauses: (A) the width==0 test of render_with_context dominates every "
    "other action of rendering and all rendering goes through it; (B) every construction of the "
    "too-narrow error (complete inventory over all bodies) is reachable only through the "
    "'overflow not allowed' edge of a read of the overflow flag, whose storage is written only from the "
    "option; (C) non-interference: the flag is read nowhere else, and at each decision read the "
    "not-allowed edge leads to Err(TooNarrow) without any side effect, so a rendering that succeeds "
    "without the option never reaches a read of the flag and runs identically with it.")
NOT_DECIDED = ("clause 4 (how far an overflowing line may exceed the width) as a whole; only its structural part D is decided: "
               "the minimum widths that calc_size_estimate creates itself are a constant <= 5, min(_, min_wrap_width), or the "
               "width of the prefix it also records as prefix_size. 'always succeeds' additionally relies on C01 (no "
               "panic/hang, no other error)")
ASSUMPTIONS = []

FLAG_FIELDS = [("config::Config", "allow_width_overflow"), ("HtmlContext", "allow_width_overflow"),
               ("RenderOptions", "allow_width_overflow"), ("WrappedBlock", "allow_overflow")]


def check(ctx):
    ctx.rule("C11-A", "width 0: the width==0 test in render_with_context precedes every call, its true edge "
             "returns Err(TooNarrow); SubRenderer::new is only called from render_with_context/new_sub_renderer")
    ctx.rule("C11-B", "every TooNarrow construction is reachable only through the overflow-not-allowed edge of a "
             "read of the overflow flag (inventory complete; flag storage written only from the option)")
    ctx.rule("C11-C", "the overflow flag is read only as plumbing or as a decision whose not-allowed edge leads to "
             "Err(TooNarrow) without side effects")
    ctx.rule("C11-D", "bound clause, structural part: every SizeEstimate that RenderNode::calc_size_estimate builds itself has "
             "min_width = a constant <= 5, min(_, context.min_wrap_width), or the prefix width it also stores as prefix_size")
    for rid, fn in (("C11-A", rule_a), ("C11-B", rule_b), ("C11-C", rule_c), ("C11-D", rule_d)):
        ctx.guard(rid, fn)
    from .. import widths as _w
    ctx.rule("C11-E", "width_minus returns max(width − prefix, min_width) whether or not overflow is allowed: the option only "
             "removes the error, it does not change the width a block gets when the rendering succeeds anyway")
    ctx.guard("C11-E", _w.rule_width_minus_def, "C11-E")
    ctx.rule("C11-F", "'with overflow allowed every document renders' includes 'does not panic': C01-A restricted to the line and "
             "wrapping code (src/render/text_renderer.rs), where an overflowing line can be wider than the width it is "
             "measured against — every panic-capable operation there is discharged")
    from . import C01
    ctx.guard("C11-F", C01.rule_a, "C11-F", lambda b: b.span.startswith("src/render/text_renderer.rs"))
    ctx.rule("C11-G", "errors are never swallowed: the result of every call that returns the crate's Result (Error / TooNarrow) is "
             "propagated with `?` or returned as it is — the non-interference argument of C11-C (a rendering that succeeds without "
             "the option never took a not-allowed edge) needs every TooNarrow to reach the caller; a handled one would let the "
             "option change a rendering that succeeds either way")
    ctx.guard("C11-G", rule_g)


def rule_a_as(ctx, rid):
    """the width-0 rule reported under another property's id (all routes share the same width precondition: C10-B)"""
    class _Proxy:
        def __init__(self, c):
            self._c = c

        def __getattr__(self, n):
            return getattr(self._c, n)

        def check(self, okc, _rid, *a, **k):
            return self._c.check(okc, rid, *a, **k)

        def violation(self, _rid, *a, **k):
            return self._c.violation(rid, *a, **k)

        def ok(self, _rid, *a, **k):
            return self._c.ok(rid, *a, **k)

        def floor(self, _rid, *a, **k):
            return self._c.floor(rid, *a, **k)
    rule_a(_Proxy(ctx))


def rule_g_as(ctx, rid):
    """the error-discipline rule reported under another property's id (a swallowed error also drops the text that was
    being rendered: C03)"""
    class _Proxy:
        def __init__(self, c):
            self._c = c

        def __getattr__(self, n):
            return getattr(self._c, n)

        def check(self, okc, _rid, *a, **k):
            return self._c.check(okc, rid, *a, **k)

        def violation(self, _rid, *a, **k):
            return self._c.violation(rid, *a, **k)

        def ok(self, _rid, *a, **k):
            return self._c.ok(rid, *a, **k)

        def floor(self, _rid, *a, **k):
            return self._c.floor(rid, *a, **k)
    rule_g(_Proxy(ctx))


def rule_a(ctx):
    F = ctx.facts
    b = F.one("RenderTree::render_with_context")
    # first switch from entry
    bb = 0
    while b.term(bb)["k"] == "goto":
        bb = b.term(bb)["target"]
    t = b.term(bb)
    okc = False
    if t["k"] == "switch":
        neg, src = b.switch_source(bb)
        if src[0] == "bin" and src[1]["bin"] in ("Eq",):
            ats = b.atoms(src[1]["a"]) | b.atoms(src[1]["b"])
            okc = ("arg", 3) in ats and ("int", 0) in ats
    ctx.check(okc and bb == 0 or okc, "C11-A", "width==0:first-decision", t["span"], b.id,
              "the first decision of render_with_context must be width == 0")
    if not okc:
        return
    # no calls before it
    calls_before = [x for x in b.reach_from(0, avoid=[bb]) if b.term(x)["k"] == "call"]
    ctx.check(not calls_before and b.term(0)["k"] != "call" or bb == 0, "C11-A", "width==0:nothing-before", t["span"], b.id, "")
    for s in b.succ(bb):
        truth, _src = edge_is_true(b, bb, s)
        if truth is True:
            region = b.reach_from(s)
            calls = [x for x in region if b.term(x)["k"] == "call"]
            has_err = any(st.get("rv", {}).get("variant") == "TooNarrow" and ends(st["rv"].get("adt"), "Error")
                          for x in region for st in b.stmts(x))
            ctx.check(has_err and not calls, "C11-A", "width==0:returns-TooNarrow", b.term(s)["span"], b.id,
                      "true edge must return Err(TooNarrow) without doing anything else")
    new = F.one("SubRenderer::<D>::new")
    callers = sorted(F.callers_of(new.id))
    want = sorted([b.id, F.one(RTRAIT + "new_sub_renderer").id])
    ctx.check(callers == want, "C11-A", "SubRenderer::new:callers", new.span, new.id,
              "callers: %s" % callers)
    # render_tree_to_string only from render_with_context
    rts = F.one("render_tree_to_string")
    ctx.check(F.callers_of(rts.id) == [b.id], "C11-A", "render_tree_to_string:only-from-render_with_context", rts.span,
              rts.id, "callers: %s" % F.callers_of(rts.id))


def too_narrow_sites(F):
    """all constructions of render::TooNarrow (unit struct) and Error::TooNarrow"""
    unit, err = [], []
    for b in F.bodies.values():
        if b.raw.get("from_expansion") and b.kind != "Closure":
            continue
        for bb in sorted(b.reachable()):
            for st in b.stmts(bb):
                rv = st.get("rv") or {}
                if rv.get("agg") == "adt":
                    if rv.get("adt") == "render::TooNarrow":
                        unit.append((b, bb, st))
                    elif ends(rv.get("adt"), "Error") and rv.get("variant") == "TooNarrow" and rv.get("adt") in ("Error",):
                        err.append((b, bb, st))
                # constants of the unit struct type
                for o in ([rv.get("use")] if "use" in rv else []) + list(rv.get("ops", [])):
                    k = op_const(o) if o else None
                    if k and k["ty"] == "render::TooNarrow":
                        unit.append((b, bb, st))
    return unit, err


def flag_cut(b):
    """edges on which the overflow flag is known to be false ('not allowed')"""
    def pred(truth, src, a, s):
        f = src_field(src)
        return truth is False and f is not None and (
            (f[1] == "allow_width_overflow" and ends(f[0], "RenderOptions")) or
            (f[1] == "allow_overflow" and ends(f[0], "WrappedBlock")))
    return edges_where(b, pred)


def rule_b(ctx):
    F = ctx.facts
    unit, err = too_narrow_sites(F)
    n = 0
    for (b, bb, st) in unit:
        n += 1
        key = "TooNarrow@%s" % fn_key(b)
        cut = flag_cut(b)
        ctx.check(unreachable_without_edges(b, bb, cut), "C11-B", key, st["span"], b.id,
                  "this too-narrow error can be raised without consulting allow_width_overflow: with the option "
                  "enabled rendering could still fail")
    ctx.floor("C11-B", "TooNarrow constructions", n, 2)
    # Error::TooNarrow: only the From impl and the width==0 test
    allowed = {F.one("render::<impl std::convert::From<render::TooNarrow> for Error>::from").id,
               F.one("RenderTree::render_with_context").id}
    for (b, bb, st) in err:
        ctx.check(b.id in allowed, "C11-B", "Error::TooNarrow@%s" % fn_key(b), st["span"], b.id,
                  "Error::TooNarrow may only be produced by the From<TooNarrow> conversion and the width==0 test")
    ctx.floor("C11-B", "Error::TooNarrow constructions", len(err), 2)
    # WrappedBlock.allow_overflow: written only by WrappedBlock::new from its parameter, fed from the option
    wnew = F.one("WrappedBlock::<T>::new")
    ctors = []
    for b in F.bodies.values():
        if b.raw.get("from_expansion") and b.kind != "Closure":
            continue
        for bb in b.reachable():
            for st in b.stmts(bb):
                rv = st.get("rv") or {}
                if rv.get("agg") == "adt" and ends(rv.get("adt"), "WrappedBlock"):
                    ctors.append((b, st, rv))
    for b, st, rv in ctors:
        okc = b.id == wnew.id and ("arg", 3) in b.atoms(rv["ops"][rv["fields"].index("allow_overflow")])
        ctx.check(okc, "C11-B", "WrappedBlock.allow_overflow:init@%s" % fn_key(b), st["span"], b.id,
                  "allow_overflow must be initialised from WrappedBlock::new's parameter")
    writes = [(b, bb, where) for (b, bb, where, pl, acc) in field_accesses(F, "WrappedBlock", "allow_overflow")
              if acc in ("write", "refmut") and not (b.raw.get("from_expansion") and b.kind != "Closure")]
    ctx.check(not writes, "C11-B", "WrappedBlock.allow_overflow:no-other-writer", "", "",
              "writers: %s" % [(b.id, site(b, bb, w)) for b, bb, w in writes])
    cs = F.call_sites(lambda cd, t: cd == wnew.id)
    ctx.floor("C11-B", "WrappedBlock::new call sites", len(cs), 1)
    for (b, bb, t) in cs:
        at = b.atoms(t["args"][2])
        ctx.check(has_field(at, "RenderOptions", "allow_width_overflow"), "C11-B",
                  "WrappedBlock::new(allow=options.allow_width_overflow)@%s" % fn_key(b), t["span"], b.id, "")
    # writers of the option fields: only the builder setter and struct literals
    for owner, name in FLAG_FIELDS[:3]:
        for (b, bb, where, pl, acc) in field_accesses(F, owner, name):
            if acc in ("write", "refmut") and not (b.raw.get("from_expansion") and b.kind != "Closure"):
                okc = ends(b.id, "Config::<D>::allow_width_overflow") and owner == "config::Config"
                ctx.check(okc, "C11-B", "%s.%s:writer@%s" % (owner.split("::")[-1], name, fn_key(b)),
                          site(b, bb, where), b.id, "only the allow_width_overflow() builder may set the flag")


def _error_region(b, start):
    """blocks reachable from `start`, following `?` on a value that was just built as Err(..) only along its Break edge
    (an error returned by an inlined helper and propagated by the caller is still 'returns the error directly')"""
    seen = set()
    work = [(start, frozenset(), frozenset())]
    out = set()
    while work:
        x, errs, brks = work.pop()
        if (x, errs, brks) in seen:
            continue
        seen.add((x, errs, brks))
        out.add(x)
        errs, brks = set(errs), set(brks)
        for st in b.stmts(x):
            if st["k"] != "assign" or st["lhs"]["p"]:
                continue
            rv = st.get("rv") or {}
            l = st["lhs"]["l"]
            src = op_place(rv["use"]) if "use" in rv else None
            if rv.get("agg") == "adt" and rv.get("variant") == "Err":
                errs.add(l)
            elif src is not None and is_bare(src) and src["l"] in errs:
                errs.add(l)
            else:
                errs.discard(l)
                brks.discard(l)
        t = b.term(x)
        succs = [y for y in b.succ(x) if not b.is_cleanup(y)]
        if t["k"] == "call" and callee_method(t) == "branch" and t["args"]:
            a = op_place(t["args"][0])
            if a is not None and is_bare(a) and a["l"] in errs and is_bare(t["dest"]):
                brks.add(t["dest"]["l"])
        elif t["k"] == "switch":
            _neg, src = b.switch_source(x)
            if src and src[0] == "discr" and is_bare(src[1]) and src[1]["l"] in brks:
                succs = [tb for v, tb in t["targets"] if v == 1] or succs
        for y in succs:
            work.append((y, frozenset(errs), frozenset(brks)))
    return out


def rule_c(ctx):
    F = ctx.facts
    ndec = 0
    for owner, name in FLAG_FIELDS:
        for (b, bb, where, st, dest, acc) in field_reads(F, owner, name):
            if b.raw.get("from_expansion") and b.kind != "Closure":
                continue  # derived Clone/Debug/PartialEq
            s = site(b, bb, where)
            key = "%s.%s@%s" % (owner.split("::")[-1], name, fn_key(b))
            oi = agg_operand_index(st, owner, name)
            if oi is not None:
                rv = st["rv"]
                fld = rv["fields"][oi] if oi < len(rv.get("fields", [])) else "?"
                ctx.check(fld in ("allow_width_overflow", "allow_overflow"), "C11-C",
                          key + ":plumbing→%s.%s" % (str(rv.get("adt")).split("::")[-1], fld), s, b.id, "flag copied into a differently named field")
                continue
            if dest is None:
                ctx.violation("C11-C", key + ":opaque-read", s, b.id, "flag read in a form the rule cannot follow (%s)" % acc)
                continue
            uses = final_uses(b, dest)
            if not uses:
                ctx.violation("C11-C", key + ":unused?", s, b.id, "no use found")
                continue
            for (kind, ubb, det) in uses:
                if kind == "agg":
                    stt, oi = det
                    rv = stt["rv"]
                    fld = rv["fields"][oi] if oi < len(rv.get("fields", [])) else "?"
                    okc = fld in ("allow_width_overflow", "allow_overflow")
                    ctx.check(okc, "C11-C", key + ":plumbing→%s.%s" % (str(rv.get("adt")).split("::")[-1], fld), s, b.id,
                              "flag copied into a differently named field")
                elif kind == "callarg":
                    t, ai = det
                    okc = ends(callee_def(t), "WrappedBlock::<T>::new") and ai == 2
                    ctx.check(okc, "C11-C", key + ":plumbing→%s" % str(callee_def(t)).split("::")[-1], s, b.id,
                              "flag passed to %s" % callee_def(t))
                elif kind == "switch":
                    ndec += 1
                    # the not-allowed edge leads to Err(TooNarrow) with no side effects
                    t = b.term(ubb)
                    for s2 in b.succ(ubb):
                        truth, src = edge_is_true(b, ubb, s2)
                        if truth is False:
                            region = _error_region(b, s2)
                            # stop at return; look at what happens on the way
                            effects = []
                            builds = False
                            for x in region:
                                for stt in b.stmts(x):
                                    rv = stt.get("rv") or {}
                                    if rv.get("agg") == "adt" and rv.get("adt") == "render::TooNarrow":
                                        builds = True
                                    if stt["k"] == "assign" and stt["lhs"]["p"] and stt["lhs"]["p"][0] == "*":
                                        effects.append("store %s" % stt["span"])
                                tt = b.term(x)
                                if tt["k"] == "call" and callee_method(tt) not in ("from_residual", "branch"):
                                    effects.append("call %s" % callee_def(tt))
                            ctx.check(builds and not effects, "C11-C", key + ":decision:not-allowed⇒Err-without-effects",
                                      t["span"], b.id,
                                      "on the not-allowed edge the code must return Err(TooNarrow) directly; effects: %s"
                                      % effects[:4])
                else:
                    ctx.violation("C11-C", key + ":use-as-%s" % kind, s, b.id,
                                  "the overflow flag may only be branched on or copied; found use as %s" % kind)
    ctx.floor("C11-C", "decision reads of the overflow flag", ndec, 2)


SWALLOW_OK = {
    ("css::dom_extract::dom_to_stylesheet", "add_author_css"): "document style sheets that do not parse are ignored by design (C17-E); css errors are not width errors",
    ("css::StyleData::computed_style", "parse_style_attribute"): "a style attribute that does not parse is ignored by design (C17-E)",
}


def rule_g(ctx):
    F = ctx.facts
    n = 0
    for b in F.bodies.values():
        if b.raw.get("from_expansion") and b.kind != "Closure":
            continue
        for bb, t in b.calls():
            if t["dest"]["p"] or callee_method(t) == "from_residual":
                continue
            ty = b.local_ty(t["dest"]["l"])
            if not (ty.startswith("std::result::Result<") and (ty.endswith(", Error>") or ty.endswith(", render::TooNarrow>"))):
                continue
            n += 1
            if t["dest"]["l"] == 0:
                continue  # returned as it is
            uses = final_uses(b, t["dest"]["l"])
            kept = []
            for k, _ubb, d in uses:
                if k == "ref" and is_bare(d["lhs"]):
                    # a reference that only feeds a formatting argument (trace output) observes the value, it does not handle it
                    ru = final_uses(b, d["lhs"]["l"])
                    if ru and all(k2 == "callarg" and "fmt::rt::Argument" in (callee_def(d2[0]) or "") for k2, _b2, d2 in ru):
                        continue
                    if d.get("exp") and ru and all(k2 == "agg" and d2[0].get("exp") for k2, _b2, d2 in ru):
                        continue  # the reference is taken inside a macro expansion (format_args! of a trace macro)
                kept.append((k, d))
            kinds = sorted({("call:%s" % callee_method(d[0])) if k == "callarg" else k for k, d in kept})
            # (`r.map(f)`, `r.map_err(f)`, `r.and_then(f)` keep an error an error; their own result is a call site of this rule)
            if kinds and all(k in ("call:branch", "ret", "call:map", "call:map_err", "call:and_then", "call:inspect", "call:inspect_err") for k in kinds):
                continue
            root = b.root if b.kind == "Closure" else b.id
            nm = (callee_def(t) or "?").split("::")[-1]
            why = SWALLOW_OK.get((root, nm))
            key = "swallowed@%s:%s" % (fn_key(b), nm)
            if why:
                ctx.ok("C11-G", key, t["span"], b.id, why, how="table")
            else:
                ctx.violation("C11-G", key, t["span"], b.id,
                              "the Result of %s is %s instead of being propagated: if the error is TooNarrow, the rendering goes "
                              "on along a path that exists only without allow_width_overflow, so the option changes a rendering "
                              "that succeeds with and without it" % (nm, ", ".join(kinds) if kinds else "dropped"))
    ctx.floor("C11-G", "calls returning the crate's Result", n, 100)


def rule_d(ctx):
    """What width_minus may inflate a sub-block to is the block's min_width estimate; for a table-free document
    those are sums of prefix widths plus the largest leaf minimum.  The bound max(w, P + max(min_wrap_width, 5))
    needs every leaf minimum to be <= max(min_wrap_width, 5)."""
    F = ctx.facts
    b = F.one("RenderNode::calc_size_estimate")
    # values stored into some `.prefix_size`
    prefix_vals = set()
    for bb in b.reachable():
        for st in b.stmts(bb):
            if st["k"] == "assign" and any(isinstance(e, dict) and "f" in e and e["n"] == "prefix_size" for e in st["lhs"]["p"]):
                rv = st.get("rv") or {}
                if "use" in rv:
                    prefix_vals.add(b.canon(rv["use"]))
    n = 0
    kinds = {}
    for bb in sorted(b.reachable()):
        for st in b.stmts(bb):
            rv = st.get("rv") or {}
            if not (rv.get("agg") == "adt" and rv.get("adt") == "SizeEstimate" and "min_width" in rv.get("fields", [])):
                continue
            n += 1
            op = rv["ops"][rv["fields"].index("min_width")]
            k = op_const(op)
            o = origin(b, op)
            kind = None
            if k is not None and isinstance(k.get("int"), int) and k["int"] <= 5:
                kind = "const<=5"
            elif o and o[0] == "call" and callee_method(o[1]) == "min" and any(
                    has_field(b.atoms(a, through_calls=False), "HtmlContext", "min_wrap_width") and
                    (origin(b, a) or (None,))[0] == "place" for a in o[1]["args"]):
                kind = "min(_, min_wrap_width)"
            elif b.canon(op) in prefix_vals:
                kind = "prefix width"
            kinds[kind] = kinds.get(kind, 0) + 1
            ctx.check(kind is not None, "C11-D", "calc_size_estimate:min_width#%s" % b.canon(op)[:60], st["span"], b.id,
                      "a minimum width created here is neither a constant <= 5, nor min(_, context.min_wrap_width), nor the "
                      "prefix width recorded as prefix_size: with allow_width_overflow a narrow block may be inflated beyond "
                      "max(width, prefix + max(min_wrap_width, 5)); value: %s" % b.expr_top(op))
    ctx.info("C11-D", "SizeEstimate constructions by kind: %s" % kinds)
    ctx.floor("C11-D", "SizeEstimate constructions in calc_size_estimate", n, 6)
