"""C05 — table borders form a consistent box drawing (finite-table and stride clauses)."""
from ..facts import AnchorMissing, callee_def, op_place, op_const, is_bare
from ..util import (SUBR, RTRAIT, ends, site, fn_key, callee_method, require, has_call, has_field, find_dispatch,
                    closure_bodies_created_in, transitive_closures, edge_is_true, src_field, edges_where,
                    unreachable_without_edges, deep_atoms, direct_field, direct_place, origin, reach_with_bool_consts)
from ..fin import Fin, Need, NotAnalysable

EXPLANATION = (
    "Static decision of the finite part of the border bookkeeping: the junction lattice (join_above / "
    "join_below over the five segment kinds) and the glyph tables (to_string, to_vertical_lines_above) "
    "are extracted in full from MIR by finite-domain abstract interpretation and compared with the "
    "(bar-above, bar-below) encoding; merge_from_below/above call the matching join at idx+pos exactly "
    "for segments that carry a join; the three position walks of append_columns_with_borders advance "
    "by w+1 and join at pos+w; exactly one separator is emitted between consecutive columns; the "
    "separator glyph, bottom rule and stacked-row rules are governed by draw_borders; stacked-row rules "
    "span the renderer width with the StraightVert kind.")
NOT_DECIDED = ("that joins are requested at exactly the bar columns for every table (arithmetic over runtime "
               "column widths), equal line widths, rule/row alternation")
ASSUMPTIONS = []

SPEC = {"Straight": (0, 0), "JoinAbove": (1, 0), "JoinBelow": (0, 1), "JoinCross": (1, 1)}
INV = {v: k for k, v in SPEC.items()}
GLYPH = {"Straight": "─", "JoinAbove": "┴", "JoinBelow": "┬", "JoinCross": "┼", "StraightVert": "/"}


def check(ctx):
    ctx.rule("C05-A", "junction lattice: join_above(s) = (1, below(s)), join_below(s) = (above(s), 1), StraightVert fixed")
    ctx.rule("C05-B", "glyph tables: (0,0)→'─' (1,0)→'┴' (0,1)→'┬' (1,1)→'┼', StraightVert→'/'; vertical-line row has "
             "'│' exactly under segments with a bar above")
    ctx.rule("C05-C", "merge_from_below/above call join_below/join_above at idx+pos exactly for segments carrying a join")
    ctx.rule("C05-D", "append_columns_with_borders: every position walk advances by w+1 and joins at pos+w; one separator "
             "between consecutive columns, none after the last; total width = Σw + (n−1)")
    ctx.rule("C05-E", "separator is '│' iff draw_borders else ' '; the bottom rule is added only under draw_borders")
    ctx.rule("C05-F", "stacked rows: separators span self.width() with kind StraightVert, drawn only under draw_borders, "
             "closed by add_horizontal_border under draw_borders")
    ctx.rule("C05-H", "the rule above a table has the width of the table's rows: the renderer width exactly when stacked, "
             "Σ column widths + separators between non-empty columns side by side")
    ctx.rule("C05-G", "every line of a column is brought to the column's width before anything uses it: text lines are padded "
             "and border lines stretched to `width` in the per-column normalisation, so padding rows and collapsed borders "
             "have the column's width")
    for rid, fn in (("C05-A", rule_a), ("C05-B", rule_b), ("C05-C", rule_c), ("C05-D", rule_d), ("C05-E", rule_e),
                    ("C05-F", rule_f), ("C05-G", rule_g), ("C05-H", rule_h)):
        ctx.guard(rid, fn)
    ctx.rule("C05-J", "a row that recorded its junctions on the rules above/below is always drawn: append_columns_with_borders "
             "has a single normal exit, after the row's lines and the bottom rule were added")
    ctx.guard("C05-J", rule_j)
    ctx.rule("C05-K", "a row is skipped exactly when none of its cells would contribute a line: Renderer::empty() of a cell renderer is "
             "`no line yet` and `the open wrapped block (if any) has no content` (WrappedBlock::is_empty) — a cell holding only "
             "white space opens a block that flushes to nothing, and a row of such cells drawn anyway is two rules with nothing between")
    ctx.guard("C05-K", rule_k)
    ctx.rule("C05-L", "a rule stays a rule until it is output: border lines (RenderLine::Line / BorderHoriz) are turned into text only "
             "at the reviewed places — when a finished block is copied into its parent (append_subrender, "
             "append_columns_with_borders) and at the final conversion (into_lines / into_string); the junction bookkeeping "
             "of the next row looks for a border line, a rule stored as text gets no junctions")
    ctx.guard("C05-L", rule_l)
    ctx.rule("C05-M", "a cell with fewer lines than its row is filled with exactly `width` blanks: the filler of the row-assembly loop is "
             "`spaces[0..width]` cut from a string of tot_width blanks, `\" \".repeat(width)` or `repeat(' ').take(width)` — not a "
             "slice or prefix of some fixed-size buffer (a short filler shifts every bar to its right)")
    ctx.guard("C05-M", rule_m)
    # bars stand at the same positions in every row only if every row walks the columns the same way: the column
    # cursors advance by the cell's colspan on every path (rule shared with C06-A)
    from . import C06
    ctx.rule("C05-I", "every per-row column walk advances its cursor by the cell's colspan on every path (also for skipped cells)")
    ctx.guard("C05-I", C06.rule_a, "C05-I")


def seg_names(F):
    a = F.adt("BorderSegHoriz")
    return {v["discr"]: v["name"] for v in a["variants"]}


def _join_table(ctx, F, fname):
    b = F.one("BorderHoriz::<T>::" + fname)
    names = seg_names(F)

    def domain(key, ty, hint):
        if ty.endswith("BorderSegHoriz"):
            return sorted(names)
        return None

    def oracle(fin, t, vals, env):
        m = callee_method(t)
        if m == "index":
            return ("ref", {"l": -1, "p": [], "ty": "render::text_renderer::BorderSegHoriz"})
        if m == "index_mut":
            # `let seg = &mut self.segments[x]; *seg = match *seg {..}`: the slot is read as well as written
            return ("ref", {"l": -1, "p": [], "ty": "render::text_renderer::BorderSegHoriz"})
        if m == "stretch_to":
            return ("opaque", "unit")
        return None

    class F2(Fin):
        def _place(self, pl, vals, env):
            if pl["l"] == -1:
                return ("sym", "seg[x]", "render::text_renderer::BorderSegHoriz")
            return Fin._place(self, pl, vals, env)

        def _project(self, v, proj, vals, env, whole):
            if isinstance(v, tuple) and v and v[0] == "opaque":
                return v
            return Fin._project(self, v, proj, vals, env, whole)

    fin = F2(F, b, domain, oracle)
    leaves = fin.run()
    table = {}
    for env, effects, ret in leaves:
        s = env.get("seg[x]")
        stores = [e for e in effects if e[0] == "store"]
        if s is None or len(stores) != 1:
            raise NotAnalysable("%s: unexpected shape (inputs %s, stores %s)" % (fname, env, stores))
        table[names[s]] = names.get(stores[0][2], str(stores[0][2]))
    return b, table


def rule_a(ctx):
    F = ctx.facts
    for fname, f in (("join_above", lambda ab: (1, ab[1])), ("join_below", lambda ab: (ab[0], 1))):
        try:
            b, table = _join_table(ctx, F, fname)
        except NotAnalysable as e:
            ctx.violation("C05-A", fname + ":not-analysable", "", fname, str(e))
            continue
        n = 0
        for s in list(SPEC) + ["StraightVert"]:
            n += 1
            want = "StraightVert" if s == "StraightVert" else INV[f(SPEC[s])]
            ctx.check(table.get(s) == want, "C05-A", "%s(%s)=%s" % (fname, s, want), b.span, b.id,
                      "code maps %s to %s" % (s, table.get(s)))
        ctx.floor("C05-A", fname + " table rows", len(table), 5)
        # the index read and the index written are the same x, after stretch_to(x+1)
        idx = b.calls(lambda cd, t: callee_method(t) in ("index", "index_mut"))
        same = all(("arg", 2) in b.atoms(t["args"][1]) and not any(a[0] == "bin" for a in b.atoms(t["args"][1], through_calls=False))
                   for _bb, t in idx)
        one_slot = len(idx) == 1 and callee_method(idx[0][1]) == "index_mut"  # `let s = &mut self.segments[x]; *s = match *s {..}`
        ctx.check((len(idx) == 2 or one_slot) and same, "C05-A", fname + ":reads-and-writes-segments[x]", b.span, b.id, "")


def _closure_table(F, b, names, ret_kind="char"):
    def domain(key, ty, hint):
        if ty.endswith("BorderSegHoriz"):
            return sorted(names)
        return None
    fin = Fin(F, b, domain, None)
    leaves = fin.run()
    out = {}
    for env, effects, ret in leaves:
        if len(env) != 1:
            raise NotAnalysable("glyph closure consults %s" % env)
        s = list(env.values())[0]
        out[names[s]] = chr(ret) if isinstance(ret, int) else ret
    return out


def rule_b(ctx):
    F = ctx.facts
    names = seg_names(F)
    ts = F.one("BorderHoriz::<T>::to_string")
    cls = [cb for _bb, _i, cb, _o, _f in closure_bodies_created_in(F, ts)]
    require(len(cls) == 1, "BorderHoriz::to_string maps segments through one closure")
    try:
        table = _closure_table(F, cls[0], names)
        for s, g in GLYPH.items():
            ctx.check(table.get(s) == g, "C05-B", "glyph(%s)=%s" % (s, g), cls[0].span, fn_key(cls[0]),
                      "code draws %r" % table.get(s))
    except NotAnalysable as e:
        ctx.violation("C05-B", "to_string:not-analysable", ts.span, ts.id, str(e))
    va = F.one("BorderHoriz::<T>::to_vertical_lines_above")
    cls = [cb for _bb, _i, cb, _o, _f in closure_bodies_created_in(F, va)]
    require(len(cls) == 1, "to_vertical_lines_above maps segments through one closure")
    try:
        table = _closure_table(F, cls[0], names)
        for s in GLYPH:
            want = "│" if (s in SPEC and SPEC[s][0] == 1) else " "
            ctx.check(table.get(s) == want, "C05-B", "bar-above(%s)=%r" % (s, want), cls[0].span, fn_key(cls[0]),
                      "code draws %r" % table.get(s))
    except NotAnalysable as e:
        ctx.violation("C05-B", "to_vertical_lines_above:not-analysable", va.span, va.id, str(e))
    # both map over all segments in order
    for b in (ts, va):
        bad = [callee_method(t) for _bb, t in b.calls() if callee_method(t) in ("rev", "skip", "take", "step_by", "filter")]
        ctx.check(not bad, "C05-B", "%s:all-segments-in-order" % b.name, b.span, b.id, "calls: %s" % bad)


def rule_c(ctx):
    F = ctx.facts
    names = seg_names(F)
    for fname, join in (("merge_from_below", "join_below"), ("merge_from_above", "join_above")):
        b = F.one("BorderHoriz::<T>::" + fname)
        try:
            disp = find_dispatch(b, "BorderSegHoriz", 2)
        except AnchorMissing:
            _rule_c_iterator_form(ctx, F, b, fname, join, names)
            continue
        t = b.term(disp)
        by_target = {}
        for v, tb in t["targets"]:
            by_target.setdefault(tb, []).append(names[v])
        listed = {n for vs in by_target.values() for n in vs}
        if t["otherwise"] is not None and b.term(t["otherwise"])["k"] != "unreachable":
            by_target.setdefault(t["otherwise"], []).extend(sorted(set(names.values()) - listed))
        # the loop the dispatch sits in: stop exploring at its header (a block that dominates the dispatch and is
        # reachable from it)
        hdrs = {x for x in b.reachable() if b.dominates(x, disp) and x in b.reach_from(disp) and x != disp}
        for tb, vs in by_target.items():
            region = sorted(reach_with_bool_consts(b, tb, stop=hdrs | {disp}))
            calls = [(x, b.term(x)) for x in region if b.term(x)["k"] == "call" and
                     callee_method(b.term(x)) in ("join_below", "join_above")]
            for vn in vs:
                want = vn in ("JoinAbove", "JoinBelow", "JoinCross")
                if want:
                    okc = len(calls) == 1 and callee_method(calls[0][1]) == join
                    detail = "calls %s" % [callee_method(c[1]) for c in calls]
                    if okc:
                        import re
                        from ..widths import addends
                        ex = norm(b.canon(calls[0][1]["args"][1]))
                        ad = sorted(addends(ex))
                        # index of the segment in `other` (from enumerate) + the position parameter
                        okc = len(ad) == 2 and ad[1] == "arg3" and re.fullmatch(
                            r"\(<std::iter::Enumerate<I> as std::iter::Iterator>::next\(&mut \$\d+\) as Some\)\.0", ad[0]) is not None
                        detail = "joins at %s" % ex
                    ctx.check(okc, "C05-C", "%s:%s→%s(idx+pos)" % (fname, vn, join), b.term(tb)["span"], b.id, detail)
                else:
                    ctx.check(not calls, "C05-C", "%s:%s→no-join" % (fname, vn), b.term(tb)["span"], b.id,
                              "calls %s" % [callee_method(c[1]) for c in calls])
        # idx comes from enumerate over other.segments
        ctx.check(bool(b.calls(lambda cd, t: callee_method(t) == "enumerate")) and
                  not b.calls(lambda cd, t: callee_method(t) in ("rev", "skip", "step_by")), "C05-C",
                  fname + ":idx-from-enumerate", b.span, b.id, "")


def _rule_c_iterator_form(ctx, F, b, fname, join, names):
    """the same rule when the selection is an iterator chain:
    `for idx in other.segments.iter().enumerate().filter(|(_, s)| matches!(**s, J..)).map(|(i, _)| i) { self.join(idx + pos) }`"""
    import re
    from ..widths import addends
    calls = b.calls(lambda cd, t: callee_method(t) in ("join_below", "join_above"))
    okc = len(calls) == 1 and callee_method(calls[0][1]) == join
    ex = norm(b.canon(calls[0][1]["args"][1])) if calls else ""
    ad = sorted(addends(ex)) if calls else []
    okc = okc and len(ad) == 2 and ad[1] == "arg3" and re.fullmatch(r"\(<.*Map<.* as std::iter::Iterator>::next\(&mut \$\d+\) as Some\)", ad[0]) is not None
    ctx.check(okc, "C05-C", "%s:join-at-idx+pos(iterator form)" % fname, b.span, b.id, "calls %s at %s" % ([callee_method(c[1]) for c in calls], ex))
    closures = {callee_method(t): direct_place(b, t["args"][1]) for _bb, t in b.calls(lambda cd, t: callee_method(t) in ("filter", "map"))}
    tabs = {}
    for m, pl in closures.items():
        sd = b.single_def(pl["l"]) if pl is not None and not pl["p"] else None
        cb = F.bodies.get(sd[3]["rv"].get("def")) if sd and sd[0] == "stmt" and sd[3]["rv"].get("agg") == "closure" else None
        tabs[m] = cb
    fcb, mcb = tabs.get("filter"), tabs.get("map")
    if not ctx.check(fcb is not None and mcb is not None, "C05-C", "%s:filter-and-map-closures" % fname, b.span, b.id, str(sorted(closures))):
        return
    table = _closure_table(F, fcb, names, ret_kind="bool")
    for vn in sorted(names.values()):
        want = vn in ("JoinAbove", "JoinBelow", "JoinCross")
        keep = table.get(vn) in (1, True, "\x01")
        ctx.check(keep == want, "C05-C", "%s:%s→%s" % (fname, vn, (join + "(idx+pos)") if want else "no-join"), fcb.span, fcb.id,
                  "the filter keeps %s: %s" % (vn, table.get(vn)))
    rets = [norm(mcb.canon(st["rv"]["use"])) for x in mcb.reachable() for st in mcb.stmts(x)
            if st["k"] == "assign" and st["lhs"]["l"] == 0 and not st["lhs"]["p"] and "use" in st["rv"]]
    ctx.check(rets == ["arg2.0"], "C05-C", "%s:map-yields-the-enumerate-index" % fname, mcb.span, mcb.id, str(rets))
    ctx.check(bool(b.calls(lambda cd, t: callee_method(t) == "enumerate")) and
              not b.calls(lambda cd, t: callee_method(t) in ("rev", "skip", "step_by", "take", "skip_while", "take_while")), "C05-C",
              fname + ":idx-from-enumerate", b.span, b.id, "")


BORDER_TO_TEXT = ("RenderLine::<T>::into_tagged_line", "RenderLine::<T>::to_string", "BorderHoriz::<T>::to_string",
                  "BorderHoriz::<T>::into_tagged_line", "BorderHoriz::<T>::into_string")
BORDER_TO_TEXT_OK = {
    "render::text_renderer::RenderLine::<T>::to_string": "the conversion itself",
    "render::text_renderer::RenderLine::<T>::into_tagged_line": "the conversion itself",
    RTRAIT + "append_subrender": "a finished inner block is copied into its parent line by line; its rules become text behind the prefix",
    RTRAIT + "append_columns_with_borders": "the cells' lines (rules of nested tables included) are copied into the row's text lines",
    "RenderedText::<D>::into_lines": "final conversion of the rendered lines",
    "render::text_renderer::SubRenderer::<D>::into_string": "final conversion of the rendered lines",
    "render::text_renderer::SubRenderer::<D>::to_string": "debug/trace output",
}


def rule_m(ctx):
    import re
    F = ctx.facts
    b = F.one(RTRAIT + "append_columns_with_borders")
    old_depth = getattr(F, "upvar_depth", 2)
    F.upvar_depth = 8
    try:
        fills = []
        for bb, t in b.calls(lambda cd, t: callee_method(t) in ("unwrap_or_else", "unwrap_or", "map_or_else", "map_or")):
            if not has_call(b.atoms(t["args"][0]), "::clone", "clone") and "column_padding" not in b.canon(t["args"][0], depth=10):
                continue
            pl = direct_place(b, t["args"][1]) if len(t["args"]) > 1 else None
            sd = b.single_def(pl["l"]) if pl is not None and not pl["p"] else None
            cb = F.bodies.get(sd[3]["rv"].get("def")) if sd and sd[0] == "stmt" and sd[3]["rv"].get("agg") == "closure" else None
            if cb is None:
                continue
            for x in cb.reachable():
                tt = cb.term(x)
                if tt["k"] == "call" and tt["dest"]["l"] == 0 and not tt["dest"]["p"]:
                    fills.append((cb, tt, cb.canon(tt["args"][0], depth=24) if tt["args"] else ""))
    finally:
        F.upvar_depth = old_depth
    ctx.floor("C05-M", "blank fillers in the row-assembly loop", len(fills), 1)
    for cb, tt, e in fills:
        okc = False
        m = re.search(r"index\(&up\{&?(.*)\}, ops::Range\{0_usize, (.*)\}\)$", e)
        if m and "Iterator::collect(Iterator::map(ops::Range{0_usize," in m.group(1):
            # the sliced string holds tot_width blanks (closure returning ' ' over 0..tot_width) and the cut is 0..width
            okc = True
        elif "<impl str>::repeat(" in e and '" "' in e:
            okc = True
        elif "Iterator::take(" in e and "iter::repeat(" in e:
            okc = True
        ctx.check(okc, "C05-M", "row-filler=width-blanks", tt["span"], cb.id,
                  "the filler for a missing cell line is %s: unless it is exactly `width` blanks the row's bars no longer line up "
                  "(a fixed-size buffer caps it for wide columns)" % e[:160])


def rule_l(ctx):
    F = ctx.facts
    n = 0
    for b in F.bodies.values():
        if b.raw.get("from_expansion") and b.kind != "Closure":
            continue
        root = b.root if b.kind == "Closure" else b.id
        hits = set()
        for bb in b.reachable():
            t = b.term(bb)
            if t["k"] == "call" and any(ends(callee_def(t) or "", nm) for nm in BORDER_TO_TEXT):
                hits.add((callee_def(t).split("::")[-1], t["span"]))
            ops = list(t.get("args") or []) + [o for st in b.stmts(bb) for o in ((st.get("rv") or {}).get("ops") or []) + [(st.get("rv") or {}).get("use")] if o]
            for o in ops:
                k = op_const(o) if isinstance(o, dict) else None
                if k and "fn" in k:
                    d = k["fn"].get("resolved") or k["fn"].get("def") or ""
                    if any(ends(d, nm) for nm in BORDER_TO_TEXT):
                        hits.add((d.split("::")[-1], b.term(bb).get("span", b.span)))
        for nm, span in sorted(hits):
            n += 1
            why = BORDER_TO_TEXT_OK.get(root)
            key = "border-to-text@%s:%s" % (fn_key(b), nm)
            if why:
                ctx.ok("C05-L", key, span, b.id, why, how="table")
            else:
                ctx.violation("C05-L", key, span, b.id,
                              "a border line is converted into text here (%s): stored as text, the rule no longer takes part in the "
                              "junction bookkeeping of the rows drawn after it" % nm)
    ctx.floor("C05-L", "border-to-text conversions (all reviewed)", n, 4)


def rule_k(ctx):
    F = ctx.facts
    b = F.one(RTRAIT + "empty")
    at = b.atoms({"c": {"l": 0, "p": []}})
    wb = has_call(at, "WrappedBlock::<T>::is_empty") and has_field(at, SUBR, "wrapping")
    if not wb:
        # `self.wrapping.as_ref().map_or(true, |w| w.is_empty())`: the test sits in the closure the Option adaptor calls
        inner = [c for _x, c in transitive_closures(F, b) if c.calls(lambda cd, t: ends(cd, "WrappedBlock::<T>::is_empty"))]
        adapt = [t for _bb, t in b.calls(lambda cd, t: callee_method(t) in ("map_or", "is_none_or", "is_some_and", "map_or_else", "map", "all"))
                 if has_field(b.atoms(t["args"][0]), SUBR, "wrapping")]
        wb = bool(inner) and bool(adapt) and has_field(at, SUBR, "wrapping")
    ctx.check(wb, "C05-K", "empty():consults-the-open-block", b.span, b.id,
              "SubRenderer::empty() does not ask the open wrapped block whether it has content: a cell with only white space "
              "counts as non-empty although it renders no line")
    lines = [bb for bb, t in b.calls(lambda cd, t: callee_method(t) == "is_empty" and has_field(b.atoms(t["args"][0]), SUBR, "lines"))]
    ctx.check(len(lines) == 1, "C05-K", "empty():consults-lines", b.span, b.id, "")
    # and the row renderer skips on it
    rr = F.one("render_table_row")
    users = [c for _x, c in transitive_closures(F, rr)] + [rr]
    ctx.check(any(u.calls(lambda cd, t: ends(cd, RTRAIT + "empty")) for u in users), "C05-K", "render_table_row:skips-on-empty()", rr.span, rr.id, "")


def norm(s):
    return s.replace(").0", ")")


def rule_d(ctx):
    import re
    from . import C06
    F = ctx.facts
    b = F.one(RTRAIT + "append_columns_with_borders")
    env = {}
    # position walks: usize locals initialised to 0 and advanced by (column width + 1), the width being field 0 of
    # the element the walk's iterator yielded
    walks = []  # (cursor symbol, width expression)
    other = []
    for l, loc in enumerate(b.locals):
        if loc["ty"] != "usize" or any(r[0] == "arg" for r in b.defs()[l]):
            continue
        ds = [r for r in b.defs()[l] if r[1] in b.reachable()]
        zero = [r for r in ds if r[0] == "stmt" and (op_const((r[3].get("rv") or {}).get("use") or {}) or {}).get("int") == 0]
        ups = [r for r in ds if r not in zero]
        if not zero or not ups:
            continue
        k = b.canon(l, env=env)
        forms = [norm(b.canon(r[3]["rv"]["use"], env=env)) if r[0] == "stmt" and "use" in r[3]["rv"] else "?" for r in ups]
        m = [re.fullmatch(r"\(%s \+ \((.*next\(&mut \$\d+\) as Some\)(\.1)?\.0) \+ 1_usize\)\)" % re.escape(k), f) for f in forms]
        if all(m):
            for mm in m:
                walks.append((k, mm.group(1)))
            # the advance happens on every path through the loop body: with the update block removed, the loop's next()
            # can no longer reach itself (a `continue` before `pos += w + 1` would shift every later junction)
            for r in ups:
                ubb = r[1]
                nb = None
                for bb2, t2 in b.calls(lambda cd, t2: callee_method(t2) == "next"):
                    if b.dominates(bb2, ubb) and (nb is None or b.dominates(nb, bb2)):
                        nb = bb2
                some = C06._some_target(b, nb) if nb is not None else None
                if some is None:
                    ctx.violation("C05-D", "walk#%s:in-loop" % k, b.term(ubb)["span"], b.id, "cannot find the loop the position walk belongs to")
                    continue
                ctx.check(nb not in b.reach_from(some, avoid=[r2[1] for r2 in ups]), "C05-D", "walk:advance-on-every-path#%d" % len(walks), b.term(ubb)["span"], b.id,
                          "a path through the loop body skips `pos += w + 1`: junctions and merged rules of every later column "
                          "are placed too far left")
        else:
            other.append((l, k, forms, ups))
    ctx.floor("C05-D", "position walks advancing by column width + 1", len(walks), 3)
    # any other 0-initialised cursor that is used as a junction/merge position must be a walk
    joins = b.calls(lambda cd, t: callee_method(t) in ("join_below", "join_above"))
    ms = b.calls(lambda cd, t: callee_method(t) in ("merge_from_below", "merge_from_above"))
    pos_syms = {k for k, _w in walks}
    for bb, t in joins:
        ex = norm(b.canon(t["args"][1], env=env))
        okc = any(ex == "(%s + %s)" % (k, w) for k, w in walks)
        ctx.check(okc, "C05-D", "%s-at-pos+w" % callee_method(t), t["span"], b.id,
                  "joins at %s; the walks are %s" % (ex, walks))
    ctx.floor("C05-D", "join calls in the first walk", len(joins), 2)
    for bb, t in ms:
        ex = norm(b.canon(t["args"][2], env=env))
        ctx.check(ex in pos_syms, "C05-D", "%s-at-pos" % callee_method(t), t["span"], b.id,
                  "merges at %s; walk cursors: %s (other 0-initialised counters: %s)" % (ex, sorted(pos_syms), [(k, f) for _l, k, f, _u in other]))
    ctx.floor("C05-D", "merge calls", len(ms), 2)
    # receivers pair up: the border created here (next_border) gets join_above/merge_from_above, the previous
    # border (a different object) gets join_below/merge_from_below
    recv = {}
    for bb, t in joins + ms:
        pl = direct_place(b, t["args"][0])
        recv.setdefault(callee_method(t), set()).add(pl["l"] if pl is not None else None)
    nb = b.calls(lambda cd, t: ends(cd, "BorderHoriz::<T>::new"))
    created = {t["dest"]["l"] for bb, t in nb if is_bare(t["dest"])}
    above = recv.get("join_above", set()) | recv.get("merge_from_above", set())
    below = recv.get("join_below", set()) | recv.get("merge_from_below", set())
    ctx.check(len(nb) == 1 and above == created, "C05-D", "join_above/merge_from_above-on-next_border", b.span, b.id,
              "receivers %s, border created here %s" % (sorted(map(str, above)), sorted(created)))
    ctx.check(None not in below and not (below & created) and below, "C05-D", "join_below/merge_from_below-on-prev_border", b.span, b.id,
              "receivers %s" % sorted(map(str, below)))
    # separator: one push_char per non-last column
    pcs = b.calls(lambda cd, t: ends(cd, "TaggedLine::<T>::push_char"))
    if ctx.check(len(pcs) == 1, "C05-D", "one-separator-push", b.span, b.id, "%d push_char calls" % len(pcs)):
        pbb, pt = pcs[0]
        good = False
        for (a, s) in b.cdeps_transitive(pbb):
            truth, src = edge_is_true(b, a, s)
            if src and src[0] == "bin" and src[1]["bin"] in ("Ne", "Eq"):
                ea, eb = norm(b.canon(src[1]["a"], env=env)), norm(b.canon(src[1]["b"], env=env))
                pair = [ea, eb] if "Enumerate" in ea else [eb, ea]
                if re.fullmatch(r"\(<std::iter::Enumerate<I> as std::iter::Iterator>::next\(&mut \$\d+\) as Some\)\.0", pair[0]) and \
                        re.fullmatch(r"\(<T, A>::len\(&\$\d+\) - 1_usize\)", pair[1]):
                    good = (truth is True) if src[1]["bin"] == "Ne" else (truth is False)
        ctx.check(good, "C05-D", "separator-iff-not-last-column", pt["span"], b.id, "")
    # next_border's width = Σ column widths + (n − 1)
    okc = False
    if len(nb) == 1:
        pl = direct_place(b, nb[0][1]["args"][0])
        if pl is not None and is_bare(pl):
            k = b.canon(pl["l"], env=env)
            ex = sorted(norm(b.canon(r[3]["rv"]["use"], env=env)) for r in b.defs()[pl["l"]] if r[0] == "stmt" and "use" in r[3]["rv"])
            okc = len(ex) == 2 and ex[1] == "0_usize" and re.fullmatch(
                r"\(%s \+ <impl usize>::saturating_sub\(<T, A>::len\(&\$\d+\), 1_usize\)\)" % re.escape(k), ex[0]) is not None
            ctx.check(okc, "C05-D", "tot_width=Σw+(n-1):outer", b.span, b.id, str(ex))
            # Σw part lives in the column closure: *captured += sub_r.width
            oks = False
            for _bb, cb in transitive_closures(F, b):
                for bb in cb.reachable():
                    for st in cb.stmts(bb):
                        if st["k"] == "assign" and st["lhs"]["p"] and "use" in st["rv"]:
                            lhs = norm(cb.canon(st["lhs"]))
                            ex2 = norm(cb.canon(st["rv"]["use"]))
                            if lhs.startswith("up") and ex2.startswith("(%s + " % lhs) and ex2.endswith(".width)"):
                                oks = True
            ctx.check(oks, "C05-D", "tot_width=Σw+(n-1):sum", b.span, b.id, "")
    ctx.check(okc, "C05-D", "next_border-width=tot_width", b.span, b.id, "")


def rule_e(ctx):
    F = ctx.facts
    b = F.one(RTRAIT + "append_columns_with_borders")
    pcs = b.calls(lambda cd, t: ends(cd, "TaggedLine::<T>::push_char"))
    require(len(pcs) == 1, "one push_char in append_columns_with_borders")
    pbb, pt = pcs[0]
    pl = direct_place(b, pt["args"][1])  # through copies: the glyph may be chosen once, before the loops
    require(pl is not None and is_bare(pl), "separator glyph must be a local")
    glyphs = {}
    for r in b.defs()[pl["l"]]:
        if r[0] != "stmt" or r[1] not in b.reachable():
            continue
        k = op_const(r[3]["rv"].get("use")) if "use" in r[3]["rv"] else None
        ch = k.get("char") if k else None
        t_edge = unreachable_without_edges(b, r[1], edges_where(
            b, lambda truth, src, a, s: truth is True and src_field(src) == ("render::text_renderer::RenderOptions", "draw_borders")))
        f_edge = unreachable_without_edges(b, r[1], edges_where(
            b, lambda truth, src, a, s: truth is False and src_field(src) == ("render::text_renderer::RenderOptions", "draw_borders")))
        glyphs[ch] = "on" if t_edge else ("off" if f_edge else "ungoverned")
    ctx.check(glyphs == {"│": "on", " ": "off"}, "C05-E", "separator-glyph↔draw_borders", pt["span"], b.id, str(glyphs))
    # bottom rule
    lines = []
    for bb in b.reachable():
        for st in b.stmts(bb):
            rv = st.get("rv") or {}
            if rv.get("agg") == "adt" and rv.get("variant") == "Line" and ends(rv.get("adt"), "RenderLine"):
                lines.append((bb, st))
    ctx.floor("C05-E", "border line constructions in append_columns_with_borders", len(lines), 1)
    from ..util import field_true_edges
    cut = field_true_edges(b, "render::text_renderer::RenderOptions", "draw_borders")
    for bb, st in lines:
        ctx.check(unreachable_without_edges(b, bb, cut), "C05-E", "bottom-rule-only-under-draw_borders", st["span"], b.id, "")
        at = b.atoms(st["rv"]["ops"][0])
        ctx.check(has_call(at, "BorderHoriz::<T>::new"), "C05-E", "bottom-rule-is-next_border", st["span"], b.id, "")


def rule_f(ctx):
    F = ctx.facts
    b = F.one(RTRAIT + "append_vert_row")
    from ..util import field_true_edges
    cut = field_true_edges(b, "render::text_renderer::RenderOptions", "draw_borders")
    nt = b.calls(lambda cd, t: ends(cd, "BorderHoriz::<T>::new_type"))
    if ctx.check(len(nt) == 1, "C05-F", "one-separator-rule-kind", b.span, b.id, ""):
        bb, t = nt[0]
        at = b.atoms(t["args"][0])
        ctx.check(has_call(at, RTRAIT + "width") and not any(a[0] == "bin" for a in at), "C05-F", "separator-spans-width",
                  t["span"], b.id, "stacked-row rule must span self.width()")
        at1 = b.atoms(t["args"][1])
        ctx.check(("agg", "render::text_renderer::BorderSegHoriz", "StraightVert") in at1, "C05-F", "separator-kind-StraightVert",
                  t["span"], b.id, "")
        ctx.check(unreachable_without_edges(b, bb, cut), "C05-F", "separator-only-under-draw_borders", t["span"], b.id, "")
    hb = b.calls(lambda cd, t: ends(cd, RTRAIT + "add_horizontal_border"))
    if ctx.check(len(hb) == 1, "C05-F", "closing-rule", b.span, b.id, ""):
        ctx.check(unreachable_without_edges(b, hb[0][0], cut), "C05-F", "closing-rule-only-under-draw_borders", hb[0][1]["span"], b.id, "")
    sub = b.calls(lambda cd, t: ends(cd, RTRAIT + "append_subrender"))
    if ctx.check(len(sub) >= 1, "C05-F", "cells-appended", b.span, b.id, ""):
        for sbb, st_ in sub:  # one call in a loop, or the first cell peeled off in front of the loop: all unprefixed
            at = b.atoms(st_["args"][2])
            ctx.check(has_call(at, "std::iter::repeat") and ("const", '""') in at, "C05-F", "cells-unprefixed", st_["span"], b.id, "")
    # add_horizontal_border spans self.width
    ahb = F.one(RTRAIT + "add_horizontal_border")
    nb = ahb.calls(lambda cd, t: ends(cd, "BorderHoriz::<T>::new"))
    okc = len(nb) == 1 and direct_field(ahb, nb[0][1]["args"][0]) == ("render::text_renderer::SubRenderer", "width")
    ctx.check(okc, "C05-F", "add_horizontal_border-spans-width", ahb.span, ahb.id, "")


def rule_h(ctx):
    """The rule above a table is as wide as the table's rows: in render_table_tree the width handed to
    add_horizontal_border_width is the renderer width exactly on the stacked path and, side by side, the sum of the
    column widths plus one separator between the non-empty columns (the columns into_cells lays out)."""
    import re
    from ..widths import table_locals, _is_width_call, norm as wnorm
    F = ctx.facts
    b, W, V, S = table_locals(F)
    cs = b.calls(lambda cd, t: ends(cd, RTRAIT + "add_horizontal_border_width"))
    if not ctx.check(len(cs) == 1, "C05-H", "table:one-top-rule", b.span, b.id, "%d add_horizontal_border_width calls" % len(cs)):
        return
    pl = direct_place(b, cs[0][1]["args"][1])
    require(pl is not None and is_bare(pl), "top rule width must be a local")
    T = pl["l"]
    env = {}
    wsym = re.escape(b.canon(W, env=env))
    vcut_true = edges_where(b, lambda truth, src, a, s: truth is True and src and src[0] == "place" and is_bare(src[1]) and src[1]["l"] == V)
    vcut_false = edges_where(b, lambda truth, src, a, s: truth is False and src and src[0] == "place" and is_bare(src[1]) and src[1]["l"] == V)
    kinds = []
    for r in b.defs()[T]:
        if r[1] not in b.reachable():
            continue
        if r[0] == "call" and callee_method(r[2]) == "width":
            okc = unreachable_without_edges(b, r[1], vcut_true)
            kinds.append("width")
            ctx.check(okc, "C05-H", "table:top-rule=width-only-when-stacked", r[2]["span"], b.id,
                      "the top rule gets the full renderer width on a path that is not the stacked layout")
        elif r[0] == "stmt" and "use" in r[3]["rv"]:
            o = r[3]["rv"]["use"]
            if _is_width_call(b, o):
                okc = unreachable_without_edges(b, r[1], vcut_true)
                kinds.append("width")
                ctx.check(okc, "C05-H", "table:top-rule=width-only-when-stacked", r[3]["span"], b.id,
                          "the top rule gets the full renderer width on a path that is not the stacked layout")
                continue
            ex = wnorm(b.canon(o, env=env))
            okf = re.fullmatch(r"\(Iterator::sum\(<impl \[T\]>::iter\(&<std::vec::Vec<T, A> as std::ops::Deref>::deref\(&%s\)\)\) \+ "
                               r"<impl usize>::saturating_sub\(<std::iter::Filter<I, P> as std::iter::Iterator>::count\(Iterator::filter\("
                               r"<impl \[T\]>::iter\(&<std::vec::Vec<T, A> as std::ops::Deref>::deref\(&%s\)\), render_table_tree::\{closure\}\{\}\)\), 1_usize\)\)"
                               % (wsym, wsym), ex) is not None
            kinds.append("sum")
            ctx.check(okf and unreachable_without_edges(b, r[1], vcut_false), "C05-H", "table:top-rule=Σw+(nonempty−1)-side-by-side",
                      r[3]["span"], b.id, "side-by-side top rule width is %s" % ex[:200])
        else:
            kinds.append("?")
            ctx.violation("C05-H", "table:top-rule-width:other-definition", b.span, b.id, "unexpected definition of the top rule width")
    ctx.check(sorted(kinds) == ["sum", "width"], "C05-H", "table:top-rule-width:two-definitions", b.span, b.id, str(kinds))


def rule_g(ctx):
    F = ctx.facts
    b = F.one(RTRAIT + "append_columns_with_borders")
    norm_cl = None
    for _bb, cb in transitive_closures(F, b):
        if cb.calls(lambda cd, t: ends(cd, "TaggedLine::<T>::pad_to")):
            norm_cl = cb
    require(norm_cl is not None, "per-line normalisation closure (pad_to) in append_columns_with_borders")
    cb = norm_cl
    disp = find_dispatch(cb, "RenderLine<std::vec::Vec<<D as render::text_renderer::TextDecorator>::Annotation>>", 1)
    rl = F.adt("RenderLine")
    names = {v["discr"]: v["name"] for v in rl["variants"]}
    t = cb.term(disp)
    arms = {}
    for v, tb in t["targets"]:
        arms[names[v]] = tb
    if t["otherwise"] is not None and cb.term(t["otherwise"])["k"] != "unreachable":
        for nm in set(names.values()) - set(arms):
            arms[nm] = t["otherwise"]
    for nm, meth in (("Text", "pad_to"), ("Line", "stretch_to")):
        tb = arms.get(nm)
        okc = False
        if tb is not None:
            region = [x for x in cb.reachable() if cb.dominates(tb, x)]
            for x in region:
                tt = cb.term(x)
                if tt["k"] == "call" and callee_method(tt) == meth:
                    # ... on every path through the arm: nothing but the dispatch on the line's kind decides whether it runs
                    extra = {e for e in cb.cdeps_transitive(x) if e[0] != disp} - set(cb.cdeps_transitive(tb))
                    if extra:
                        ctx.violation("C05-G", "normalise:%s→%s:every-line" % (nm, meth), tt["span"], fn_key(cb),
                                      "only some %s lines of a cell are brought to the column width (the call is conditional inside "
                                      "its arm): a line left shorter shifts every bar to its right" % nm.lower())
                    # the width is a captured variable whose value, where the closure is created, is the
                    # sub-renderer's own width (`sub_r.width`)
                    o = origin(cb, tt["args"][1])
                    if o and o[0] == "place" and not o[1]["p"] and 2 <= o[1]["l"] <= cb.arg_count:
                        # the width is a parameter of the (named) closure: every call of it passes the column's own width
                        k = o[1]["l"] - 2
                        callers = []
                        for body in [b] + [c for _x, c in transitive_closures(F, b)]:
                            callers += [(body, t2) for _bb2, t2 in body.calls(lambda cd, t2: cd == cb.id)]
                        good = bool(callers)
                        for body, t2 in callers:
                            ao = origin(body, t2["args"][1]) if len(t2["args"]) > 1 else None
                            if not (ao and ao[0] == "rv" and ao[1].get("agg") == "tuple" and k < len(ao[1]["ops"])):
                                good = False
                                continue
                            cn = norm(body.canon(ao[1]["ops"][k]))
                            while cn.startswith("up{") and cn.endswith("}"):
                                cn = cn[3:-1]
                            good = good and cn.lstrip("&").endswith("arg2.width")
                        okc = good
                    elif o and o[0] == "place":
                        ups = [e for e in o[1]["p"] if isinstance(e, dict) and "f" in e and str(e.get("o", "")).startswith("closure:")]
                        if ups:
                            for _pbb, pcb in transitive_closures(F, b):
                                for (_cbb, _i, c2, ops, fields) in closure_bodies_created_in(F, pcb):
                                    if c2.id == cb.id and ups[0]["f"] < len(ops):
                                        okc = norm(pcb.canon(ops[ups[0]["f"]])).lstrip("&").endswith("arg2.width")
        ctx.check(okc, "C05-G", "normalise:%s→%s(width)" % (nm, meth), cb.span, fn_key(cb),
                  "a column's %s lines must be brought to the column width before the borders are collapsed and the padding "
                  "rows are derived" % nm.lower())
    # the normalisation happens before any use: it is inside the construction of line_sets (first closure), and
    # column_padding is derived from the (stretched) last border line
    pad = b.calls(lambda cd, t: ends(cd, "BorderHoriz::<T>::to_vertical_lines_above"))
    ctx.check(len(pad) == 1, "C05-G", "padding-rows-from-bottom-border", b.span, b.id, "")
    # whenever a nested table's bottom rule is popped its bars are carried on as the column's padding: the two happen
    # under exactly the same conditions
    pops = [(bb, t) for bb, t in b.calls(lambda cd, t: callee_method(t) == "pop")]
    if len(pad) == 1 and pops:
        pbb = pad[0][0]
        near = [bb for bb, t in pops if b.dominates(pbb, bb) or b.dominates(bb, pbb)]
        # the store of the padding
        stores = [x for x in b.reachable() for st in b.stmts(x) if st["k"] == "assign" and st["lhs"]["p"] and
                  ("agg", "std::option::Option", "Some") in b.atoms(st["rv"].get("use") or {"l": 0, "p": []}) and
                  has_call(b.atoms(st["rv"].get("use") or {"l": 0, "p": []}), "BorderHoriz::<T>::to_vertical_lines_above")] if False else []
        okc = bool(near) and all(b.cdeps_transitive(bb) == b.cdeps_transitive(pbb) for bb in near)
        ctx.check(okc, "C05-G", "bottom-rule-popped-iff-padding-recorded", pad[0][1]["span"], b.id,
                  "the nested bottom rule is removed under other conditions than the ones under which its bars are kept as padding")


def rule_j(ctx):
    """join_below on the previous rule and join_above on the next rule are bookkeeping for bars that the row's
    lines are about to draw.  If the function could return after that bookkeeping without drawing the row (an early
    `return Ok(())` for a zero-height row, say) the rule above would show junctions for bars that do not exist."""
    F = ctx.facts
    b = F.one(RTRAIT + "append_columns_with_borders")
    joins = b.calls(lambda cd, t: callee_method(t) in ("join_below", "join_above"))
    require(bool(joins), "junction bookkeeping in append_columns_with_borders")
    oks = []
    for x in sorted(b.reachable()):
        for st in b.stmts(x):
            rv = st.get("rv") or {}
            if st["k"] == "assign" and st["lhs"]["l"] == 0 and not st["lhs"]["p"] and rv.get("agg") == "adt" and rv.get("variant") == "Ok":
                oks.append((x, st))
    after = set()
    for jbb, _t in joins:
        after |= b.reach_from(jbb)
    oks = [o for o in oks if o[0] in after]  # an early exit *before* any junction was recorded is harmless
    ctx.check(len(oks) == 1, "C05-J", "append_columns:single-normal-exit", oks[1][1]["span"] if len(oks) > 1 else b.span, b.id,
              "%d places return Ok(()): a row must not be abandoned after its junctions were recorded" % len(oks))
    if len(oks) == 1:
        # the bottom rule (add_line(Line(next_border))) lies on the way to it when borders are drawn: the exit is
        # not reachable from a junction call without passing the row loop's exit
        adds = b.calls(lambda cd, t: ends(cd, "SubRenderer::<D>::add_line"))
        ctx.check(bool(adds) and all(any(oks[0][0] in b.reach_from(abb) for abb, _t in adds) for _ in [0]), "C05-J",
                  "append_columns:exit-after-the-row-was-added", b.span, b.id, "")
