"""C16 — custom decorators are honoured verbatim and measured by display width."""
from ..facts import AnchorMissing, callee_def, op_place, op_const, is_bare
from ..util import (origin, SUBR, RTRAIT, ends, site, fn_key, callee_method, require, deep_atoms, has_call,
                    has_field, transitive_closures, consumer_of_ref)

EXPLANATION = (
    "Static decision of the structural clauses: (A) units — a string returned by a decorator prefix "
    "method is never measured by byte or char count (String::len, str::len, chars().count()) anywhere in "
    "the crate, and is measured by UnicodeWidthStr::width where a column count is derived; format!-width "
    "padding of such a string is not used; (B) affixes flow from the decorator call to add_inline_text "
    "through borrows only, and the strikeout text filter is installed after the opening affix and removed "
    "before the closing one; (C) every string-returning TextDecorator method of TrivialDecorator — impl or "
    "inherited default — returns only empty string constants (decorate_image returns its title argument); "
    "(D) generic rendering code calls decorator methods only on the user's decorator type.")
NOT_DECIDED = "the width bound under wide affixes (C02's undecided core)"
ASSUMPTIONS = ["user decorators return the same prefix for the same arguments from the estimate copy and the render copy"]

PREFIX_METHODS = ("header_prefix", "quote_prefix", "unordered_item_prefix", "ordered_item_prefix")
AFFIX = {
    "start_link": "decorate_link_start", "end_link": "decorate_link_end",
    "start_emphasis": "decorate_em_start", "end_emphasis": "decorate_em_end",
    "start_strong": "decorate_strong_start", "end_strong": "decorate_strong_end",
    "start_strikeout": "decorate_strikeout_start", "end_strikeout": "decorate_strikeout_end",
    "start_code": "decorate_code_start", "end_code": "decorate_code_end",
    "start_superscript": "decorate_superscript_start", "end_superscript": "decorate_superscript_end",
    "add_image": "decorate_image",
}
BORROW_CALLS = ("deref", "as_str", "as_ref", "borrow", "deref_mut", "as_mut_str")


def check(ctx):
    ctx.rule("C16-A", "units: decorator prefix strings are measured in display columns, never bytes/chars")
    ctx.rule("C16-B", "affixes reach add_inline_text verbatim (borrows only); strikeout filter sits strictly "
             "inside the affixes")
    ctx.rule("C16-C", "TrivialDecorator returns only empty strings from every string-returning method, "
             "inherited defaults included")
    ctx.rule("C16-D", "generic code calls TextDecorator methods on the user's decorator type only")
    for rid, fn in (("C16-A", rule_a), ("C16-B", rule_b), ("C16-C", rule_c), ("C16-D", rule_d)):
        ctx.guard(rid, fn)
    from .. import widths as _w
    ctx.rule("C16-E", "size estimates (which measure the decorator's prefixes) are computed only while rendering, with the "
             "rendering configuration's decorator")
    ctx.guard("C16-E", _w.rule_estimates_only_at_render, "C16-E")
    ctx.rule("C16-F", "a block's marker comes from the decorator of the renderer the block is attached to: in the tree walk every "
             "*_prefix call is made with the block's own sub-renderer off the stack — before it is pushed, or after it was "
             "popped (a sub-block decorator may return different markers than its parent)")
    ctx.guard("C16-F", rule_f)
    ctx.rule("C16-G", "inline markup is decorated even when it is empty: the em / strong / strikeout / code arms of the DOM walk build "
             "their node through `pending` (which always calls the reducer), not through `pending_noempty` — the decorator's "
             "affixes belong to the element, not to its content")
    ctx.guard("C16-G", rule_g)
    ctx.rule("C16-H", "a block's prefix is attached as the decorator returned it: in append_subrender the string given to insert_front "
             "comes from the prefix iterator through copies only (to_string / clone / into) — no trimming or other rewriting, "
             "also not on blank lines")
    ctx.guard("C16-H", rule_h)


COPIES = ("to_string", "clone", "into", "to_owned", "from", "deref", "as_ref", "as_str", "borrow", "next", "unwrap", "expect")


def rule_h(ctx):
    F = ctx.facts
    b = F.one(RTRAIT + "append_subrender")
    n = 0
    for cb in [b] + [c for _x, c in transitive_closures(F, b)]:
        for bb, t in cb.calls(lambda cd, t: ends(cd, "TaggedLine::<T>::insert_front")):
            n += 1
            # (the slice stops at the iterator's `next`: how the zip of lines and prefixes was built is C07-A/C03-E's matter)
            src = t["args"][1]
            o = origin(cb, src)
            if o and o[0] == "rv" and o[1].get("agg") == "adt" and "s" in (o[1].get("fields") or []):
                src = o[1]["ops"][o[1]["fields"].index("s")]  # the string of the TaggedString literal (its tag is C09's matter)
            at = cb.atoms(src, stop_calls=lambda c: bool(c) and c.endswith("::next"))
            calls = sorted({a[1].split("::")[-1] for a in at if a[0] == "call" and a[1]})
            other = [c for c in calls if c not in COPIES]
            ctx.check(not other, "C16-H", "append_subrender:prefix-verbatim", t["span"], cb.id,
                      "the prefix is rewritten on its way to the line (%s): the decorator's string no longer appears as given" % other)
            # and on every line: the insert does not depend on the line's content
            conds = []
            for (a, s2) in cb.cdeps_transitive(bb):
                _neg, src = cb.switch_source(a)
                if src and src[0] == "discr":
                    continue
                if src and src[0] == "call" and callee_method(src[1]) == "is_empty" and "str" in (callee_def(src[1]) or ""):
                    continue  # an empty prefix needs no insertion
                conds.append(cb.term(a)["span"])
            ctx.check(not conds, "C16-H", "append_subrender:prefix-on-every-text-line", t["span"], cb.id,
                      "the prefix is attached under a condition (%s)" % conds[:2])
    ctx.floor("C16-H", "insert_front calls in append_subrender", n, 1)


def rule_g(ctx):
    F = ctx.facts
    from ..util import closure_bodies_created_in, direct_place
    pdn = F.one("process_dom_node")
    seen = {}
    for (cbb, i, cb, ops, fields) in closure_bodies_created_in(F, pdn):
        kinds = sorted({(st.get("rv") or {}).get("variant") for x in cb.reachable() for st in cb.stmts(x)
                        if (st.get("rv") or {}).get("variant") in ("Em", "Strong", "Strikeout", "Code") and ends((st.get("rv") or {}).get("adt"), "RenderNodeInfo")})
        if not kinds:
            continue
        # the call the closure is handed to
        user = None
        for x in sorted(pdn.reach_from(cbb)):
            tt = pdn.term(x)
            if tt["k"] != "call":
                continue
            for a in tt["args"]:
                pl = direct_place(pdn, a)
                sd = pdn.single_def(pl["l"]) if pl is not None and not pl["p"] else None
                if sd and sd[0] == "stmt" and (sd[3].get("rv") or {}).get("def") == cb.id:
                    user = tt
            if user:
                break
        for k in kinds:
            seen[k] = (callee_def(user) or "?").split("::")[-1] if user else "?"
            ctx.check(user is not None and (callee_def(user) or "").split("::")[-1] == "pending", "C16-G", "%s:node-built-through-pending" % k,
                      user["span"] if user else cb.span, pdn.id,
                      "the %s node is built through %s: an element whose children render to nothing is dropped before the decorator is "
                      "asked, so its affixes disappear" % (k, seen[k]))
    ctx.floor("C16-G", "inline markup kinds built in process_dom_node", len(seen), 4)


def rule_f(ctx):
    F = ctx.facts
    drn = F.one("do_render_node")
    n = 0
    for b in [drn] + [c for _x, c in transitive_closures(F, drn)]:
        pcs = b.calls(lambda cd, t: callee_method(t) in PREFIX_METHODS and (ends(cd, RTRAIT + callee_method(t)) or ends(cd, "TextDecorator::" + callee_method(t))))
        if not pcs:
            continue
        pushes = [bb for bb, t in b.calls(lambda cd, t: ends(cd, "TextRenderer::<D>::push"))]
        pops = [bb for bb, t in b.calls(lambda cd, t: ends(cd, "TextRenderer::<D>::pop"))]
        for bb, t in pcs:
            n += 1
            after_push = [p for p in pushes if bb in b.reach_from(p) and not any(b.dominates(q, bb) and q in b.reach_from(p) for q in pops)]
            before_pop = [p for p in pops if not b.dominates(p, bb) and p in b.reach_from(bb)]
            ctx.check(not after_push and not before_pop, "C16-F", "%s:%s-at-the-parent-renderer" % (fn_key(b), callee_method(t)), t["span"], b.id,
                      "%s is called while the block's own sub-renderer is on top of the stack (%s): the marker is then asked of the "
                      "sub-block decorator, while its width and the body width were computed with the parent's"
                      % (callee_method(t), "after the push" if after_push else "before the pop"))
    ctx.floor("C16-F", "prefix calls in the tree walk", n, 6)


def is_prefix_source(a):
    return a[0] == "call" and a[1] and any(a[1].endswith("::" + m) for m in PREFIX_METHODS)


def rule_a(ctx):
    F = ctx.facts
    nwidth = 0
    nsrc = 0
    for b in F.bodies.values():
        for bb, t in b.calls():
            m = callee_method(t)
            cd = callee_def(t)
            if m in PREFIX_METHODS and (ends(cd, "TextDecorator::" + m) or ends(cd, RTRAIT + m)):
                nsrc += 1
            if not t["args"]:
                continue
            measured = None
            if m == "len" and (ends(cd, "String::len") or ends(cd, "str::len", "core::str::<impl str>::len")):
                measured = "byte length"
            elif m == "count" and "Chars" in (cd or ""):
                measured = "char count"
            elif m in ("chars", "char_indices", "bytes", "as_bytes") and ends(cd, "str::" + m, "core::str::<impl str>::" + m, "String::" + m):
                measured = "per-character iteration (one unit per char/byte, not per column)"
            elif m == "width" and "UnicodeWidthStr" in (cd or ""):
                measured = "width"
            elif ends(cd, "Argument::<'_>::new_display") and False:
                measured = None
            if measured is None:
                continue
            # through_calls but stop at the prefix calls themselves so that their own receivers
            # (renderer, decorator) do not smear the slice
            at = deep_atoms(F, b, t["args"][0], stop_calls=lambda c: c and any(c.endswith("::" + s) for s in PREFIX_METHODS))
            if not any(is_prefix_source(a) for a in at):
                continue
            recv = b.expr(t["args"][0])
            if measured == "width":
                nwidth += 1
                ctx.ok("C16-A", "width(%s)@%s" % (recv, fn_key(b)), t["span"], b.id, "display width")
            else:
                ctx.violation("C16-A", "%s(%s)@%s" % (m, recv, fn_key(b)), t["span"], b.id,
                              "a decorator prefix is measured by %s; layout must use its display width "
                              "(a non-ASCII prefix mis-sizes the block)" % measured)
    ctx.floor("C16-A", "prefix source calls", nsrc, 8)
    ctx.floor("C16-A", "display-width measurements of prefixes", nwidth, 6)
    # format!-width padding of a prefix string: `{: <w$}` pads by chars, not columns.  In MIR a
    # formatted prefix appears as Argument::new_display(&prefix) next to a from_usize width argument.
    for b in F.bodies.values():
        disp = b.calls(lambda cd, t: ends(cd, "Argument::<'_>::new_display"))
        usz = b.calls(lambda cd, t: ends(cd, "Argument::<'_>::from_usize"))
        if not disp or not usz:
            continue
        for bb, t in disp:
            at = deep_atoms(F, b, t["args"][0], stop_calls=lambda c: c and any(c.endswith("::" + s) for s in PREFIX_METHODS))
            if any(is_prefix_source(a) for a in at):
                # is there a width argument in the same format_args! (same source line)?
                same = [u for ubb, u in usz if u["span"] == t["span"]]
                if same:
                    ctx.violation("C16-A", "format-width(%s)@%s" % (b.expr(t["args"][0]), fn_key(b)), t["span"], b.id,
                                  "a decorator prefix is padded with a format! width (counts chars, not columns)")


def rule_b(ctx):
    F = ctx.facts
    n = 0
    for fn, dec in AFFIX.items():
        b = F.one(RTRAIT + fn)
        texts = b.calls(lambda cd, t: ends(cd, RTRAIT + "add_inline_text"))
        if not ctx.check(len(texts) == 1, "C16-B", "%s:one-text" % fn, b.span, b.id, "%d add_inline_text calls" % len(texts)):
            continue
        n += 1
        tbb, t = texts[0]
        at = b.atoms(t["args"][1], stop_calls=lambda c: c and "TextDecorator::" in c)
        calls = {a[1] for a in at if a[0] == "call"}
        dec_ok = any(c and c.endswith("TextDecorator::" + dec) for c in calls)
        other = sorted(c for c in calls if c and not c.endswith("TextDecorator::" + dec)
                       and c.split("::")[-1] not in BORROW_CALLS)
        ctx.check(dec_ok and not other, "C16-B", "%s:affix-verbatim" % fn, t["span"], b.id,
                  "the affix must reach add_inline_text unchanged; transforming calls on the way: %s" % other)
        # ... and always: writing the affix does not depend on renderer state (inside <pre>, at a block end, ...)
        conds = []
        for (a, s2) in b.cdeps_transitive(tbb):
            _neg, src = b.switch_source(a)
            if src and src[0] == "discr":
                continue  # `?` plumbing
            conds.append(b.term(a)["span"])
        ctx.check(not conds, "C16-B", "%s:affix-unconditional" % fn, t["span"], b.id,
                  "the decorator's affix is written only under a condition (%s): where it does not hold, a custom decorator's "
                  "markup silently disappears" % conds[:2])
    ctx.floor("C16-B", "affix sites", n, 13)
    # strikeout filter placement
    ss = F.one(RTRAIT + "start_strikeout")
    es = F.one(RTRAIT + "end_strikeout")
    def filt_ops(b):
        out = []
        for (bb, where, pl, acc) in b.all_places():
            fs = [e for e in pl["p"] if isinstance(e, dict) and "f" in e]
            if acc == "refmut" and fs and fs[-1]["n"] == "text_filter_stack":
                st = b.stmts(bb)[where[1]]
                c = consumer_of_ref(b, bb, where, st["lhs"]["l"])
                if c:
                    out.append((c[0], callee_method(c[1])))
        return out
    so, eo = filt_ops(ss), filt_ops(es)
    st_text = ss.calls(lambda cd, t: ends(cd, RTRAIT + "add_inline_text"))
    en_text = es.calls(lambda cd, t: ends(cd, RTRAIT + "add_inline_text"))
    okc = len(so) == 1 and so[0][1] == "push" and st_text and ss.dominates(st_text[0][0], so[0][0]) and st_text[0][0] != so[0][0]
    ctx.check(okc, "C16-B", "strikeout:filter-after-opening-affix", ss.span, ss.id,
              "the strikeout filter must be installed after the decorator's opening affix was written")
    okc = len(eo) == 1 and eo[0][1] == "pop" and en_text and all(
        en_text[0][0] not in es.reach_from(0, avoid=[eo[0][0]]) or True for _ in [0])
    # pop precedes the closing affix on the path where the filter is in use
    if len(eo) == 1 and en_text:
        pbb = eo[0][0]
        okc = en_text[0][0] in es.reach_from(pbb) and pbb not in es.reach_from(en_text[0][0])
    ctx.check(okc, "C16-B", "strikeout:filter-removed-before-closing-affix", es.span, es.id,
              "the strikeout filter must be removed before the decorator's closing affix is written")
    # the filter only appends U+0336 after chars, never alters them
    from .C15 import strikeout_filter_shape
    problems, fts = strikeout_filter_shape(F)
    ctx.check(not problems, "C16-B", "strikeout-filter:input-char-then-U+0336", fts.span, fts.id, "; ".join(problems))


def string_consts(b):
    out = []
    for bb in b.reachable():
        for st in b.stmts(bb):
            rv = st.get("rv") or {}
            ops = ([rv["use"]] if "use" in rv else []) + list(rv.get("ops", []))
            for o in ops:
                k = op_const(o)
                if k and k["ty"] in ("&str", "&'static str"):
                    out.append(k["v"])
        t = b.term(bb)
        if t["k"] == "call":
            for a in t["args"]:
                k = op_const(a)
                if k and k["ty"] in ("&str", "&'static str"):
                    out.append(k["v"])
                if k and "promoted" in k:
                    out.extend(v for v in b.promoted_consts(k["promoted"]) if v.startswith('"'))
    return out


def rule_c(ctx):
    F = ctx.facts
    tr = [t for p, t in F.traits.items() if p.endswith("TextDecorator")]
    require(len(tr) == 1, "TextDecorator trait")
    impl = [im for im in F.impls if ends(im.get("trait"), "TextDecorator") and im["self_ty"].endswith("TrivialDecorator")]
    require(len(impl) == 1, "impl TextDecorator for TrivialDecorator")
    n = 0
    for m in impl[0]["methods"]:
        b = F.bodies.get(m["impl_item"])
        if b is None:
            ctx.violation("C16-C", "Trivial::%s" % m["name"], "", m["impl_item"], "body unavailable")
            continue
        sig = b.raw.get("sig", "")
        ret = sig.split("->")[-1] if "->" in sig else ""
        if "String" not in ret or m["name"] in ("finalise",):
            continue
        n += 1
        consts = string_consts(b)
        fmt = b.calls(lambda cd, t: ends(cd, "std::fmt::format", "fmt::format"))
        key = "Trivial::%s%s" % (m["name"], ":inherited-default" if m["inherited_default"] else "")
        if m["name"] == "decorate_image":
            at = b.atoms(0)
            ctx.check(("arg", 3) in at and not fmt and all(c == '""' for c in consts), "C16-C", key, b.span, b.id,
                      "decorate_image must return exactly its title argument")
            continue
        nonempty = [c for c in consts if c != '""']
        ctx.check(not nonempty and not fmt, "C16-C", key, b.span, b.id,
                  "the trivial decorator must add nothing, but %s returns %s%s" %
                  (m["name"], nonempty, " (inherited trait default)" if m["inherited_default"] else ""))
    ctx.floor("C16-C", "string-returning methods of TrivialDecorator", n, 16)


def rule_d(ctx):
    F = ctx.facts
    n = 0
    for b in F.bodies.values():
        gen = "<D>" in b.id or b.root in ("do_render_node", "render_tree_to_string", "precalc_size_estimate",
                                           "calc_ol_prefix_size", "render_table_tree", "render_table_row",
                                           "render_table_row_vert", "render_table_cell", "pending2")
        if not gen and not ends(b.root, "RenderNode::calc_size_estimate"):
            continue
        for bb, t in b.calls():
            c = t.get("callee") or {}
            if ends(c.get("trait"), "TextDecorator") and c.get("def", "").startswith("render::text_renderer::TextDecorator::"):
                n += 1
                st = c.get("self_ty", "")
                ctx.check(st in ("D", "Self"), "C16-D", "decorator-call:%s@%s" % (c.get("method"), fn_key(b)),
                          t["span"], b.id, "decorator method called on %s instead of the user's decorator type" % st)
    ctx.floor("C16-D", "decorator method calls in generic code", n, 30)
