"""C10 — all API routes agree; rendering is deterministic and trees are reusable."""
import os
import subprocess
import time

from ..facts import AnchorMissing, callee_def, op_place, op_const, is_bare, VERIF, REPO
from ..util import (SUBR, RTRAIT, ends, site, fn_key, callee_method, require, has_call, has_field,
                    transitive_closures, direct_field, field_accesses, norm_callee)
from .. import options

EXPLANATION = (
    "Static decision: (A) no source of nondeterminism is reachable from any public entry point — no "
    "iteration over hash collections, no clock/env/thread/process/random source, no pointer-to-integer "
    "cast or pointer formatting, no mutable or interior-mutable static, no thread-local, no reference "
    "count used as data (safe Rust without these is a function of its inputs; the rule checks that "
    "premise; a positive control confirms hash collections are found and used only through lookups); "
    "(B) every public route funnels through dom_to_render_tree_with_context and "
    "RenderTree::render_with_context, text is written only by the renderer and the tree walk, string "
    "and line outputs are two conversions of the same flushed line list; (C) options are plumbed "
    "field-to-same-field; (D) rendering consumes the tree (compile_fail witness E0382 with compiling "
    "twin, thorough tier) and the estimate caches are written only by the estimate family, which sees "
    "neither the width nor the render options; no shared ownership inside the render tree; (E) the "
    "context is rebuilt per call and never stored.")
NOT_DECIDED = ("that make_subblock_decorator of a user decorator behaves like the original (trait contract, assumption A4)")
ASSUMPTIONS = ["A4: user decorators are deterministic; html5ever parsing is deterministic"]

FORBIDDEN = [
    ("hash-iteration", ("std::collections::HashMap", "std::collections::HashSet", "std::collections::hash_map::", "std::collections::hash_set::"),
     ("iter", "iter_mut", "keys", "values", "values_mut", "into_iter", "drain", "retain", "into_keys", "into_values", "extract_if")),
    ("clock", ("std::time::",), None),
    ("environment", ("std::env::",), None),
    ("thread", ("std::thread::",), None),
    ("process", ("std::process::id",), None),
    ("random-state", ("std::hash::RandomState::new", "std::collections::hash_map::RandomState::new"), None),
    ("refcount-as-data", ("std::rc::Rc::<T, A>::strong_count", "std::rc::Rc::<T, A>::weak_count", "std::rc::Rc::<T, A>::as_ptr",
                          "std::rc::Rc::<T>::strong_count", "std::rc::Rc::<T>::weak_count", "std::rc::Rc::<T>::as_ptr"), None),
    ("pointer-format", ("core::fmt::rt::Argument::<'_>::new_pointer", "std::fmt::Pointer::fmt"), None),
]

ROUTES = ["config::Config::<D>::string_from_read", "config::Config::<D>::lines_from_read",
          "config::Config::<render::text_renderer::RichDecorator>::coloured",
          "config::Config::<render::text_renderer::RichDecorator>::render_coloured",
          "config::Config::<D>::render_to_string", "config::Config::<D>::render_to_lines",
          "from_read", "from_read_rich", "from_read_with_decorator", "ansi_colours::from_read_coloured"]
PARSING_ROUTES = ["config::Config::<D>::string_from_read", "config::Config::<D>::lines_from_read",
                  "config::Config::<render::text_renderer::RichDecorator>::coloured", "from_read", "from_read_rich",
                  "from_read_with_decorator", "ansi_colours::from_read_coloured", "parse", "config::Config::<D>::dom_to_render_tree"]


def check(ctx):
    ctx.rule("C10-A", "no nondeterminism source is reachable from the public API")
    ctx.rule("C10-B", "all public routes funnel through one tree builder and one renderer; only the renderer writes text")
    ctx.rule("C10-C", "options are plumbed straight: each field of the next struct is initialised from the same-named field")
    ctx.rule("C10-D", "layout caches cannot be observed by a later render: rendering consumes the tree; caches are written "
             "only by the estimate family, which takes neither width nor render options; no shared ownership in the tree")
    ctx.rule("C10-E", "the context is rebuilt per call and never stored")
    for rid, fn in (("C10-A", rule_a), ("C10-B", rule_b), ("C10-C", rule_c), ("C10-D", rule_d), ("C10-E", rule_e)):
        ctx.guard(rid, fn)
    ctx.rule("C10-F", "the parsed document is read-only for html2text: every mutating access to a field of a DOM node (borrow_mut, "
             "replace, set, take, swap, get_mut on children / parent / attrs / contents / template_contents) lies in the vendored "
             "DOM module, and the only such function html2text's own code calls (Node::get_parent) puts back what it takes — "
             "so converting the same RcDom twice gives the same tree")
    ctx.guard("C10-F", rule_f)
    from .. import widths as _w
    ctx.guard("C10-D", _w.rule_estimates_only_at_render, "C10-D")
    from . import C11
    ctx.guard("C10-B", C11.rule_a_as, "C10-B")


DOM_MUTATORS = ("borrow_mut", "replace", "set", "take", "swap", "replace_with", "get_mut", "as_ptr", "try_borrow_mut", "update")
DOM_FILE = "src/markup5ever_rcdom.rs"


def rule_f(ctx):
    F = ctx.facts
    from ..util import direct_field
    inside = {}
    n_out = 0
    for b in F.bodies.values():
        for bb, t in b.calls(lambda cd, t: callee_method(t) in DOM_MUTATORS):
            if not t["args"]:
                continue
            f = direct_field(b, t["args"][0])
            if not (f and "markup5ever_rcdom::Node" in f[0]):
                continue
            if b.span.startswith(DOM_FILE):
                inside.setdefault(b.root if b.kind == "Closure" else b.id, []).append((b, bb, t, f))
            else:
                n_out += 1
                ctx.violation("C10-F", "dom-mutation@%s:%s.%s" % (fn_key(b), f[1], callee_method(t)), t["span"], b.id,
                              "%s() on a DOM node's `%s` outside the DOM module: building a render tree (or matching a selector) "
                              "changes the caller's document, so a second conversion of the same RcDom differs from the first"
                              % (callee_method(t), f[1]))
    # positive control: the query finds the DOM module's own mutation sites
    ctx.floor("C10-F", "mutating accesses to DOM node fields inside the DOM module (positive control)", sum(len(v) for v in inside.values()), 10)
    if not n_out:
        ctx.ok("C10-F", "no-dom-mutation-outside-the-dom-module", "", "", "0 sites", how="auto")
    # which of the mutating functions does html2text's own code call?
    called = set()
    for b in F.bodies.values():
        if b.span.startswith(DOM_FILE):
            continue
        for bb, t in b.calls(lambda cd, t: cd in inside):
            called.add(callee_def(t))
    for fid in sorted(called):
        fb = F.bodies[fid]
        sites = inside[fid]
        # restore discipline: every take()/replace() of a field is followed on every path to a return by a set() of the same field
        okc = True
        for (b2, bb, t, f) in sites:
            m = callee_method(t)
            if m == "set":
                continue
            if m not in ("take", "replace") or b2 is not fb:
                okc = False
                continue
            sets = [x for (b3, x, t3, f3) in sites if b3 is fb and callee_method(t3) == "set" and f3 == f]
            # (taking a `None` leaves the cell as it was: the edge on which the taken value is None needs no restore)
            none_edges = set()
            for a in fb.reachable():
                ta = fb.term(a)
                if ta["k"] == "switch" and callee_method(t) == "take":
                    _neg, src = fb.switch_source(a)
                    if src and src[0] == "discr" and is_bare(src[1]) and is_bare(t["dest"]) and src[1]["l"] == t["dest"]["l"]:
                        some = {tb for v, tb in ta["targets"] if v == 1}
                        none_edges |= {(a, x) for x in fb.succ(a) if x not in some}
            seen, stack = set(), [t["target"]] if t.get("target") is not None else []
            while stack:
                x = stack.pop()
                if x in seen or x in sets:
                    continue
                seen.add(x)
                stack += [y for y in fb.succ(x) if (x, y) not in none_edges and not fb.is_cleanup(y)]
            leak = [x for x in seen if fb.term(x)["k"] == "return"] if t.get("target") is not None else [0]
            if leak:
                okc = False
        ctx.check(okc, "C10-F", "called-dom-mutator-restores:%s" % fid.split("::")[-1], fb.span, fb.id,
                  "%s is called from html2text's own code and changes a DOM node without putting the value back on every path" % fid)
    ctx.info("C10-F", "DOM-module functions with mutating accesses that html2text's own code calls: %s" % sorted(called))


def public_roots(F):
    return [b.id for b in F.bodies.values() if b.raw.get("public")]


def _only_feeds_asserts(b, l, depth=6):
    from ..util import final_uses
    if depth <= 0:
        return False
    uses = final_uses(b, l)
    if not uses:
        return True
    for (kind, ubb, det) in uses:
        if kind == "assert":
            continue
        if kind in ("bin", "cast", "un") and is_bare(det["lhs"]):
            if not _only_feeds_asserts(b, det["lhs"]["l"], depth - 1):
                return False
            continue
        if kind == "switch":
            # `if ptr & mask != 0 { misaligned panic }` style checks end in an assert/diverging block; accept only asserts
            return False
        return False
    return True


def rule_a(ctx):
    F = ctx.facts
    roots = public_roots(F)
    ctx.floor("C10-A", "public entry points", len(roots), 40)
    reach = F.reachable_from(roots)
    ctx.stats["reachable_bodies"] = len(reach)
    hits = []
    hash_uses = []
    for fid in sorted(reach):
        b = F.bodies[fid]
        for bb, t in b.calls():
            c = t.get("callee") or {}
            names = [x for x in (c.get("resolved"), c.get("def"), c.get("resolved_path"), c.get("path")) if x]
            st = c.get("self_ty", "")
            m = callee_method(t)
            for (kind, prefixes, methods) in FORBIDDEN:
                hit = any(any(p in n for p in prefixes) for n in names) or any(p in st for p in prefixes if kind == "hash-iteration")
                if kind == "hash-iteration":
                    ishash = any(("HashMap<" in x or "HashSet<" in x or "hash_map::" in x or "hash_set::" in x) for x in names + [st] + c.get("targs", []))
                    if ishash:
                        hash_uses.append((fn_key(b), m))
                    hit = ishash and m in methods
                elif methods is not None:
                    hit = hit and m in methods
                if hit:
                    hits.append((kind, b, t))
        # pointer -> integer casts and thread locals
        for bb in b.reachable():
            for stt in b.stmts(bb):
                rv = stt.get("rv") or {}
                if "cast" in rv and rv.get("kind") in ("ptr_expose",):
                    hits.append(("pointer-to-integer", b, stt))
                if "cast" in rv and rv.get("kind") == "transmute" and ("*const" in rv.get("from", "") or "*mut" in rv.get("from", "")) \
                        and rv.get("to", "").startswith(("usize", "u64", "isize", "i64")) and not stt.get("exp"):
                    # debug builds insert alignment/null checks (ptr as usize & mask -> Assert); those are not data uses
                    if not (is_bare(stt["lhs"]) and _only_feeds_asserts(b, stt["lhs"]["l"])):
                        hits.append(("pointer-to-integer", b, stt))
                if "tls" in rv:
                    hits.append(("thread-local", b, stt))
    for kind, b, t in hits:
        ctx.violation("C10-A", "%s@%s" % (kind, fn_key(b)), t["span"], b.id,
                      "a source of nondeterminism (%s) is reachable from the public API" % kind)
    if not hits:
        ctx.ok("C10-A", "no-nondeterminism-source", "", "", "%d reachable bodies scanned" % len(reach))
    # positive control: the two hash collections must be seen, and only through lookups/inserts
    okm = {"get", "contains", "insert", "new", "collect", "from_iter", "default", "contains_key", "with_capacity", "len", "is_empty"}
    seen_fns = {f for f, _m in hash_uses}
    ctx.check(any("RenderTable::new" in f for f in seen_fns), "C10-A", "positive-control:colmap-found", "", "",
              "hash collection uses seen in: %s" % sorted(seen_fns))
    bad = sorted({(f, m) for f, m in hash_uses if m not in okm})
    ctx.check(not bad, "C10-A", "hash-collections-only-looked-up", "", "", "other uses: %s" % bad)
    ctx.floor("C10-A", "hash collection call sites (positive control)", len(hash_uses), 2)
    # statics
    for s in F.statics:
        ctx.check(not s["mutable"] and s["freeze"], "C10-A", "static:%s" % s["path"], s["span"], s["path"],
                  "mutable or interior-mutable static")
    ctx.check(not F.raw.get("unsafe_fns"), "C10-A", "no-unsafe-fns", "", "", str(F.raw.get("unsafe_fns")))


def rule_b(ctx):
    F = ctx.facts
    rwc = F.one("RenderTree::render_with_context")
    dtr = F.one("dom_to_render_tree_with_context")
    n = 0
    for r in ROUTES:
        bs = F.find(r)
        if not bs:
            raise AnchorMissing("public route %s" % r)
        reach = F.reachable_from([bs[0].id])
        n += 1
        ctx.check(rwc.id in reach, "C10-B", "route:%s→render_with_context" % r.split("::")[-1], bs[0].span, bs[0].id, "")
    for r in PARSING_ROUTES:
        bs = F.find(r)
        if not bs:
            raise AnchorMissing("public route %s" % r)
        reach = F.reachable_from([bs[0].id])
        n += 1
        ctx.check(dtr.id in reach, "C10-B", "route:%s→dom_to_render_tree_with_context" % r.split("::")[-1], bs[0].span, bs[0].id, "")
    ctx.floor("C10-B", "public routes", n, 12)
    # who may write text
    ait = F.one(RTRAIT + "add_inline_text")
    callers = F.callers_of(ait.id)
    okset = lambda c: (c.startswith("<render::text_renderer::SubRenderer<D> as render::Renderer>::") or  # noqa: E731
                       c.startswith("render::text_renderer::TextRenderer::<D>::") or c == "do_render_node" or
                       (F.bodies[c].kind == "Closure" and F.bodies[c].root == "do_render_node"))
    bad = [c for c in callers if not okset(c)]
    ctx.check(not bad, "C10-B", "add_inline_text:callers", ait.span, ait.id, "text written from %s" % bad)
    drn = F.one("do_render_node")
    callers = [c for c in F.callers_of(drn.id)]
    ctx.check(all(F.bodies[c].root == "render_tree_to_string" for c in callers) and callers, "C10-B", "do_render_node:callers",
              drn.span, drn.id, str(callers))
    # string vs lines: same flushed list
    istr = F.one("SubRenderer::<D>::into_string")
    ilin = F.one("SubRenderer::<D>::into_lines")
    for b in (istr, ilin):
        fw = b.calls(lambda cd, t: ends(cd, "SubRenderer::<D>::flush_wrapping"))
        reads = [(bb, acc) for (bb, where, pl, acc) in b.all_places()
                 if any(isinstance(e, dict) and e.get("n") == "lines" and ends(e.get("o"), SUBR) for e in pl["p"])]
        okc = len(fw) == 1 and reads and all(b.dominates(fw[0][0], bb) for bb, _ in reads)
        ctx.check(okc, "C10-B", "%s:flush-then-lines" % b.name, b.span, b.id, "")
        # sibling agreement: apart from flush_wrapping neither conversion changes the renderer — no other
        # SubRenderer method is called and no field of self is written or mutably borrowed
        others = sorted({callee_def(t2).split("::")[-1] for _bb2, t2 in b.calls(
            lambda cd, t2: (cd.startswith("render::text_renderer::SubRenderer::<D>::") or
                            cd.startswith("<render::text_renderer::SubRenderer<D> as render::Renderer>::")) and
            not ends(cd, "SubRenderer::<D>::flush_wrapping") and not ends(cd, "SubRenderer::<D>::to_string"))})
        muts = sorted({[e.get("n") for e in pl["p"] if isinstance(e, dict) and "f" in e and ends(e.get("o"), SUBR)][0]
                       for (bb, where, pl, acc) in b.all_places()
                       if acc in ("write", "refmut") and any(isinstance(e, dict) and "f" in e and ends(e.get("o"), SUBR) for e in pl["p"])})
        ctx.check(not others and not muts, "C10-B", "%s:only-flush_wrapping-touches-the-renderer" % b.name, b.span, b.id,
                  "the string route and the line route must finish a renderer identically (flush, then convert self.lines); "
                  "here other renderer methods %s are called / fields %s are modified" % (others, muts))
    # RenderLine::to_string and into_tagged_line use the same border rendering
    ts = F.one("RenderLine::<T>::to_string")
    tl = F.one("RenderLine::<T>::into_tagged_line")
    for b in (ts, tl):
        ctx.check(bool(b.calls(lambda cd, t: ends(cd, "BorderHoriz::<T>::to_string"))), "C10-B",
                  "%s:borders-via-BorderHoriz::to_string" % b.name, b.span, b.id, "")
    # coloured output: concatenation of colour_map over tagged strings, newline per line
    rc = F.one("config::Config::<render::text_renderer::RichDecorator>::render_coloured")
    ctx.check(bool(rc.calls(lambda cd, t: ends(cd, "TaggedLine::<T>::tagged_strings"))) and
              bool(rc.calls(lambda cd, t: ends(cd, "Config::<D>::render_to_lines"))) and
              len(rc.calls(lambda cd, t: ends(cd, "String::push"))) == 1 and
              not rc.calls(lambda cd, t: callee_method(t) in ("rev", "skip", "filter", "take")), "C10-B",
              "render_coloured:lines-in-order", rc.span, rc.id, "")


def rule_c(ctx):
    F = ctx.facts
    mc = F.one("config::Config::<D>::make_context")
    lits = [(b, st, ops) for (b, st, ops) in options.literal_inits(F, "HtmlContext") if b.id == mc.id]
    require(len(lits) == 1, "make_context builds HtmlContext with one literal")
    b, st, ops = lits[0]
    n = 0
    for fld, op in ops.items():
        src = direct_field(b, op)
        n += 1
        if fld == "style_data":
            at = b.atoms(op)
            ctx.check(has_field(at, "config::Config", "style") and has_call(at, "Clone>::clone", "Clone::clone"), "C10-C",
                      "make_context:style_data←style.clone()", st["span"], b.id, "")
            continue
        ctx.check(src == ("config::Config", fld), "C10-C", "make_context:%s←self.%s" % (fld, fld), st["span"], b.id,
                  "initialised from %s" % (src,))
    ctx.floor("C10-C", "HtmlContext fields", n, 10)
    rwc = F.one("RenderTree::render_with_context")
    lits = [(b, st, ops) for (b, st, ops) in options.literal_inits(F, "render::text_renderer::RenderOptions") if b.id == rwc.id]
    require(len(lits) == 1, "render_with_context builds RenderOptions with one literal")
    b, st, ops = lits[0]
    ren = {"wrap_width": "max_wrap_width"}
    for fld, op in ops.items():
        src = direct_field(b, op)
        ctx.check(src == ("HtmlContext", ren.get(fld, fld)), "C10-C", "render_with_context:%s←context.%s" % (fld, ren.get(fld, fld)),
                  st["span"], b.id, "initialised from %s" % (src,))
    ctx.floor("C10-C", "RenderOptions fields", len(ops), 8)
    # SubRenderer::new stores width/options/decorator parameters in the same-named fields
    sn = F.one("SubRenderer::<D>::new")
    lits = [(b, st, ops) for (b, st, ops) in options.literal_inits(F, SUBR) if b.id == sn.id]
    require(len(lits) == 1, "SubRenderer::new literal")
    b, st, ops = lits[0]
    for fld, argi in (("width", 1), ("options", 2), ("decorator", 3)):
        at = b.atoms(ops[fld])
        ctx.check(("arg", argi) in at and len([a for a in at if a[0] == "arg"]) == 1, "C10-C", "SubRenderer::new:%s←param" % fld,
                  st["span"], b.id, "")
    # new_sub_renderer passes the parent's options and a sub-decorator
    nsr = F.one(RTRAIT + "new_sub_renderer")
    c = nsr.calls(lambda cd, t: cd == sn.id)
    if ctx.check(len(c) == 1, "C10-C", "new_sub_renderer→SubRenderer::new", nsr.span, nsr.id, ""):
        t = c[0][1]
        ctx.check(("arg", 2) in nsr.atoms(t["args"][0]) and not any(a[0] == "bin" for a in nsr.atoms(t["args"][0])), "C10-C",
                  "new_sub_renderer:width=param", t["span"], nsr.id, "")
        ctx.check(has_field(nsr.atoms(t["args"][1]), SUBR, "options"), "C10-C", "new_sub_renderer:options=parent's", t["span"], nsr.id, "")
        ctx.check(has_call(nsr.atoms(t["args"][2]), "TextDecorator::make_subblock_decorator"), "C10-C",
                  "new_sub_renderer:decorator=sub-decorator", t["span"], nsr.id, "")


TREE_TYPES = ("RenderNode", "RenderNodeInfo", "RenderTable", "RenderTableRow", "RenderTableCell", "RenderTree", "ComputedStyle",
              "WithSpec", "SizeEstimate")
EST_FAMILY = ("RenderNode::calc_size_estimate", "RenderTable::calc_size_estimate", "RenderTableCell::get_size_estimate")


def rule_d(ctx):
    F = ctx.facts
    # writers of size_estimate cells: Cell::set on a size_estimate field
    n = 0
    for b in F.bodies.values():
        if options.derived(b):
            continue
        for bb, t in b.calls(lambda cd, t: ends(cd, "std::cell::Cell::<T>::set")):
            f = direct_field(b, t["args"][0])
            if f and f[1] == "size_estimate":
                n += 1
                ctx.check(any(ends(b.id, e) or ends(b.root, e) for e in EST_FAMILY), "C10-D", "cache-writer@%s" % fn_key(b),
                          t["span"], b.id, "a size-estimate cache is written outside the estimate family")
    ctx.floor("C10-D", "size-estimate cache writers", n, 4)
    # the estimate family does not see the width or the render options
    for e in EST_FAMILY + ("precalc_size_estimate",):
        b = F.one(e)
        sig = b.raw.get("sig", "")
        bad = "RenderOptions" in sig or "SubRenderer" in sig or "TextRenderer" in sig or "usize," in sig.split("->")[0].replace("usize)", "usize,")
        ctx.check(not bad, "C10-D", "estimate-signature:%s" % e.split("::")[-1] + ("@" + e.split("::")[-2] if "::" in e else ""), b.span, b.id,
                  "signature %s" % sig)
    # HtmlContext fields read by the estimate family: only min_wrap_width
    for owner in ("HtmlContext",):
        for f in F.adt(owner)["variants"][0]["fields"]:
            for r in options.classify_reads(F, owner, f["name"]):
                b = r["body"]
                if any(ends(b.id, e) or ends(b.root, e) for e in EST_FAMILY):
                    ctx.check(f["name"] == "min_wrap_width", "C10-D", "estimate-reads-context.%s" % f["name"], r["site"], b.id,
                              "estimates may depend only on the document and min_wrap_width")
    # no shared ownership / statics inside the render tree types
    for tn in TREE_TYPES:
        a = F.adt(tn)
        for v in a["variants"]:
            for f in v["fields"]:
                ty = f["ty"]
                bad = any(x in ty for x in ("std::rc::Rc<", "std::sync::Arc<", "&'static", "std::rc::Weak<", "RefCell<"))
                ctx.check(not bad, "C10-D", "no-sharing:%s.%s" % (tn, f["name"]), a["span"], tn, "field type %s" % ty)
    # render entry points take the tree by value
    for r in ("config::Config::<D>::render_to_string", "config::Config::<D>::render_to_lines",
              "config::Config::<render::text_renderer::RichDecorator>::render_coloured", "RenderTree::render_with_context"):
        b = F.one(r)
        sig = b.raw.get("sig", "")
        args = sig.split("->")[0]
        ctx.check(", RenderTree," in args.replace("(RenderTree,", "(, RenderTree,") or "(RenderTree," in args, "C10-D",
                  "by-value-tree:%s" % r.split("::")[-1], b.span, b.id, "signature %s" % sig)
    # derived Clone on tree types (a manual clone sharing the cache would break reuse)
    for tn in ("RenderNode", "RenderTable", "RenderTableRow", "RenderTableCell", "RenderTree"):
        ims = [im for im in F.impls if im.get("trait") == "std::clone::Clone" and im["self_ty"] == tn]
        okc = len(ims) == 1 and all(F.bodies.get(m["impl_item"]) is None or F.bodies[m["impl_item"]].raw.get("from_expansion")
                                    for m in ims[0]["methods"] if m["name"] == "clone")
        ctx.check(okc, "C10-D", "derived-Clone:%s" % tn, "", tn, "")


def rule_e(ctx):
    F = ctx.facts
    mc = F.one("config::Config::<D>::make_context")
    callers = set(F.callers_of(mc.id))
    need = ["config::Config::<D>::string_from_read", "config::Config::<D>::lines_from_read",
            "config::Config::<render::text_renderer::RichDecorator>::coloured", "config::Config::<D>::render_to_string",
            "config::Config::<D>::render_to_lines", "config::Config::<D>::dom_to_render_tree", "parse"]
    n = 0
    for r in need:
        b = F.one(r)
        n += 1
        ctx.check(b.id in callers, "C10-E", "own-context:%s" % r.split("::")[-1], b.span, b.id, "route must build its own context")
    ctx.floor("C10-E", "routes building their own context", n, 7)
    for a in F.adts.values():
        if a["path"] in ("HtmlContext",):
            continue
        for v in a["variants"]:
            for f in v["fields"]:
                ctx.check("HtmlContext" not in f["ty"], "C10-E", "context-not-stored:%s.%s" % (a["path"], f["name"]), a["span"], a["path"], "")
    for s in F.statics:
        ctx.check("HtmlContext" not in s["ty"], "C10-E", "context-not-static:%s" % s["path"], s["span"], s["path"], "")


# ---------------------------------------------------------------------------------------------
# thorough tier: compile-fail witness (E3)
# ---------------------------------------------------------------------------------------------
def thorough_extra(ctx):
    ctx.rule("C10-D/witness", "using a RenderTree after passing it to a render entry point fails to compile (E0382); the "
             "twin with .clone() compiles")
    w = os.path.join(VERIF, "witness")
    lock_src = os.path.join(REPO, "Cargo.lock")
    try:
        with open(lock_src) as fh:
            lock = fh.read()
        with open(os.path.join(w, "Cargo.lock"), "w") as fh:
            fh.write(lock)
    except OSError:
        pass
    env = dict(os.environ)
    env["CARGO_NET_OFFLINE"] = "true"
    env["H2T_WITNESS_REPO"] = REPO
    target = "/tmp/h2t-witness-target-%d" % os.getpid()
    env["CARGO_TARGET_DIR"] = target
    toml = os.path.join(w, "Cargo.toml")
    with open(toml) as fh:
        t = fh.read()
    import re
    t2 = re.sub(r'html2text = \{ path = "[^"]*"', 'html2text = { path = "%s"' % REPO, t)
    if t2 != t:
        with open(toml, "w") as fh:
            fh.write(t2)
    try:
        r = subprocess.run(["cargo", "+nightly", "test", "--doc", "--offline"], cwd=w, env=env, stdout=subprocess.PIPE,
                           stderr=subprocess.STDOUT, text=True, timeout=900)
        out = r.stdout
    finally:
        subprocess.call(["rm", "-rf", target])
        if t2 != t:
            with open(toml, "w") as fh:
                fh.write(t)
    import re as _re
    m = _re.search(r"test result: (\w+)\. (\d+) passed; (\d+) failed", out)
    okc = r.returncode == 0 and m and m.group(1) == "ok" and int(m.group(2)) >= 6 and int(m.group(3)) == 0
    ctx.check(bool(okc), "C10-D/witness", "compile-fail-witnesses", "witness/src/lib.rs", "",
              "cargo +nightly test --doc: %s" % (m.group(0) if m else out[-400:]))
