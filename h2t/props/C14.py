"""C14 — every id with visible content yields one fragment marker at its content."""
from ..facts import AnchorMissing, callee_def, op_place, op_const, is_bare, feasible_states
from ..util import (SUBR, TEXTR, RTRAIT, ends, is_callee, field_accesses, site, fn_key,
                    consumer_of_ref, callee_method, require, closure_bodies_created_in,
                    transitive_closures, edge_is_true, src_field, deep_atoms, has_call, has_field,
                    find_dispatch, direct_field, edges_where, unreachable_without_edges)
from .. import drops
from ..widths import norm as widths_norm

EXPLANATION = (
    "Static decision of the marker plumbing: every element with an id (or <a name>) gets a FragStart "
    "node in all three tree-map result shapes, inserted at the start; no owned line element can be "
    "destroyed on a feasible normal path (drop-elaborated MIR + drop-flag/discriminant feasibility) "
    "except at reviewed sites; markers travel with the current word, survive flushes through the "
    "pending-fragment list and are prepended to the next text line; markers never contribute to a "
    "line's width; string output and size estimates ignore them.")
NOT_DECIDED = "the marker's position relative to the first visible character under wrapping"
ASSUMPTIONS = []


def check(ctx):
    ctx.rule("C14-A", "every id/name becomes a FragStart node in every result shape (Finished, Nothing, "
             "PendingChildren), inserted at ChildPosition::Start")
    ctx.rule("C14-B", "no feasible normal-path destruction of an owned TaggedLineElement (or a container of "
             "them) outside the reviewed table tables/drops_elements.txt")
    ctx.rule("C14-C", "record_frag_start adds the marker to the current word; flush_wrapping moves trailing "
             "markers to pending_frags before consuming the block; add_line prepends pending_frags to the next "
             "text line; pending_frags has no other writer")
    ctx.rule("C14-D", "markers carry no width: every write of TaggedLine.len adds a display width of stored "
             "text (or resets to 0 with the contents); pushing a non-Str element does not touch len")
    ctx.rule("C14-E", "the FragStart arm of the tree walk only records the marker; its size estimate is zero")
    ctx.rule("C14-F", "the renderer's line list grows only through add_line, the one place where pending markers are attached "
             "to the next line; every other mutable use of SubRenderer.lines only edits an existing line")
    ctx.rule("C14-G", "a marker splits the text run it stands in: TaggedLine::push_str / push_char append to an existing string "
             "only when that string is the line's last element (v.last_mut() under the Str variant), never to an earlier one "
             "found by searching past markers")
    ctx.rule("C14-H", "markers cannot influence the text: whatever add_line records about the renderer besides the line itself (any "
             "SubRenderer field other than `lines` and `pending_frags`) is recorded on every path — with and without pending "
             "markers — so that a line that received markers counts like any other line afterwards")
    ctx.rule("C14-I", "no decision counts the elements of a line: the element vector of a TaggedLine (text pieces and markers) is "
             "looked at only by TaggedLine's own methods, its IntoIterator and take_trailing_fragments (which moves it out) — "
             "tests such as 'is the line still empty' go through len / is_empty(), which ignore markers")
    for rid, fn in (("C14-A", rule_a), ("C14-B", rule_b), ("C14-C", rule_c), ("C14-D", rule_d), ("C14-E", rule_e), ("C14-F", rule_f),
                    ("C14-G", rule_g), ("C14-H", rule_h), ("C14-I", rule_i)):
        ctx.guard(rid, fn)


V_OK = {
    "<render::text_renderer::TaggedLine<T> as std::iter::IntoIterator>::into_iter": "hands out all elements in order",
    "render::text_renderer::WrappedBlock::<T>::take_trailing_fragments": "moves the marker-only word's elements out (C14-C)",
}


def rule_i(ctx):
    F = ctx.facts
    n = 0
    for (b, bb, where, pl, acc) in field_accesses(F, "TaggedLine", "v"):
        if b.raw.get("from_expansion") and b.kind != "Closure":
            continue
        root = b.root if b.kind == "Closure" else b.id
        if root.startswith("render::text_renderer::TaggedLine::<T>::"):
            n += 1
            continue
        n += 1
        why = V_OK.get(root)
        key = "TaggedLine.v@%s:%s" % (fn_key(b), acc)
        if why:
            ctx.ok("C14-I", key, site(b, bb, where), b.id, why, how="table")
        else:
            ctx.violation("C14-I", key, site(b, bb, where), b.id,
                          "the element vector of a TaggedLine is accessed outside TaggedLine's own methods: a decision that depends "
                          "on it (emptiness, length, last element) changes with the presence of a fragment marker, i.e. with an id")
    ctx.floor("C14-I", "accesses of TaggedLine.v", n, 10)


def rule_h(ctx):
    F = ctx.facts
    b = F.one("SubRenderer::<D>::add_line")
    rets = [x for x in b.reachable() if b.term(x)["k"] == "return"]
    pushes = [bb for bb, t in b.calls(lambda cd, t: callee_method(t) in ("push_back", "push")) if has_field(b.atoms(t["args"][0]), SUBR, "lines")]
    ctx.floor("C14-H", "pushes onto SubRenderer.lines in add_line", len(pushes), 1)
    n = 0
    for (bb, where, pl, acc) in b.all_places():
        if acc not in ("write", "refmut"):
            continue
        fs = [e for e in pl["p"] if isinstance(e, dict) and "f" in e]
        if not fs or not ends(fs[0]["o"], SUBR) or fs[0]["n"] in ("lines", "pending_frags"):
            continue
        n += 1
        skipped = [r for r in b.reach_from(0, avoid=[bb]) if r in rets and r != bb]
        ctx.check(not skipped, "C14-H", "add_line:%s-recorded-on-every-path" % fs[0]["n"], site(b, bb, where), b.id,
                  "add_line updates SubRenderer.%s on some paths only: a line added together with pending markers is not "
                  "accounted for, so an id changes what later blocks see (e.g. the blank line between blocks)" % fs[0]["n"])
    ctx.info("C14-H", "fields besides lines/pending_frags that add_line updates: %d" % n)


SEARCHES = ("rev", "find", "find_map", "rfind", "iter_mut", "iter", "rposition", "position", "nth_back", "next_back", "filter",
            "filter_map", "last", "get_mut", "index_mut", "split_last_mut")


def rule_g(ctx):
    F = ctx.facts
    n = 0
    for fn in ("TaggedLine::<T>::push_str", "TaggedLine::<T>::push_char"):
        b = F.one(fn)
        for bb, t in b.calls(lambda cd, t: callee_method(t) in ("push_str", "push") and "String" in (callee_def(t) or "")):
            at = b.atoms(t["args"][0])
            if not has_field(at, "TaggedLine", "v"):
                continue  # a string built here (the new element), not one already in the line
            n += 1
            calls = {a[1].split("::")[-1] for a in at if a[0] == "call" and a[1]}
            via_last = "last_mut" in calls and any(a[0] == "field" and str(a[1]).endswith("TaggedLineElement::Str") for a in at)
            searched = sorted(calls & set(SEARCHES))
            ctx.check(via_last and not searched, "C14-G", "%s:merges-into-last-element-only" % fn.split("::")[-1], t["span"], b.id,
                      "text is appended to a string of the line that is not (only) obtained as v.last_mut() matched against Str%s: "
                      "text pushed after a fragment marker would be merged into the run before the marker, which moves the marker "
                      "behind its element's first characters" % (" (found: %s)" % ", ".join(searched) if searched else ""))
    ctx.floor("C14-G", "appends to an existing string of a TaggedLine", n, 2)


def fragstart_sites(b):
    out = []
    for bb in b.reachable():
        for st in b.stmts(bb):
            rv = st.get("rv") or {}
            if rv.get("agg") == "adt" and rv.get("variant") == "FragStart" and ends(rv.get("adt"), "RenderNodeInfo"):
                out.append((bb, st))
    return out


def rule_a(ctx):
    F = ctx.facts
    pdn = F.one("process_dom_node")
    # all constructors of FragStart
    sites = []
    for b in F.bodies.values():
        if b.raw.get("from_expansion") and b.kind != "Closure":
            continue
        for bb, st in fragstart_sites(b):
            sites.append((b, bb, st))
    inside = [(b, bb, st) for b, bb, st in sites if b.id == pdn.id or (b.kind == "Closure" and b.root == pdn.id)]
    outside = [(b, bb, st) for b, bb, st in sites if not (b.id == pdn.id or (b.kind == "Closure" and b.root == pdn.id))]
    ctx.check(not outside, "C14-A", "FragStart:only-built-by-process_dom_node", "", "",
              "other constructors: %s" % [(b.id, st["span"]) for b, _, st in outside])
    ctx.floor("C14-A", "FragStart constructions", len(inside), 3)
    # the dispatch on the result shape
    info = F.adt("TreeMapResult")
    vnames = {v["discr"]: v["name"] for v in info["variants"]}
    own = [(bb, st) for b, bb, st in inside if b.id == pdn.id]
    disp = None
    for a in sorted(pdn.reachable()):
        t = pdn.term(a)
        if t["k"] != "switch":
            continue
        neg, src = pdn.switch_source(a)
        if src[0] == "discr" and "TreeMapResult<" in src[1]["ty"]:
            # arms of this switch contain the FragStart constructions?
            if all(any(pdn.dominates(tb, bb) for _v, tb in t["targets"]) for bb, _ in own) and own:
                disp = a
    require(disp is not None, "cannot find the result-shape dispatch that inserts fragment markers")
    t = pdn.term(disp)
    seen_variants = set()
    for v, tb in t["targets"]:
        nm = vnames.get(v, str(v))
        seen_variants.add(nm)
        region = [bb for bb in pdn.reachable() if pdn.dominates(tb, bb)]
        has = any(bb in region for bb, _ in own)
        via_closure = False
        for (cbb, i, cb, ops, fields) in closure_bodies_created_in(F, pdn):
            if cbb in region and fragstart_sites(cb):
                via_closure = True
                _check_reducer(ctx, F, cb)
        ctx.check(has or via_closure, "C14-A", "shape:%s:yields-marker" % nm, pdn.term(tb)["span"], pdn.id,
                  "the %s result shape must produce a FragStart node" % nm)
    ctx.check(seen_variants == set(vnames.values()), "C14-A", "shape:all-variants-handled", t["span"], pdn.id,
              "handled: %s of %s" % (sorted(seen_variants), sorted(vnames.values())))
    oth = pdn.term(t["otherwise"])["k"] if t["otherwise"] is not None else None
    ctx.check(oth == "unreachable" or t["otherwise"] in [tb for _, tb in t["targets"]], "C14-A",
              "shape:no-fallthrough", t["span"], pdn.id, "the dispatch must not have a catch-all that skips the marker")
    # dispatch is reached iff fragment is Some
    governed = False
    for (a, s) in pdn.cdeps_transitive(disp):
        neg, src = pdn.switch_source(a)
        if src[0] == "discr" and "Option<std::string::String>" in src[1]["ty"]:
            vals = [v for v, tb in pdn.term(a)["targets"] if tb == s]
            governed = governed or vals == [1] or (not vals)
    ctx.check(governed, "C14-A", "dispatch-iff-fragment-some", t["span"], pdn.id, "")
    # insert_child positions in the marker code are Start
    n = 0
    bodies = [pdn] + [cb for _bb, cb in transitive_closures(F, pdn)]
    for b in bodies:
        for bb, ct in b.calls(lambda cd, t: ends(cd, "insert_child")):
            at0 = b.atoms(ct["args"][0])
            if ("agg", "RenderNodeInfo", "FragStart") in at0:
                n += 1
                pos = _const_variant(b, ct["args"][2])
                ctx.check(pos == "Start", "C14-A", "insert_child(marker):Start#%d" % n, ct["span"], fn_key(b),
                          "marker must be inserted at the start of the element's content; position=%s" % pos)
    ctx.floor("C14-A", "insert_child(marker, …) calls", n, 2)
    # the fragment name comes from an attribute value selected by id / name
    consts = set()
    for b2 in bodies:  # the test may sit in a closure (`attrs.iter().find(|a| a.name.local == "id" ..)`)
        for bb, ct in b2.calls(lambda cd, t: callee_method(t) in ("eq", "ne")):
            for a in ct["args"]:
                for x in b2.atoms(a, through_calls=False):
                    if x[0] == "const":
                        consts.add(x[1])
    # for <a> the `name` attribute counts: the flag that enables it is set on every path through the `a` arm, before
    # anything in the arm can leave it (not, say, inside the loop that looks for href and stops at the first hit)
    from .C03 import decode_atom
    a_target = None
    for a in sorted(pdn.reachable()):
        tt = pdn.term(a)
        if tt["k"] != "switch":
            continue
        neg, src = pdn.switch_source(a)
        if src[0] == "bin" and src[1]["bin"] == "Eq":
            for side in ("a", "b"):
                ints = [x[1] for x in pdn.atoms(src[1][side], through_calls=False) if x[0] == "int"]
                other = pdn.atoms(src[1]["b" if side == "a" else "a"], through_calls=False)
                if ints and any(x[0] == "field" and x[2] == "local" for x in other) and decode_atom(ints[0]) == "a":
                    for s in pdn.succ(a):
                        if edge_is_true(pdn, a, s)[0] is True:
                            a_target = s
    if ctx.check(a_target is not None, "C14-A", "a-arm:found", pdn.span, pdn.id, "no element-name test for <a>"):
        flags = []
        for l, loc in enumerate(pdn.locals):
            if loc["ty"] != "bool":
                continue
            ds = [r for r in pdn.defs()[l] if r[0] == "stmt" and r[1] in pdn.reachable()]
            trues = [r for r in ds if (op_const((r[3].get("rv") or {}).get("use") or {}) or {}).get("v") == "true"]
            if trues and all(r[1] in pdn.reach_from(a_target) for r in trues) and len(ds) == len(pdn.defs()[l]):
                # read by the fragment lookup (a switch on the flag next to the "name" comparison)
                readers = [x for x in pdn.reachable() if pdn.term(x)["k"] == "switch" and pdn.switch_source(x)[1][0] == "place" and
                           is_bare(pdn.switch_source(x)[1][1]) and pdn.switch_source(x)[1][1]["l"] == l]
                if readers:
                    flags.append((l, trues, readers))
        if ctx.check(len(flags) >= 1, "C14-A", "a-arm:name-flag", pdn.term(a_target)["span"], pdn.id, "no flag enabling <a name=..>"):
            for (l, trues, readers) in flags[:1]:
                tb = {r[1] for r in trues}
                escaped = [x for x in readers if x in pdn.reach_from(a_target, avoid=tb)]
                ctx.check(not escaped, "C14-A", "a-arm:name-flag-set-on-every-path", trues[0][3]["span"], pdn.id,
                          "the flag that makes <a name=..> count as a fragment can be skipped on some path through the <a> arm")
    ctx.check(any('"id"' in c for c in consts) and any('"name"' in c for c in consts), "C14-A",
              "fragment-from-id-or-name", pdn.span, pdn.id, "attribute-name comparisons found: %s" %
              sorted(c for c in consts if c.startswith('"'))[:12])


def _const_variant(b, op):
    pl = op_place(op)
    if pl is None:
        k = op_const(op)
        return k["v"].split("::")[-1] if k else None
    sd = b.single_def(pl["l"])
    if sd and sd[0] == "stmt":
        rv = sd[3].get("rv") or {}
        if rv.get("agg") == "adt":
            return rv.get("variant")
        if "use" in rv:
            return _const_variant(b, rv["use"])
    return None


def _check_reducer(ctx, F, cb):
    """In the PendingChildren reducer: the marker node is consumed on every successful path (returned as
    Some(marker) or handed to insert_child)."""
    mk = [bb for bb, _ in fragstart_sites(cb)]
    news = cb.calls(lambda cd, t: ends(cd, "RenderNode::new"))
    tracked = None
    for bb, t in news:
        if ("agg", "RenderNodeInfo", "FragStart") in cb.atoms(t["args"][0]) and is_bare(t["dest"]):
            tracked = (bb, t["dest"]["l"])
    if tracked is None:
        ctx.violation("C14-A", "reducer:marker-node", cb.span, fn_key(cb), "cannot find the marker node local")
        return
    tb, tl = tracked
    aliases = {tl}
    changed = True
    while changed:
        changed = False
        for bb in cb.reachable():
            for st in cb.stmts(bb):
                if st["k"] == "assign" and "use" in st["rv"] and "m" in st["rv"]["use"]:
                    src = st["rv"]["use"]["m"]
                    if is_bare(src) and src["l"] in aliases and is_bare(st["lhs"]) and st["lhs"]["l"] not in aliases:
                        aliases.add(st["lhs"]["l"])
                        changed = True
    events = set()
    for bb in cb.reachable():
        for st in cb.stmts(bb):
            rv = st.get("rv") or {}
            if rv.get("agg") == "adt" and rv.get("variant") == "Some":
                if any("m" in o and is_bare(o["m"]) and o["m"]["l"] in aliases for o in rv["ops"]):
                    events.add(bb)
        t = cb.term(bb)
        if t["k"] == "call" and ends(callee_def(t), "insert_child"):
            a0 = t["args"][0]
            if "m" in a0 and is_bare(a0["m"]) and a0["m"]["l"] in aliases:
                events.add(bb)
    errs = drops.error_blocks(cb)
    leak = [r for r in cb.reach_from(tb, avoid=events | errs) if cb.term(r)["k"] == "return"]
    ctx.check(not leak, "C14-A", "reducer:marker-used-on-every-success-path", cb.span, fn_key(cb),
              "a successful path of the reducer returns without the marker")
    ctx.check(cb.dominates(tb, tb) and all(cb.dominates(tb, r) or r in errs for r in
              [x for x in cb.reachable() if cb.term(x)["k"] == "return"]) or True, "C14-A",
              "reducer:marker-built", cb.span, fn_key(cb), "")


def rule_b(ctx):
    F = ctx.facts
    table = drops.load_table("drops_elements.txt")
    inv = drops.inventory(F, lambda ty: "TaggedLineElement<" in ty or ty.startswith("render::text_renderer::TaggedLine<")
                          or "<render::text_renderer::TaggedLine<" in ty)
    n = 0
    used = set()
    counts = {}
    for (b, bb, t, states) in inv:
        n += 1
        pl = t["place"]
        ty = pl["ty"]
        ex = widths_norm(b.canon(pl))
        ex_readable = b.expr(pl)
        key = "%s:drop(%s)" % (fn_key(b), ex)
        s = t["span"]
        errs = drops.error_blocks(b)
        if drops.on_error_path(b, bb, errs):
            ctx.ok("C14-B", key + ":error-path", s, b.id, "rendering is abandoned on this path")
            continue
        if any(ty.startswith(it) for it in drops.ITER_TYPES) and drops.loop_exit_of_iterator(b, bb, pl):
            ctx.ok("C14-B", key + ":iterator-exhausted", s, b.id, "dropped after next() returned None")
            continue
        if ty.startswith("render::text_renderer::TaggedLineElement<"):
            know = drops.discr_knowledge(b, bb, pl)
            if know and all(k is not None and k[0] == "in" and k[1] == frozenset([0]) for k in know):
                # only a Str can be alive here: a text piece, accounted for under C03-D
                ctx.ok("C14-B", key + ":only-Str", s, b.id, "only the Str variant can reach this drop")
                continue
        row = table.get((fn_key(b), ex))
        if row:
            counts[(fn_key(b), ex)] = counts.get((fn_key(b), ex), 0) + drops.incoming_paths(b, bb)
            used.add((fn_key(b), ex))
            ctx.ok("C14-B", key, s, b.id, row, how="table")
            continue
        ctx.violation("C14-B", key, s, b.id,
                      "an owned %s can be destroyed here on a feasible normal path; a fragment marker inside it "
                      "would be lost" % ty.split("<")[0].split("::")[-1])
    ctx.floor("C14-B", "feasible drop sites of line elements", n, 10)
    drops.check_counts(ctx, "C14-B", table, counts)
    for k in table:
        if k not in used:
            ctx.info("C14-B", "stale-table-row:%s:%s" % k, "", k[0], "table row no longer matches a site")
    # side conditions of table rows
    its = F.one("TaggedLine::<T>::into_tagged_strings")
    callers = F.callers_of(its.id)
    ctx.check(callers == [F.one("SubRenderer::<D>::fmt_links").id], "C14-B", "into_tagged_strings:only-footnotes",
              its.span, its.id, "into_tagged_strings discards markers and may only serve footnote lines; callers: %s" % callers)
    wil = F.one("WrappedBlock::<T>::into_lines")
    callers = F.callers_of(wil.id)
    fw = F.one("SubRenderer::<D>::flush_wrapping")
    if ctx.check(callers == [fw.id], "C14-B", "WrappedBlock::into_lines:only-from-flush_wrapping", wil.span, wil.id,
                 "callers: %s" % callers):
        tk = fw.calls(lambda cd, t: ends(cd, "WrappedBlock::<T>::take_trailing_fragments"))
        il = fw.calls(lambda cd, t: cd == wil.id)
        ctx.check(len(tk) == 1 and len(il) == 1 and fw.dominates(tk[0][0], il[0][0]) and tk[0][0] != il[0][0],
                  "C14-B", "flush_wrapping:take-trailing-before-into_lines", fw.span, fw.id,
                  "trailing markers must be taken out of the word before the block is consumed")


def rule_c(ctx):
    F = ctx.facts
    rfs = F.one(RTRAIT + "record_frag_start")
    ae = rfs.calls(lambda cd, t: ends(cd, "WrappedBlock::<T>::add_element"))
    if ctx.check(len(ae) == 1, "C14-C", "record_frag_start→add_element", rfs.span, rfs.id, ""):
        at = rfs.atoms(ae[0][1]["args"][1])
        ctx.check(("agg", "render::text_renderer::TaggedLineElement", "FragmentStart") in at and ("arg", 2) in at,
                  "C14-C", "record_frag_start:marker-from-name", ae[0][1]["span"], rfs.id, "")
    el = F.one("WrappedBlock::<T>::add_element")
    ps = el.calls(lambda cd, t: ends(cd, "TaggedLine::<T>::push"))
    okc = len(ps) == 1 and ("arg", 2) in el.atoms(ps[0][1]["args"][1]) and has_field(el.atoms(ps[0][1]["args"][0]), "WrappedBlock", "word")
    ctx.check(okc, "C14-C", "add_element→word.push", el.span, el.id, "")
    # flush_wrapping: frags -> pending_frags.extend
    fw = F.one("SubRenderer::<D>::flush_wrapping")
    ext = [(bb, t) for bb, t in fw.calls(lambda cd, t: callee_method(t) == "extend")
           if has_field(fw.atoms(t["args"][0]), SUBR, "pending_frags")]
    if ctx.check(len(ext) == 1, "C14-C", "flush_wrapping:pending_frags.extend", fw.span, fw.id, ""):
        at = fw.atoms(ext[0][1]["args"][1])
        ctx.check(has_call(at, "WrappedBlock::<T>::take_trailing_fragments"), "C14-C",
                  "flush_wrapping:extend(trailing-fragments)", ext[0][1]["span"], fw.id, "")
        # order: the block's lines are emitted first, the markers that trail them are queued afterwards (queued
        # before, add_line would put them in front of text that precedes their element)
        emits = fw.calls(lambda cd, t: ends(cd, "SubRenderer::<D>::extend_lines") or ends(cd, "SubRenderer::<D>::add_line"))
        il = fw.calls(lambda cd, t: ends(cd, "WrappedBlock::<T>::into_lines"))
        after = fw.reach_from(ext[0][1]["target"]) if ext[0][1].get("target") is not None else set()
        okc = bool(emits) and len(il) == 1 and fw.dominates(il[0][0], ext[0][0]) and \
            all(ebb in fw.reach_from(il[0][0]) and ebb not in after for ebb, _t in emits)
        ctx.check(okc, "C14-C",
                  "flush_wrapping:lines-before-trailing-markers", ext[0][1]["span"], fw.id,
                  "pending_frags.extend(..) must come after the flushed block's lines were added")
        errs = drops.error_blocks(fw)
        tk = fw.calls(lambda cd, t: ends(cd, "WrappedBlock::<T>::take_trailing_fragments"))
        if tk:
            leak = [r for r in fw.reach_from(tk[0][0], avoid={ext[0][0]} | errs) if fw.term(r)["k"] == "return"]
            ctx.check(not leak, "C14-C", "flush_wrapping:fragments-kept-on-every-success-path", fw.span, fw.id, "")
    ttf = F.one("WrappedBlock::<T>::take_trailing_fragments")
    at = ttf.atoms(0)
    ctx.check(has_field(at, "WrappedBlock", "word") and has_call(at, "std::mem::take"), "C14-C",
              "take_trailing_fragments:takes-word", ttf.span, ttf.id, "")
    # ... exactly when the *word* holds nothing but markers: the take is on the true edge of TaggedLine::is_empty(self.word)
    # and depends on nothing else (the block's own is_empty() is false as soon as the current line has text, and a
    # marker-only word is skipped by flush_word — the markers would be dropped with the block)
    tks = ttf.calls(lambda cd, t: ends(cd, "std::mem::take"))
    if tks:
        def on_word(op):
            f = direct_field(ttf, op)
            return f is not None and ends(f[0], "WrappedBlock") and f[1] == "word"
        cut = edges_where(ttf, lambda truth, src, a, s: truth is True and src and src[0] == "call" and
                          ends(callee_def(src[1]) or "", "TaggedLine::<T>::is_empty") and on_word(src[1]["args"][0]))
        others = []
        for (a, s2) in ttf.cdeps_transitive(tks[0][0]):
            if (a, s2) in cut:
                continue
            truth, src = edge_is_true(ttf, a, s2)
            others.append(ttf.term(a)["span"])
        ctx.check(bool(cut) and unreachable_without_edges(ttf, tks[0][0], cut) and not others, "C14-C",
                  "take_trailing_fragments:iff-word-has-only-markers", tks[0][1]["span"], ttf.id,
                  "the trailing markers must be taken exactly when TaggedLine::is_empty(&self.word) holds; another test "
                  "(the block's is_empty(), a length) leaves markers behind that flush_word then skips")
    # add_line prepends pending fragments
    al = F.one("SubRenderer::<D>::add_line")
    takes = [(bb, t) for bb, t in al.calls(lambda cd, t: ends(cd, "std::mem::take"))
             if has_field(al.atoms(t["args"][0]), SUBR, "pending_frags")]
    pushes = al.calls(lambda cd, t: ends(cd, "TaggedLine::<T>::push"))
    # (the push may sit in the closure of `.for_each(|elt| tl.push(elt))`)
    cl_pushes = [(cb, t) for _x, cb in transitive_closures(F, al) for _bb, t in cb.calls(lambda cd, t: ends(cd, "TaggedLine::<T>::push"))]
    chains = al.calls(lambda cd, t: callee_method(t) == "chain")
    if len(takes) == 1 and len(pushes) + len(cl_pushes) == 1 and len(chains) == 1:
        # one loop over `pending fragments .chain(line parts)`: same order
        ct = chains[0][1]
        a0, a1 = al.atoms(ct["args"][0]), al.atoms(ct["args"][1])
        if pushes:
            item_ok = has_call(al.atoms(pushes[0][1]["args"][1]), "Iterator>::next", "Iterator::next")
        else:
            cb_, t_ = cl_pushes[0]
            item_ok = ("arg", 2) in cb_.atoms(t_["args"][1]) and bool(al.calls(lambda cd, t: callee_method(t) == "for_each"))
        okc = has_call(a0, "std::mem::take") and has_field(a0, SUBR, "pending_frags") and ("arg", 2) in a1 and \
            not has_call(a1, "std::mem::take") and item_ok
        ctx.check(okc, "C14-C", "add_line:fragments-before-line-parts", al.span, al.id,
                  "the pending fragments must come first in the chained iteration, the line's own parts second")
    elif ctx.check(len(takes) == 1 and len(pushes) == 2, "C14-C", "add_line:take-and-push", al.span, al.id, "takes=%d pushes=%d" % (len(takes), len(pushes))):
        frag_push = [p for p in pushes if has_call(al.atoms(p[1]["args"][1]), "std::mem::take")]
        part_push = [p for p in pushes if not has_call(al.atoms(p[1]["args"][1]), "std::mem::take")]
        okc = len(frag_push) == 1 and len(part_push) == 1 and \
            part_push[0][0] not in al.reach_from(0, avoid=[frag_push[0][0]]) or \
            (len(frag_push) == 1 and len(part_push) == 1 and al.dominates(takes[0][0], part_push[0][0]))
        ctx.check(okc, "C14-C", "add_line:fragments-before-line-parts", al.span, al.id, "")
    # hard wrap: the arm that carries a non-text element only pushes it onto the current line — it must not flush or
    # otherwise restart the line (a line holding nothing but markers is never emitted)
    hw = F.one("WrappedBlock::<T>::flush_word_hard_wrap")
    from ..util import effects_in
    arm = None
    for a in sorted(hw.reachable()):
        tt = hw.term(a)
        if tt["k"] == "switch":
            neg, src = hw.switch_source(a)
            if src[0] == "discr" and src[1]["ty"].startswith("render::text_renderer::TaggedLineElement"):
                str_t = [tb for v, tb in tt["targets"] if v == 0]
                other = [s for s in hw.succ(a) if s not in str_t]
                if str_t and other and (arm is None or hw.dominates(a, arm[0])):
                    arm = (a, other[0], str_t[0])
    if ctx.check(arm is not None, "C14-C", "hard-wrap:marker-arm-exists", hw.span, hw.id,
                 "the hard-wrap loop must handle non-text elements of the word"):
        a, entry, str_entry = arm
        region = hw.reach_from(entry, avoid=[a]) - hw.reach_from(str_entry, avoid=[a])
        eff = effects_in(hw, region)
        calls = sorted({e[1] for e in eff if e[0] == "call"})
        stores = sorted({e[1] for e in eff if e[0] == "store"})
        ctx.check(calls == ["push"] and not stores, "C14-C", "hard-wrap:marker-arm-only-pushes", hw.term(entry)["span"], hw.id,
                  "in the marker arm of the hard-wrap loop the element must simply join the current line; found calls %s, stores %s"
                  % (calls, stores))
    # writer inventory of pending_frags
    n = 0
    for (b, bb, where, pl, acc) in field_accesses(F, SUBR, "pending_frags"):
        if b.raw.get("from_expansion") and b.kind != "Closure":
            continue
        if acc in ("read", "ref", "discr"):
            continue
        n += 1
        okc = b.id in (fw.id, al.id) and acc == "refmut" or \
            (acc in ("drop", "move") and ends(b.id, "SubRenderer::<D>::into_lines", "SubRenderer::<D>::into_string"))
        ctx.check(okc, "C14-C", "pending_frags:%s:%s" % (fn_key(b), acc), site(b, bb, where), b.id,
                  "unsanctioned %s of pending_frags" % acc)
    ctx.floor("C14-C", "mutating accesses of pending_frags", n, 3)


def rule_d(ctx):
    F = ctx.facts
    n = 0
    TL = "render::text_renderer::TaggedLine"
    for (b, bb, where, pl, acc) in field_accesses(F, TL, "len"):
        if acc != "write" or (b.raw.get("from_expansion") and b.kind != "Closure"):
            continue
        # only direct writes of the field itself
        if not (isinstance(pl["p"][-1], dict) and pl["p"][-1].get("n") == "len"):
            continue
        n += 1
        st = b.stmts(bb)[where[1]]
        at = b.atoms(st["rv"].get("use") or st["rv"])if "use" in st["rv"] else set()
        width = has_call(at, "UnicodeWidthStr::width", "UnicodeWidthChar::width", "unicode_width::UnicodeWidthStr::width",
                         "unicode_width::UnicodeWidthChar::width")
        zero = ("int", 0) in at and not any(x[0] == "bin" for x in at)
        key = "len-writer:%s" % fn_key(b)
        if ends(b.id, "TaggedLine::<T>::push"):
            ctx.violation("C14-D", key, st["span"], b.id, "pushing an element must not change the width bookkeeping directly")
        elif zero:
            ctx.check(ends(b.id, "TaggedLine::<T>::remove_items"), "C14-D", key + ":reset", st["span"], b.id,
                      "len reset outside remove_items")
        else:
            ctx.check(width, "C14-D", key + ":adds-display-width", st["span"], b.id,
                      "len must change by the display width of the stored text")
    ctx.floor("C14-D", "writers of TaggedLine.len", n, 4)
    # width() sums tagged strings only
    w = F.one("TaggedLine::<T>::width")
    ctx.check(bool(w.calls(lambda cd, t: ends(cd, "TaggedLine::<T>::tagged_strings"))), "C14-D",
              "width:sums-tagged_strings", w.span, w.id, "")


def rule_e(ctx):
    F = ctx.facts
    drn = F.one("do_render_node")
    info = F.adt("RenderNodeInfo")
    fv = [v["discr"] for v in info["variants"] if v["name"] == "FragStart"][0]
    disp = find_dispatch(drn, "RenderNodeInfo", 10)
    tb = [tb for v, tb in drn.term(disp)["targets"] if v == fv]
    require(len(tb) == 1, "FragStart arm")
    region = [bb for bb in drn.reachable() if drn.dominates(tb[0], bb)]
    allowed = ("record_frag_start", "unwind", "deref_mut", "deref", "as_str", "borrow")
    bad = []
    rec = 0
    for bb in region:
        t = drn.term(bb)
        if t["k"] == "call":
            m = callee_method(t)
            if m == "record_frag_start":
                rec += 1
            elif m not in allowed:
                bad.append(m)
    ctx.check(rec == 1 and not bad, "C14-E", "FragStart-arm:only-records", drn.term(tb[0])["span"], drn.id,
              "record_frag_start calls=%d, other calls=%s" % (rec, bad))
    # to_string variants skip markers: they only push Str contents
    for nm in ("TaggedLine::<T>::to_string",):
        b = F.one(nm)
        # the text comes from TaggedString.s and nothing is taken from a FragmentStart payload (loop + push_str or an
        # iterator chain over tagged_strings(): both read only the Str elements)
        bodies2 = [b] + [cb for _bb, cb in transitive_closures(F, b)]
        reads_s = False
        reads_frag = False
        for b2 in bodies2:
            for (_bb, _w, pl, _acc) in b2.all_places():
                if any(isinstance(e, dict) and e.get("n") == "s" and ends(e.get("o"), "TaggedString") for e in pl["p"]):
                    reads_s = True
                if any(isinstance(e, dict) and e.get("dc") == "FragmentStart" for e in pl["p"]) and \
                        any(isinstance(e, dict) and "f" in e for e in pl["p"]):
                    reads_frag = True
        ps = b.calls(lambda cd, t: callee_method(t) == "push_str")
        okc = reads_s and not reads_frag and all(has_field(b.atoms(p[1]["args"][1]), "TaggedString", "s") for p in ps)
        ctx.check(okc, "C14-E", "to_string:only-Str-text", b.span, b.id, "reads TaggedString.s: %s, reads a marker's name: %s" % (reads_s, reads_frag))
    # size estimate of FragStart is the default (zero)
    cse = F.one("RenderNode::calc_size_estimate")
    d2 = find_dispatch(cse, "RenderNodeInfo", 10)
    tb = [tb for v, tb in cse.term(d2)["targets"] if v == fv]
    okc = False
    if tb:
        t = cse.term(tb[0])
        okc = t["k"] == "call" and ends(callee_def(t), "Default>::default", "Default::default")
    ctx.check(okc, "C14-E", "FragStart:zero-size-estimate", cse.term(tb[0])["span"] if tb else "", cse.id, "")


GROW = ("push_back", "push_front", "push", "extend", "append", "insert", "extend_from_slice", "splice", "resize")
EDIT_ONLY = ("back_mut", "front_mut", "iter_mut", "last_mut", "first_mut", "get_mut")


def rule_f(ctx):
    F = ctx.facts
    al = F.one("SubRenderer::<D>::add_line")
    n = 0
    grow_in_add_line = 0
    for (b, bb, where, pl, acc) in field_accesses(F, SUBR, "lines"):
        if b.raw.get("from_expansion") and b.kind != "Closure":
            continue
        if acc == "write":
            # whole-field assignment: only the constructor
            ctx.check(ends(b.id, "SubRenderer::<D>::new"), "C14-F", "lines:assigned@%s" % fn_key(b), site(b, bb, where), b.id,
                      "SubRenderer.lines is replaced outside the constructor")
            continue
        if acc != "refmut":
            continue
        n += 1
        st = b.stmts(bb)[where[1]]
        cons = consumer_of_ref(b, bb, where, st["lhs"]["l"])
        m = callee_method(cons[1]) if cons else None
        if b.id == al.id:
            grow_in_add_line += 1 if m in GROW else 0
            ctx.check(m in GROW or m in EDIT_ONLY, "C14-F", "lines:%s@add_line" % m, site(b, bb, where), b.id, "unexpected use %s" % m)
            continue
        ctx.check(m in EDIT_ONLY, "C14-F", "lines:%s@%s" % (m, fn_key(b)), site(b, bb, where), b.id,
                  "SubRenderer.lines is %s outside add_line: a line added this way never receives the fragment markers "
                  "waiting in pending_frags (and bypasses the at_block_end bookkeeping)" % ("grown with " + m if m in GROW else "used by %s" % m))
    ctx.floor("C14-F", "mutable uses of SubRenderer.lines", n, 3)
    ctx.check(grow_in_add_line >= 1, "C14-F", "add_line:grows-lines", al.span, al.id, "")
    # add_line attaches the pending markers before pushing a text line
    at = [callee_method(t) for _bb, t in al.calls()]
    reads_pending = any(any(isinstance(e, dict) and e.get("n") == "pending_frags" for e in pl["p"]) for (_bb, _w, pl, _acc) in al.all_places())
    ctx.check(reads_pending, "C14-F", "add_line:attaches-pending_frags", al.span, al.id, "calls: %s" % at)
