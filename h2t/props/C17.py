"""C17 — CSS never breaks rendering (first clause only; syntax-insignificance is not decided)."""
from ..facts import AnchorMissing, callee_def, op_place, op_const, is_bare
from ..util import (ends, site, fn_key, callee_method, require, has_call, has_field, origin, final_uses, direct_place, transitive_closures)
from . import C01

EXPLANATION = (
    "First clause only. (A) The C01 rules — complete panic-site inventory with magnitude-class / guard / "
    "reviewed-row discharge, recursion drivers, loop progress — evaluated on everything reachable from the CSS "
    "entry points (add_css, add_agent_css, the document style extraction, style/color/bgcolor attribute parsing, "
    "computed_style, dom_to_parsed_style). Parser loops built from nom's many0/many1/separated_list0 are "
    "library code (nom aborts a repetition whose parser consumes nothing: trusted contract). (B) Malformed "
    "document CSS is dropped, not propagated: the Results of add_author_css, parse_style_attribute and "
    "parse_color_attribute never reach an error return, and add_css/add_agent_css turn any parser error into "
    "CssParseError without unwrapping.")
NOT_DECIDED = ("C17-C: that stylesheets differing only in insignificant syntax (whitespace, comments, case, final "
               "semicolon, junk rules) style a document identically — a relation between parses of two strings over a stack of "
               "nom combinators (e.g. the known `p{color:red}` defect is not reported by any rule here); C17-F/G/H/I decide four "
               "necessary shapes of it (no raw scans above the tokenizer, balanced at-rule end, white-space set, case folding at the "
               "identifier primitives), not the relation")
ASSUMPTIONS = C01.ASSUMPTIONS + ["nom's repetition combinators fail instead of looping when the inner parser consumes nothing"]

CONFIGS_QUICK = ["css"]
CONFIGS_THOROUGH = ["css", "css_ext"]

CSS_ROOTS = ("config::Config::<D>::add_css", "config::Config::<D>::add_agent_css", "css::dom_extract::dom_to_stylesheet",
             "css::parser::parse_style_attribute", "css::parser::parse_color_attribute", "css::StyleData::computed_style",
             "dom_to_parsed_style")


def check(ctx):
    ctx.rule("C17-A", "C01-A restricted to the CSS entry points: every panic-capable operation is discharged")
    ctx.rule("C17-B", "C01-B restricted to the CSS entry points: no document-depth recursion")
    ctx.rule("C17-C", "C01-C restricted to the CSS entry points: every loop makes progress")
    ctx.rule("C17-E", "document CSS errors are discarded at the documented sites; add_css maps parser errors to CssParseError")
    F = ctx.facts
    roots = []
    for r in CSS_ROOTS:
        bs = F.find(r)
        if not bs:
            raise AnchorMissing("css entry point %s" % r)
        roots.append(bs[0].id)
    reach = F.reachable_from(roots)
    flt = lambda b: b.id in reach and "markup5ever_rcdom" not in b.id  # noqa: E731
    ctx.floor("C17-A", "bodies reachable from the CSS entry points", len(reach), 80)
    ctx.guard("C17-A", C01.rule_a, "C17-A", flt)
    ctx.guard("C17-B", C01.rule_b, "C17-B", flt)
    ctx.guard("C17-C", C01.rule_c, "C17-C", flt)
    ctx.guard("C17-E", rule_e)
    ctx.guard("C17-C", rule_token_progress)
    ctx.rule("C17-F", "stylesheet text is consumed token by token: above the tokenizer (the functions parse_token reaches) no "
             "parser function skips text with a raw character scan (take_till / take_until / take_while / is_not / find / split / "
             "a loop over chars), which would be blind to strings and comments; inside the tokenizer the raw scans are the three "
             "reviewed ones (comment body, string body, escape digits), which also serve as the positive control")
    ctx.guard("C17-F", rule_f)
    ctx.rule("C17-G", "an unknown at-rule ends where its brackets are balanced: skip_to_end_of_statement returns Ok after a token only "
             "on the true edge of bra_stack.is_empty() — a `;` or `}` inside (...), [...] or {...} does not end the statement")
    ctx.guard("C17-G", rule_g)
    ctx.rule("C17-H", "white space is what CSS Syntax says it is: the tokenizer's white-space primitive accepts exactly space, tab, "
             "line feed, carriage return and form feed (the set literal of match_whitespace_item, decoded) — or a comment")
    ctx.guard("C17-H", rule_h)
    ctx.rule("C17-I", "identifiers are case-folded where they are read: every character the identifier primitives (nmstart_char, "
             "nmchar_char) hand on is the result of to_ascii_lowercase — all keyword, property, unit and element-name comparisons "
             "downstream are against lower-case literals")
    ctx.guard("C17-I", rule_i)


RAW_SCANNERS = ("take_until", "take_until1", "take_till", "take_till1", "take_while", "take_while1", "take_while_m_n", "is_not", "is_a",
                "find", "rfind", "split", "splitn", "rsplit", "rsplitn", "split_once", "rsplit_once", "split_terminator", "split_inclusive",
                "trim_start_matches", "trim_end_matches", "trim_matches", "strip_suffix", "lines", "anychar", "not_line_ending", "rest",
                "position", "rposition", "memchr", "match_indices", "rmatch_indices", "matches", "contains",
                "trim", "trim_start", "trim_end", "starts_with", "ends_with", "strip_prefix")
PEEKS = ("trim", "trim_start", "trim_end", "starts_with", "ends_with", "strip_prefix")
ABOVE_OK = {
    ("css::parser::parse_faulty_color", "trim"): "trims the text of an already tokenised value (a colour written without '#'), not stylesheet text",
}


def rule_h(ctx):
    import re
    F = ctx.facts
    b = F.one("css::parser::match_whitespace_item")
    sets = []
    for bb, t in b.calls(lambda cd, t: (cd or "").startswith("nom::character")):
        nm = callee_def(t).split("::")[-1]
        k = op_const(t["args"][0]) if t["args"] else None
        v = (k or {}).get("v")
        if nm == "one_of" and isinstance(v, str) and v.startswith('"'):
            body = v[1:-1]
            body = re.sub(r"\\u\{([0-9a-fA-F]+)\}", lambda m: chr(int(m.group(1), 16)), body)
            body = body.replace("\\t", "\t").replace("\\r", "\r").replace("\\n", "\n").replace("\\\\", "\\").replace('\\"', '"')
            sets.append(set(body))
        else:
            sets.append(nm)
    want = {" ", "\t", "\r", "\n", "\x0c"}
    ctx.check(sets == [want], "C17-H", "white-space-set={SP,TAB,LF,CR,FF}", b.span, b.id,
              "the tokenizer's white-space primitive accepts %s; CSS white space is space, tab, LF, CR and FF — a sheet that uses "
              "another of them where white space is allowed is read differently (rules after it can be lost)"
              % [sorted(map(repr, x)) if isinstance(x, set) else x for x in sets])
    ctx.check(bool(b.calls(lambda cd, t: False)) or any("match_comment" in str(o) for x in b.reachable() for st in b.stmts(x) for o in ((st.get("rv") or {}).get("ops") or [])),
              "C17-H", "white-space-item-includes-comments", b.span, b.id, "")


def rule_g(ctx):
    F = ctx.facts
    b = F.one("css::parser::skip_to_end_of_statement")
    from ..util import edges_where, unreachable_without_edges, direct_place
    pt = b.calls(lambda cd, t: ends(cd, "css::parser::parse_token"))
    require(len(pt) == 1, "skip_to_end_of_statement must tokenise with parse_token in one place")
    # the stack local: the Vec that OpenBrace/OpenRound/.. push onto
    pushes = b.calls(lambda cd, t: callee_method(t) == "push" and "Token" in " ".join((t.get("callee") or {}).get("targs") or []))
    ctx.floor("C17-G", "bracket pushes in skip_to_end_of_statement", len(pushes), 4)
    stacks = {(direct_place(b, t["args"][0]) or {}).get("l") for _bb, t in pushes}
    def pred(truth, src, a, s2):
        if truth is not True or not src or src[0] != "call" or callee_method(src[1]) != "is_empty":
            return False
        pl = direct_place(b, src[1]["args"][0])
        return pl is not None and pl["l"] in stacks
    cut = edges_where(b, pred)
    ctx.floor("C17-G", "bra_stack.is_empty() tests", len({a for a, _s in cut}), 3)
    # Ok results
    n = 0
    for x in sorted(b.reachable()):
        for st in b.stmts(x):
            rv = st.get("rv") or {}
            if not (st["k"] == "assign" and st["lhs"]["l"] == 0 and not st["lhs"]["p"] and rv.get("agg") == "adt" and rv.get("variant") == "Ok"):
                continue
            n += 1
            # the exit taken when no further token can be read
            no_token = False
            for a in b.reachable():
                if b.term(a)["k"] == "switch" and b.dominates(a, x):
                    _neg, src = b.switch_source(a)
                    if src and src[0] == "discr" and src[1]["l"] == pt[0][1]["dest"]["l"]:
                        errs = [tb for v, tb in b.term(a)["targets"] if v == 1]
                        if not errs and b.term(a)["otherwise"] is not None and [v for v, _tb in b.term(a)["targets"]] == [0]:
                            errs = [b.term(a)["otherwise"]]   # `let Ok(..) = .. else {..}`: only the Ok value is listed
                        if errs and b.dominates(errs[0], x):
                            no_token = True
            okc = no_token or unreachable_without_edges(b, x, cut)
            ctx.check(okc, "C17-G", "skip_to_end_of_statement:Ok#%d:only-with-balanced-brackets" % n, st["span"], b.id,
                      "the statement is ended here although the bracket stack need not be empty: a `;` inside (...) or [...] of an "
                      "at-rule prelude cuts the rule short and the rest of the sheet is read from the middle of it")
    ctx.floor("C17-G", "Ok results of skip_to_end_of_statement", n, 4)


TOKENIZER_SCANS = {
    ("css::parser::match_comment", "take_until"): "the body of a comment, up to the first `*/` (comments do not nest, nothing inside is a token)",
    ("css::parser::ident_escape", "next"): "the hex digits of one escape sequence (at most six, then one optional white-space character)",
    ("css::parser::parse_string_token", "next"): "the body of a string token, up to the matching unescaped quote or a newline",
}


def rule_f(ctx):
    F = ctx.facts
    pt = F.one("css::parser::parse_token")
    tokenizer = {x for x in F.reachable_from([pt.id]) if x.startswith("css::parser")}
    ctx.floor("C17-F", "functions of the tokenizer", len(tokenizer), 15)
    control = 0
    n = 0
    for b in F.bodies.values():
        if not b.span.startswith("src/css/parser.rs") or (b.raw.get("from_expansion") and b.kind != "Closure"):
            continue
        root = b.root if b.kind == "Closure" else b.id
        in_tok = root in tokenizer or b.id in tokenizer
        for bb, t in b.calls():
            cd = callee_def(t) or ""
            nm = cd.split("::")[-1]
            strish = cd.startswith("nom::") or "<impl str>" in cd or "str::" in cd or "String" in cd
            raw = nm in RAW_SCANNERS and strish and "PartialEq" not in cd
            if raw and nm in ("strip_prefix", "starts_with", "ends_with") and len(t["args"]) > 1:
                k = op_const(t["args"][1]) or {}
                if k.get("ty") == "char" or (isinstance(k.get("v"), str) and k["v"].startswith('"')):
                    raw = False   # a match of a constant character / string at the current position is a token match, like nom's tag()
            # a loop over the characters of the text
            if not raw and nm == "next" and ("Chars<" in cd or "CharIndices<" in cd or "Bytes<" in cd) and bb in b.reach_from(t["target"]) if t.get("target") is not None else False:
                raw = True
            if not raw:
                continue
            if in_tok and nm in PEEKS:
                continue  # a bounded look at the next characters is what a tokenizer does
            if in_tok:
                control += 1
                why = TOKENIZER_SCANS.get((fn_key(b), nm))
                if why:
                    ctx.ok("C17-F", "tokenizer-scan@%s:%s" % (fn_key(b), nm), t["span"], b.id, why, how="table")
                else:
                    ctx.violation("C17-F", "tokenizer-scan@%s:%s" % (fn_key(b), nm), t["span"], b.id,
                                  "a new raw character scan inside the tokenizer (%s): the reviewed ones are the comment body, the "
                                  "string body and the escape sequence; any other must be shown not to run over quotes, "
                                  "comments or brackets that belong to other tokens" % nm)
                continue
            if (root, nm) in ABOVE_OK:
                ctx.ok("C17-F", "raw-scan@%s:%s" % (fn_key(b), nm), t["span"], b.id, ABOVE_OK[(root, nm)], how="table")
                continue
            n += 1
            ctx.violation("C17-F", "raw-scan@%s:%s" % (fn_key(b), nm), t["span"], b.id,
                          "%s scans stylesheet text character by character above the tokenizer: a `;`, `}` or `*/` inside a "
                          "string or comment ends the scan early, so an unknown property, rule or at-rule can change how the rest "
                          "of the sheet is read" % nm)
    ctx.check(control >= 1, "C17-F", "positive-control:tokenizer-comment-scan-found", "", "",
              "the query must see the tokenizer's own raw scans (match_comment's take_until, the string-token loop)")
    if not n:
        ctx.ok("C17-F", "no-raw-scan-above-the-tokenizer", "", "", "0 sites; %d inside the tokenizer" % control, how="auto")


def rule_e(ctx):
    F = ctx.facts
    n = 0
    for fn, callee in (("css::dom_extract::dom_to_stylesheet", "add_author_css"),
                       ("css::StyleData::computed_style", "parse_style_attribute"),
                       ("css::StyleData::computed_style", "parse_color_attribute")):
        b0 = F.one(fn)
        # (the call may sit in a closure of the function: `sheets.iter().for_each(|css| ..)`)
        cs = [(b2, bb, t) for b2 in [b0] + [c2 for _x, c2 in transitive_closures(F, b0)]
              for bb, t in b2.calls(lambda cd, t: callee_method(t) == callee or ends(cd, callee))]
        for b, bb, t in cs:
            n += 1
            if not is_bare(t["dest"]):
                ctx.violation("C17-E", "%s→%s:result" % (fn.split("::")[-1], callee), t["span"], b.id, "result stored in a place")
                continue
            uses = final_uses(b, t["dest"]["l"])
            bad = []
            for (kind, ubb, det) in uses:
                if kind == "callarg":
                    tt, ai = det
                    m = callee_method(tt)
                    if m in ("branch", "unwrap", "expect", "from_residual"):
                        bad.append(m)
                elif kind == "ret":
                    bad.append("returned")
            ctx.check(not bad, "C17-E", "%s:%s-error-discarded#%d" % (fn.split("::")[-1], callee, n), t["span"], b.id,
                      "the Result of %s must be dropped or defaulted, never propagated (`?`) or unwrapped; found %s" % (callee, bad))
    ctx.floor("C17-E", "document-CSS parse results", n, 4)
    # do_add_css maps errors
    da = F.one("css::StyleData::do_add_css")
    ps = da.calls(lambda cd, t: ends(cd, "css::parser::parse_stylesheet"))
    okc = len(ps) == 1
    if okc:
        o = None
        uses = final_uses(da, ps[0][1]["dest"]["l"])
        okc = any(kind == "callarg" and callee_method(det[0]) == "map_err" for kind, ubb, det in uses) and \
            not any(kind == "callarg" and callee_method(det[0]) in ("unwrap", "expect") for kind, ubb, det in uses)
    ctx.check(okc, "C17-E", "do_add_css:map_err(CssParseError)", da.span, da.id, "")
    # add_author_css only from the document extraction, result dropped there
    aa = F.one("css::StyleData::add_author_css")
    roots = sorted({(F.bodies[c].root if F.bodies[c].kind == "Closure" else c) for c in F.callers_of(aa.id)})
    ctx.check(roots == ["css::dom_extract::dom_to_stylesheet"], "C17-E", "add_author_css:callers", aa.span, aa.id,
              str(F.callers_of(aa.id)))


def rule_token_progress(ctx):
    """The manual loop of skip_to_end_of_statement makes progress only if parse_token consumes input whenever it
    succeeds.  Every `Ok((remainder, token))` that parse_token returns must have a remainder that is *not* the
    string being tokenised itself (the receiver of `.chars()`): it must be a tail slice `&rest[k..]`, or the
    remainder handed back by a sub-parser / strip_prefix."""
    F = ctx.facts
    b = F.one("css::parser::parse_token")
    ch = b.calls(lambda cd, t: callee_method(t) == "chars")
    require(len(ch) >= 1, "parse_token must look at rest.chars()")
    src = direct_place(b, ch[0][1]["args"][0])
    require(src is not None, "tokenised string")
    n = 0
    bad = []
    for bb in sorted(b.reachable()):
        for st in b.stmts(bb):
            rv = st.get("rv") or {}
            if st["k"] == "assign" and st["lhs"]["l"] == 0 and not st["lhs"]["p"] and rv.get("agg") == "adt" and rv.get("variant") == "Ok":
                # operand: a tuple (remainder, token)
                tpl = op_place(rv["ops"][0])
                sd = b.single_def(tpl["l"]) if tpl is not None else None
                if not (sd and sd[0] == "stmt" and (sd[3].get("rv") or {}).get("agg") == "tuple"):
                    continue
                n += 1
                rem = direct_place(b, sd[3]["rv"]["ops"][0])
                if rem is not None and rem["l"] == src["l"] and rem["p"] == src["p"]:
                    bad.append(st["span"])
    ctx.floor("C17-C", "Ok((remainder, token)) returns of parse_token", n, 20)
    ctx.check(not bad, "C17-C", "parse_token:every-success-consumes-input", bad[0] if bad else b.span, b.id,
              "parse_token returns Ok with the unconsumed input as remainder at %s: a caller looping on it (skip_to_end_of_statement) "
              "never terminates" % bad)
    # parse_token is the only source of the loop's new remainder
    sk = F.one("css::parser::skip_to_end_of_statement")
    ctx.check(bool(sk.calls(lambda cd, t: cd == b.id)), "C17-C", "skip_to_end_of_statement:uses-parse_token", sk.span, sk.id, "")


def rule_i(ctx):
    F = ctx.facts
    n = 0
    for fn in ("css::parser::nmstart_char", "css::parser::nmchar_char"):
        b = F.one(fn)
        for x in sorted(b.reachable()):
            for st in b.stmts(x):
                rv = st.get("rv") or {}
                if rv.get("agg") != "tuple" or len(rv.get("ops", ())) != 2:
                    continue
                ty = b.local_ty(st["lhs"]["l"]) if not st["lhs"]["p"] else ""
                if not ty.replace(" ", "").endswith(",char)"):
                    continue
                n += 1
                o = origin(b, rv["ops"][1])
                folded = bool(o and o[0] == "call" and callee_method(o[1]) in ("to_ascii_lowercase", "to_lowercase"))
                if o and o[0] == "const":
                    v = str((o[1] or {}).get("v", ""))
                    folded = not any(ch.isupper() for ch in v)
                ctx.check(folded, "C17-I", "%s:hands-on-folded-char" % fn.split("::")[-1], st["span"], b.id,
                          "an identifier character is handed on as read: `COLOR`, `Red`, `!IMPORTANT` or `DIV` would no longer be "
                          "recognised (the comparisons downstream are against lower-case literals)")
    ctx.floor("C17-I", "characters handed on by the identifier primitives", n, 2)
