"""C19 — competing declarations are resolved by the CSS cascade."""
from ..facts import AnchorMissing, callee_def, op_place, op_const, is_bare
from ..util import (ends, site, fn_key, callee_method, require, has_call, has_field, find_dispatch,
                    transitive_closures, field_accesses, dominated_by_true_edge, direct_field, direct_place)
from ..fin import Fin, Need, NotAnalysable

EXPLANATION = (
    "Exhaustive over a finite abstract domain: the replace/keep decision of WithSpec::maybe_update is "
    "extracted from its MIR by finite-domain abstract interpretation for every combination of (slot "
    "empty | old importance x old origin) x (new importance x new origin) x specificity relation "
    "{<,=,>} and compared with the CSS cascade (normal: agent<user<author; important: author<user<agent; "
    "important beats normal; then specificity, ties to the later declaration). Also decided: "
    "Specificity::partial_cmp is lexicographic over (inline, id, class, typ) (same interpreter, 81 "
    "relation combinations); the specificity table of Selector::specificity; the origin iteration order "
    "and origin/rule-list agreement in computed_style; every merge call passes the declaration's own "
    "importance; StyleOrigin's declared order.")
NOT_DECIDED = "that the right rules are offered to the cascade (selector matching, C20)"
ASSUMPTIONS = ["derived PartialOrd on the field-less enum StyleOrigin orders by declared variant order (language guarantee)"]

LESS, EQUAL, GREATER = 255, 0, 1


def check(ctx):
    ctx.rule("C19-A", "WithSpec::maybe_update replaces the stored declaration exactly when the CSS cascade says the "
             "new one wins (importance and origin, then specificity, then source order)")
    ctx.rule("C19-B", "Specificity::partial_cmp is the lexicographic order on (inline, id, class, typ)")
    ctx.rule("C19-C", "Selector::specificity counts #id→id, .class and :nth-child→class, element→typ, and nothing "
             "for *, > and descendant combinators")
    ctx.rule("C19-D", "computed_style offers rules in origin order agent, user, author with matching labels, then the "
             "style attribute as an inline author declaration; StyleOrigin is declared None<Agent<User<Author")
    ctx.rule("C19-E", "every merge_computed_style call passes the importance of the declaration it merges")
    ctx.rule("C19-F", "every parsed declaration reaches the cascade in source order: no filtering, de-duplicating, "
             "truncating or reordering operation is applied to a sequence of declarations, style declarations or rule sets")
    for rid, fn in (("C19-A", rule_a), ("C19-B", rule_b), ("C19-C", rule_c), ("C19-D", rule_d), ("C19-E", rule_e), ("C19-F", rule_f)):
        ctx.guard(rid, fn)
    if ctx.has_css:
        ctx.rule("C19-G", "every rule set takes part in the cascade with its own selector's specificity: computed_style tests "
                 "selector.matches on every path through the rule loop and merges a rule exactly when it matched (shared with C20-C)")
        from . import C20

        def _as_c19(c):
            class _P:
                def __init__(self, c_):
                    self._c = c_

                def __getattr__(self, n):
                    return getattr(self._c, n)

                def check(self, okc, _rid, *a, **k):
                    return self._c.check(okc, "C19-G", *a, **k)

                def violation(self, _rid, *a, **k):
                    return self._c.violation("C19-G", *a, **k)

                def ok(self, _rid, *a, **k):
                    return self._c.ok("C19-G", *a, **k)

                def floor(self, _rid, *a, **k):
                    return self._c.floor("C19-G", *a, **k)
            return _P(c)
        ctx.facts.upvar_depth = 8
        try:
            ctx.guard("C19-G", lambda c: C20.rule_c(_as_c19(c)))
        finally:
            ctx.facts.upvar_depth = 2


# ---------------------------------------------------------------------------------------------
def _roles(F, b):
    """map symbol keys of maybe_update to abstract roles, by types (robust to renames)"""
    ws = F.adt("WithSpec")
    roles = {}
    for f in ws["variants"][0]["fields"]:
        ty = f["ty"]
        if ty == "bool":
            roles["in:self.%s" % f["name"]] = "old_imp"
        elif ty.endswith("StyleOrigin"):
            roles["in:self.%s" % f["name"]] = "old_origin"
        elif ty.endswith("Specificity"):
            roles["self.%s" % f["name"]] = "old_spec"
        elif ty.startswith("std::option::Option<"):
            roles["self.%s" % f["name"]] = "val"
    for i in range(2, b.arg_count + 1):
        ty = b.local_ty(i)
        nm = b.local_name(i) or "_%d" % i
        if ty == "bool":
            roles["in:%s" % nm] = "new_imp"
        elif ty.endswith("StyleOrigin"):
            roles["in:%s" % nm] = "new_origin"
        elif ty.endswith("Specificity"):
            roles[nm] = "new_spec"
    return roles


def _rank(imp, origin):
    # origin: 1 agent, 2 user, 3 author
    if not imp:
        return {1: 1, 2: 2, 3: 3}[origin]
    return {3: 4, 2: 5, 1: 6}[origin]


def _reference(has_val, old_imp, old_origin, new_imp, new_origin, rel):
    """rel: relation of new specificity to old: LESS/EQUAL/GREATER"""
    if not has_val:
        return True
    ro, rn = _rank(old_imp, old_origin), _rank(new_imp, new_origin)
    if rn != ro:
        return rn > ro
    return rel in (EQUAL, GREATER)


def rule_a(ctx):
    F = ctx.facts
    b = F.one("WithSpec::<T>::maybe_update")
    roles = _roles(F, b)
    origin_adt = F.adt("StyleOrigin")
    onames = {v["discr"]: v["name"] for v in origin_adt["variants"]}
    want = {"None": 0, "Agent": 1, "User": 2, "Author": 3}
    require({onames[d]: d for d in onames} == want, "StyleOrigin variants changed: %s" % onames)

    def domain(key, ty, hint):
        if ty == "bool":
            return [0, 1]
        if ty.endswith("StyleOrigin"):
            return [1, 2, 3]
        if key.startswith("rel:"):
            return [LESS, EQUAL, GREATER]
        return None

    def oracle(fin, t, vals, env):
        m = callee_method(t)
        cd = callee_def(t) or ""
        if m in ("is_some", "is_none") and ends(cd, "Option::<T>::" + m):
            k = fin.sym_key(fin.arg_value(t, 0, vals, env), vals, env)
            if k is None:
                raise NotAnalysable("%s on a concrete value" % m)
            key = "is_some:" + k
            if key not in env:
                raise Need(key, "bool")
            return env[key] if m == "is_some" else 1 - int(env[key])
        if m in ("lt", "le", "gt", "ge", "eq", "ne") and len(t["args"]) == 2:
            a = fin.arg_value(t, 0, vals, env)
            c = fin.arg_value(t, 1, vals, env)
            ka, kc = fin.sym_key(a, vals, env), fin.sym_key(c, vals, env)
            sty = (t.get("callee") or {}).get("self_ty", "")
            if sty.endswith("Specificity"):
                if ka is None or kc is None:
                    raise NotAnalysable("specificity comparison on concrete values")
                ka, kc = ka.replace("in:", ""), kc.replace("in:", "")
                ra, rc = roles.get(ka), roles.get(kc)
                if {ra, rc} != {"new_spec", "old_spec"}:
                    raise NotAnalysable("specificity comparison between %s and %s" % (ka, kc))
                key = "rel:new_vs_old"
                if key not in env:
                    raise Need(key, "rel")
                rel = env[key]  # relation of new to old
                sgn = {LESS: -1, EQUAL: 0, GREATER: 1}[rel]
                if ra == "old_spec":
                    sgn = -sgn  # a is old: relation of a to c is reversed
                return int({"lt": sgn < 0, "le": sgn <= 0, "gt": sgn > 0, "ge": sgn >= 0,
                            "eq": sgn == 0, "ne": sgn != 0}[m])
            if sty.endswith("StyleOrigin") or sty.endswith("bool"):
                x = fin._int(a, vals, env)
                y = fin._int(c, vals, env)
                return int({"lt": x < y, "le": x <= y, "gt": x > y, "ge": x >= y, "eq": x == y, "ne": x != y}[m])
        return None

    fin = Fin(F, b, domain, oracle)
    try:
        leaves = fin.run()
    except NotAnalysable as e:
        ctx.violation("C19-A", "maybe_update:not-analysable", b.span, b.id,
                      "the cascade comparison left the finitely analysable fragment (%s); rule fails closed" % e)
        return
    ctx.floor("C19-A", "decision leaves of maybe_update", len(leaves), 6)
    ncases = 0
    bad = {}
    for env, effects, _ret in leaves:
        replaced = any(e[0] == "store" and roles.get(e[1]) == "val" for e in effects)
        unknown = [k for k in env if not (k in roles or k.startswith("is_some:") or k == "rel:new_vs_old")]
        if unknown:
            ctx.violation("C19-A", "maybe_update:consults:%s" % unknown[0], b.span, b.id,
                          "the decision consults an input outside the cascade's: %s" % unknown)
            continue
        # extend the partial assignment to the full abstract domain
        fixed = {}
        for k, v in env.items():
            if k.startswith("is_some:"):
                fixed["has_val"] = v
            elif k == "rel:new_vs_old":
                fixed["rel"] = v
            else:
                fixed[roles[k]] = v
        for has_val in ([fixed["has_val"]] if "has_val" in fixed else [0, 1]):
            olds = [(0, 0)] if not has_val else [(i, o) for i in ([fixed["old_imp"]] if "old_imp" in fixed else [0, 1])
                                                 for o in ([fixed["old_origin"]] if "old_origin" in fixed else [1, 2, 3])]
            if not has_val and ("old_imp" in fixed or "old_origin" in fixed):
                olds = [(fixed.get("old_imp", 0), fixed.get("old_origin", 1))]
            for (oi, oo) in olds:
                for ni in ([fixed["new_imp"]] if "new_imp" in fixed else [0, 1]):
                    for no in ([fixed["new_origin"]] if "new_origin" in fixed else [1, 2, 3]):
                        for rel in ([fixed["rel"]] if "rel" in fixed else [LESS, EQUAL, GREATER]):
                            ncases += 1
                            want_rep = _reference(has_val, oi, oo or 1, ni, no, rel)
                            if want_rep != replaced:
                                on = {0: "-", 1: "agent", 2: "user", 3: "author"}
                                case = "old=%s%s new=%s%s" % (on[oo] if has_val else "empty",
                                                              "!" if (has_val and oi) else "",
                                                              on[no], "!" if ni else "")
                                bad.setdefault(case, []).append(
                                    {LESS: "spec<", EQUAL: "spec=", GREATER: "spec>"}[rel] +
                                    (":keeps" if not replaced else ":replaces"))
    ctx.stats["cascade_cases"] = ncases
    for case, rels in sorted(bad.items()):
        ctx.violation("C19-A", "cascade:%s" % case, b.span, b.id,
                      "cascade violated for %s (%s): code %s" % (case, ",".join(sorted(set(rels))),
                                                                "disagrees with the CSS cascade order"))
    if not bad:
        ctx.ok("C19-A", "cascade:all-cases", b.span, b.id, "%d abstract cases agree with the reference cascade" % ncases)
    ctx.floor("C19-A", "abstract cascade cases compared", ncases, 109)
    # callers never pass StyleOrigin::None
    for (cb, bb, t) in F.call_sites(lambda cd, t: cd == b.id):
        at = cb.atoms(t["args"][2])
        consts = [a for a in at if a[0] == "agg" and ends(a[1], "StyleOrigin")]
        okc = all(a[2] in ("Agent", "User", "Author") for a in consts)
        ctx.check(okc, "C19-A", "caller-origin-not-None@%s" % fn_key(cb), t["span"], cb.id, "origins passed: %s" % consts)


def rule_b(ctx):
    F = ctx.facts
    b = F.one("<Specificity as std::cmp::PartialOrd>::partial_cmp")
    sp = F.adt("Specificity")
    fields = [f["name"] for f in sp["variants"][0]["fields"]]
    require(fields == ["inline", "id", "class", "typ"], "Specificity fields changed: %s" % fields)

    def domain(key, ty, hint):
        if key.startswith("rel:"):
            return [LESS, EQUAL, GREATER]
        return None

    def oracle(fin, t, vals, env):
        if callee_method(t) == "partial_cmp" and len(t["args"]) == 2:
            ka = fin.sym_key(fin.arg_value(t, 0, vals, env), vals, env)
            kc = fin.sym_key(fin.arg_value(t, 1, vals, env), vals, env)
            if ka is None or kc is None:
                raise NotAnalysable("partial_cmp on concrete values")
            fa, fc = ka.split(".")[-1], kc.split(".")[-1]
            if fa != fc:
                raise NotAnalysable("compares different fields %s / %s" % (ka, kc))
            a_is_self = ka.startswith("in:self")
            key = "rel:" + fa
            if key not in env:
                raise Need(key, "rel")
            rel = env[key]
            if not a_is_self:
                rel = {LESS: GREATER, GREATER: LESS, EQUAL: EQUAL}[rel]
            return ("adt", "std::option::Option", 1, [rel])
        return None

    fin = Fin(F, b, domain, oracle)
    try:
        leaves = fin.run()
    except NotAnalysable as e:
        ctx.violation("C19-B", "partial_cmp:not-analysable", b.span, b.id, str(e))
        return
    n = 0
    wrong = []
    for env, effects, ret in leaves:
        # extend to all four relations
        def ext(i, cur):
            if i == len(fields):
                yield dict(cur)
                return
            k = "rel:" + fields[i]
            for v in ([env[k]] if k in env else [LESS, EQUAL, GREATER]):
                cur[k] = v
                yield from ext(i + 1, cur)
        got = ret[3][0] if isinstance(ret, tuple) and ret[0] == "adt" and ret[2] == 1 else None
        for full in ext(0, {}):
            n += 1
            want = EQUAL
            for f in fields:
                if full["rel:" + f] != EQUAL:
                    want = full["rel:" + f]
                    break
            if got != want:
                wrong.append((full, got))
    ctx.floor("C19-B", "relation combinations", n, 81)
    ctx.check(not wrong, "C19-B", "Specificity::partial_cmp:lexicographic(inline,id,class,typ)", b.span, b.id,
              "%d of %d combinations disagree, e.g. %s" % (len(wrong), n, wrong[:1]))


WANT_SPEC = {"Class": {"class"}, "Element": {"typ"}, "Hash": {"id"}, "Star": set(), "CombChild": set(),
             "CombDescendant": set(), "NthChild": {"class", "+inner"}}


def rule_c(ctx):
    F = ctx.facts
    b = F.one("css::Selector::specificity")
    comp = F.adt("SelectorComponent")
    names = {v["discr"]: v["name"] for v in comp["variants"]}
    disp = find_dispatch(b, "SelectorComponent", 3)
    t = b.term(disp)
    seen = {}
    for v, tb in t["targets"]:
        seen.setdefault(tb, []).append(names.get(v, str(v)))
    covered = set()
    for tb, vs in seen.items():
        region = [x for x in b.reachable() if b.dominates(tb, x)]
        incs = set()
        for x in region:
            for st in b.stmts(x):
                if st["k"] == "assign" and st["lhs"]["p"]:
                    last = st["lhs"]["p"][-1]
                    if isinstance(last, dict) and ends(last.get("o"), "Specificity"):
                        at = b.atoms(st["rv"]["use"]) if "use" in st["rv"] else set()
                        plus = any(a[0] == "bin" and a[1].startswith("Add") for a in at) or has_call(at, "saturating_add", "checked_add", "wrapping_add")
                        if plus and ("int", 1) in at and not any(a[0] == "bin" and a[1].startswith(("Sub", "Mul")) for a in at):
                            incs.add(last["n"])
                        else:
                            incs.add("?" + last["n"])
            tt = b.term(x)
            if tt["k"] == "call" and callee_method(tt) == "add_assign":
                at = b.atoms(tt["args"][1])
                incs.add("+inner" if has_call(at, "Selector::specificity") else "+?")
        for vn in vs:
            covered.add(vn)
            ctx.check(incs == WANT_SPEC.get(vn), "C19-C", "specificity:%s" % vn, b.term(tb)["span"], b.id,
                      "%s contributes %s, CSS says %s" % (vn, sorted(incs), sorted(WANT_SPEC.get(vn, ["?"]))))
    ctx.check(covered == set(WANT_SPEC), "C19-C", "specificity:all-components", t["span"], b.id,
              "components handled: %s" % sorted(covered))
    ctx.floor("C19-C", "selector component arms", len(covered), 7)


def rule_d(ctx):
    F = ctx.facts
    b = F.one("css::StyleData::computed_style")
    arrays = []
    for bb in sorted(b.reachable()):
        for st in b.stmts(bb):
            rv = st.get("rv") or {}
            if rv.get("agg") == "array" and "StyleOrigin" in rv.get("elem_ty", ""):
                arrays.append((bb, st, rv))
    require(len(arrays) == 1, "computed_style must iterate one array of (origin, rules)")
    bb, st, rv = arrays[0]
    pairs = []
    for o in rv["ops"]:
        at = b.atoms(o)
        org = [a[2] for a in at if a[0] == "agg" and ends(a[1], "StyleOrigin")]
        fld = [a[2] for a in at if a[0] == "field" and ends(a[1], "StyleData")]
        pairs.append((org, fld))
    want = [(["Agent"], ["agent_rules"]), (["User"], ["user_rules"]), (["Author"], ["author_rules"])]
    ctx.check(pairs == want, "C19-D", "origin-order-and-labels", st["span"], b.id,
              "iteration order: %s" % pairs)
    # rules within an origin in vector order: the inner loop iterates the Vec by into_iter on a reference (no rev/sort)
    bad = [callee_method(t) for _bb, t in b.calls() if callee_method(t) in ("rev", "sort", "sort_by", "sort_by_key", "reverse")]
    ctx.check(not bad, "C19-D", "rules-in-source-order", b.span, b.id, "order-changing calls: %s" % bad)
    so = F.adt("StyleOrigin")
    ctx.check([v["name"] for v in so["variants"]] == ["None", "Agent", "User", "Author"], "C19-D",
              "StyleOrigin:declared-order", so["span"], "StyleOrigin", "")
    po = [im for im in F.impls if im.get("trait") == "std::cmp::PartialOrd" and im["self_ty"].endswith("StyleOrigin")]
    ok_derived = len(po) == 1 and all((F.bodies.get(m["impl_item"]) is None or F.bodies[m["impl_item"]].raw.get("from_expansion"))
                                      for m in po[0]["methods"] if m["name"] == "partial_cmp")
    ctx.check(ok_derived, "C19-D", "StyleOrigin:derived-PartialOrd", so["span"], "StyleOrigin",
              "origin comparison must be the derived (declaration order) one")
    if ctx.has_css:
        # inline style: author origin + inline specificity
        ms = F.one("css::StyleData::merge_computed_style")
        cs = b.calls(lambda cd, t: cd == ms.id)
        inline_sites = [(bb2, t) for bb2, t in cs if has_call(b.atoms(t["args"][3]), "Specificity::inline")]
        ctx.floor("C19-D", "inline-specificity merge sites (style/color/bgcolor attributes)", len(inline_sites), 3)
        for bb2, t in inline_sites:
            at = b.atoms(t["args"][2])
            org = [a[2] for a in at if a[0] == "agg" and ends(a[1], "StyleOrigin")]
            ctx.check(org == ["Author"], "C19-D", "inline-attr:author-origin#%d" % inline_sites.index((bb2, t)), t["span"], b.id,
                      "origin %s" % org)
        mg = F.one("css::StyleData::merge")
        ex = mg.calls(lambda cd, t: callee_method(t) == "extend")
        okc = len(ex) == 3
        for bb2, t in ex:
            a0 = direct_field(mg, t["args"][0])
            a1 = direct_field(mg, t["args"][1])
            okc = okc and a0 is not None and a1 is not None and a0[1] == a1[1] and ends(a0[0], "StyleData")
        ctx.check(okc, "C19-D", "merge:like-with-like-appended", mg.span, mg.id, "")


def rule_e(ctx):
    F = ctx.facts
    ms = F.one("css::StyleData::merge_computed_style")
    n = 0
    for (b, bb, t) in F.call_sites(lambda cd, t: cd == ms.id):
        n += 1
        imp = b.atoms(t["args"][1])
        decl = b.atoms(t["args"][5])
        key = "merge@%s#%s" % (fn_key(b), b.expr(t["args"][5]))
        from_decl = has_field(imp, "StyleDecl", "importance")
        built_here = ("agg", "css::StyleDecl", "StyleDecl") in decl
        if from_decl:
            ctx.ok("C19-E", key, t["span"], b.id, "importance read from the declaration")
        elif built_here:
            # declaration literal with Importance::Default and constant false
            okc = ("agg", "css::types::Importance", "Default") in decl and ("int", 0) in imp and not any(a[0] == "field" for a in imp)
            ctx.check(okc, "C19-E", key, t["span"], b.id, "literal declaration: importance Default must pair with `false`")
        else:
            ctx.violation("C19-E", key, t["span"], b.id,
                          "this merge ignores the declaration's own importance (passes %s): an `!important` "
                          "declaration is treated as normal" % sorted(a for a in imp if a[0] in ("int", "const"))[:2])
    ctx.floor("C19-E", "merge_computed_style call sites", n, 1 if (not ctx.has_css) else 4)
    # maybe_update callers pass `important` through unchanged
    mu = F.one("WithSpec::<T>::maybe_update")
    # who may enter a declaration into an element's cascade: the merge of a matched / inline declaration, and the agent
    # default for <pre> in the DOM walk — nothing else (a value handed on from another element with that element's
    # importance, origin and specificity would compete with the element's own declarations)
    MU_OK = {"css::StyleData::merge_computed_style": "the cascade itself", "process_dom_node": "agent default white-space of <pre> (origin Agent, default specificity)"}
    for (b, bb, t) in F.call_sites(lambda cd, t: cd == mu.id):
        root = b.root if b.kind == "Closure" else b.id
        ctx.check(root in MU_OK, "C19-E", "maybe_update:caller@%s" % fn_key(b), t["span"], b.id,
                  "WithSpec::maybe_update is called outside the cascade: %s enters a value into another element's cascade" % fn_key(b))
    for (b, bb, t) in F.call_sites(lambda cd, t: cd == mu.id):
        if b.id != ms.id:
            continue
        ctx.check(("arg", 2) in b.atoms(t["args"][1]) and ("arg", 3) in b.atoms(t["args"][2]) and ("arg", 4) in b.atoms(t["args"][3]),
                  "C19-E", "merge→maybe_update:args-straight#%s" % b.canon(t["args"][0]), t["span"], b.id, "")
        # every declaration of a kind is offered to the cascade: the call depends only on *which kind* of style (and
        # which pseudo-element target) it is, never on the declared or the current value — maybe_update also records
        # the winner's priority, so skipping a "redundant" update loses it
        conds = []
        for (a, s) in b.cdeps_transitive(bb):
            neg, src = b.switch_source(a)
            if src[0] == "discr":
                continue
            conds.append("%s@%s" % (src[0], b.term(a)["span"]))
        ctx.check(not conds, "C19-E", "merge→maybe_update:unconditional#%s" % b.canon(t["args"][0]), t["span"], b.id,
                  "this maybe_update call is skipped depending on %s; only the kind of declaration may decide" % conds)


DECL_SEQ = ("StyleDecl", "Ruleset", "css::parser::Declaration", "css::parser::RuleSet", "css::Style,", "css::Style>")
SEQ_OPS = ("rev", "reverse", "sort", "sort_by", "sort_by_key", "sort_unstable", "sort_unstable_by", "sort_unstable_by_key",
           "swap", "swap_remove", "pop", "pop_front", "pop_back", "push_front", "insert", "remove", "rotate_left", "rotate_right",
           "dedup", "dedup_by", "dedup_by_key", "retain", "retain_mut", "drain", "split_off", "truncate", "filter", "filter_map",
           "skip", "skip_while", "take", "take_while", "step_by", "last", "nth", "find", "find_map", "position", "clear")


def rule_f(ctx):
    """The cascade decides between *all* declarations that apply: importance is compared before source order, so a
    declaration may not be discarded early because a later one in the same block has the same property (or for any
    other reason).  Expected count of such operations is zero; the css parser's `components.reverse()` on a selector
    is the positive control that the query sees this kind of call."""
    F = ctx.facts
    if not ctx.has_css:
        ctx.info("C19-F", "no stylesheet code in this configuration (css feature off): nothing to check")
        return
    n = 0
    control = 0
    for b in F.bodies.values():
        if b.raw.get("from_expansion") and b.kind != "Closure":
            continue
        for bb, t in b.calls(lambda cd, t: callee_method(t) in SEQ_OPS and not ends(cd, "std::mem::take", "std::mem::swap")):
            c = t["callee"]
            tys = " ".join([c.get("self_ty") or ""] + list(c.get("targs") or []))
            if "SelectorComponent" in tys and callee_method(t) == "reverse":
                control += 1
            if any(s in tys for s in DECL_SEQ):
                n += 1
                ctx.violation("C19-F", "%s:%s" % (fn_key(b), callee_method(t)), t["span"], b.id,
                              "%s on a sequence of %s: a declaration could be discarded or reordered before the cascade "
                              "compares importance, origin and specificity" % (callee_method(t), tys[:80]))
    ctx.check(control >= 1, "C19-F", "positive-control:selector-reverse-found", "", "", "the query must see components.reverse() in the css parser")
    # the document's style sheets are concatenated in document order (later sheets win ties): the extraction code only
    # appends — nothing swaps, inserts in front, reverses or reorders the collected sheets
    nde = 0
    for b in F.bodies.values():
        root = b.root if b.kind == "Closure" else b.id
        if not str(root).startswith("css::dom_extract::"):
            continue
        nde += 1
        for bb, t in b.calls(lambda cd, t: callee_method(t) in SEQ_OPS or callee_method(t) in ("swap", "replace", "swap_remove") or
                             ends(cd, "std::mem::swap", "std::mem::replace")):
            c = t["callee"]
            tys = " ".join([c.get("self_ty") or ""] + list(c.get("targs") or []))
            if "String" in tys or "Vec<" in tys:
                ctx.violation("C19-F", "dom_extract:%s:%s" % (fn_key(b), callee_method(t)), t["span"], b.id,
                              "%s on the collected style sheets (%s): sheets must stay in document order" % (callee_method(t), tys[:60]))
    ctx.floor("C19-F", "bodies of the style extraction", nde, 3)
    # styles_from_properties returns the vector it pushed every declaration's style onto
    sfp = F.one("css::styles_from_properties")
    pushes = sfp.calls(lambda cd, t: callee_method(t) == "push" and "StyleDecl" in " ".join(t["callee"].get("targs") or []))
    recv = {(direct_place(sfp, t["args"][0]) or {}).get("l") for bb, t in pushes}
    ret = None
    for r in sfp.defs().get(0, ()):
        if r[0] == "stmt" and "use" in r[3]["rv"]:
            pl = direct_place(sfp, r[3]["rv"]["use"])
            ret = pl["l"] if pl else None
    ctx.floor("C19-F", "StyleDecl pushes in styles_from_properties", len(pushes), 6)
    ctx.check(len(recv) == 1 and ret in recv, "C19-F", "styles_from_properties:returns-the-pushed-vector", sfp.span, sfp.id,
              "pushes go to %s, returned local %s" % (sorted(map(str, recv)), ret))
