"""C02 — no output line is wider than the requested width (structural clauses only)."""
from .. import widths

EXPLANATION = (
    "The numeric bound itself (every line <= w for all documents) is arithmetic over runtime widths and is NOT "
    "decided. Decided statically is the width plumbing the bound rests on, each clause a necessary condition: "
    "(A) the wrapped block is never wider than its renderer (width or min(_, width)) and block/renderer widths "
    "have no writer after construction; (B) every nested renderer's width comes from width_minus on its parent "
    "or from the allocated column width; (C) width_minus is max(saturating_sub(width, prefix), min_width); "
    "(D) the prefix width subtracted is the display width of the prefix later attached; (E) every append to "
    "the current line is dominated by a width comparison or a flush; (F) stacked cells get the column width "
    "unchanged; (G) footnote lines break against the renderer width under wrap_links; (H) the table shrink loop charges "
    "one separator per column boundary over all columns, as the cell-width formula does.")
NOT_DECIDED = "the bound display_width(line) <= w itself; column allocation arithmetic; hard-wrap split arithmetic"
ASSUMPTIONS = []


def check(ctx):
    ctx.rule("C02-A", "wrap width <= block width; widths immutable after construction")
    ctx.rule("C02-B", "sub-renderer widths come from width_minus or the allocated column width")
    ctx.rule("C02-C", "width_minus = max(saturating_sub(self.width, prefix_len), min_width)")
    ctx.rule("C02-D", "the prefix that is subtracted is the prefix that is attached (display width of the same decorator string)")
    ctx.rule("C02-E", "every append to the current line is width-guarded (INV-LINE)")
    ctx.rule("C02-F", "stacked cells get the full column width unchanged; side-by-side cells Σcols + separators")
    ctx.rule("C02-H", "a side-by-side table fits: the shrink loop exits only when Σ column widths + (n − 1) separators <= "
             "renderer width, counting every column (the count into_cells uses for a spanning cell)")
    ctx.rule("C02-G", "footnote wrapping compares against self.width under wrap_links")
    ctx.rule("C02-I", "a node kind that starts a line of its own (<br>) is estimated at min_width >= 1, so that width_minus "
             "refuses a block whose marker leaves no column for it")
    ctx.guard("C02-I", widths.rule_line_emitters_need_a_column, "C02-I")
    ctx.rule("C02-J", "the hard-wrap loop's count of the room left on the line starts from width − line.len, is reset to width "
             "only directly after a flush, and otherwise only decreases")
    ctx.guard("C02-J", widths.rule_room_counter, "C02-J")
    ctx.guard("C02-A", widths.rule_wrap_width, "C02-A")
    ctx.guard("C02-B", widths.rule_sub_widths, "C02-B")
    ctx.guard("C02-C", widths.rule_width_minus_def, "C02-C")
    ctx.guard("C02-D", widths.rule_prefix_pairing, "C02-D")
    from . import C07
    ctx.guard("C02-D", C07.rule_c, "C02-D")
    ctx.guard("C02-E", widths.rule_line_pushes_guarded, "C02-E")
    ctx.guard("C02-F", widths.rule_stacked_cells_full_width, "C02-F")
    ctx.guard("C02-G", widths.rule_footnote_wrap, "C02-G")
    ctx.guard("C02-H", widths.rule_min_size_matches_shrink, "C02-H")
