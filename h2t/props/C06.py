"""C06 — table cells stay in their columns, in order; columns with text get space (narrow structural clauses)."""
from ..facts import AnchorMissing, callee_def, op_place, op_const, is_bare
from ..util import (SUBR, RTRAIT, ends, site, fn_key, callee_method, require, has_call, has_field, find_dispatch,
                    closure_bodies_created_in, transitive_closures, deep_atoms, direct_field, direct_place, origin,
                    edge_is_true, place_fields)
from .. import drops, options
from ..widths import norm
from . import C03

EXPLANATION = (
    "The allocation heuristic (which column shrinks, whether a column with text can reach zero) is runtime "
    "arithmetic and is NOT decided (the known zero-width-cell loss is reported under C03). Decided statically: "
    "(A) all five per-row column cursors advance by the cell's colspan, from 0, on every path through the "
    "loop body, including the path that skips a zero-width cell; (B) a cell is rendered at exactly its "
    "allocated width, which has a single writer; (C) the shrink loop of render_table_tree has exactly one exit "
    "and it is the `Σwidths + n − 1 <= renderer.width()` edge; each iteration decrements one column; (D) no "
    "order-perturbing operation on rows, cells or their renderers; (E) the colspan remap looks up exactly the "
    "positions it inserted, given colspan >= 1, whose writers are enumerated.")
NOT_DECIDED = ("column allocation arithmetic; that a column holding text gets non-zero width; cell text lying between "
               "its bars (positional arithmetic)")
ASSUMPTIONS = []

CURSORS = [
    ("RenderTable::new", "col", {"0_usize", "(col + cell.colspan)"}),
    ("RenderTable::new", "pos", {"0_usize", "nextpos"}),
    ("RenderTable::new", "nextpos", {"(pos + Ord::max(cell.colspan, 1_usize))"}),
    ("RenderTable::new", "mapped_pos", {"0_usize", "next_mapped_pos"}),
    ("RenderTable::calc_size_estimate", "colno", {"0_usize", "(colno + cell.colspan)"}),
    ("render_table_tree", "colno", {"0_usize", "(colno + cell.colspan)"}),
    ("RenderTableRow::into_cells", "colno", {"0_usize", "(colno + colspan)", "(colno + cell.colspan)"}),
]


def check(ctx):
    ctx.rule("C06-A", "every column walk advances its cursor by the cell's colspan on every path through the loop body")
    ctx.rule("C06-B", "a cell is rendered at exactly its allocated width; col_width has a single writer")
    ctx.rule("C06-C", "the shrink loop exits only through Σwidths + n − 1 <= renderer.width(); each iteration decrements one column")
    ctx.rule("C06-D", "no order-perturbing operation on rows, cells, cell renderers or line sets")
    ctx.rule("C06-E", "colspan remap is total given colspan >= 1; writers of colspan enumerated")
    for rid, fn in (("C06-A", rule_a), ("C06-B", rule_b), ("C06-C", rule_c), ("C06-D", rule_d), ("C06-E", rule_e)):
        ctx.guard(rid, fn)
    from .. import widths
    ctx.guard("C06-C", widths.rule_min_size_matches_shrink, "C06-C")


def _forms(b, l):
    out = []
    for r in b.defs()[l]:
        if r[1] not in b.reachable():
            continue
        if r[0] == "stmt" and "use" in r[3]["rv"]:
            out.append((r[1], norm(b.expr(r[3]["rv"]["use"]))))
        elif r[0] == "call":
            t_ = r[2]
            out.append((r[1], norm("%s(%s)" % (callee_method(t_), ", ".join(b.expr(a) for a in t_["args"])))))
        elif r[0] == "stmt":
            out.append((r[1], "?"))
    return out


def _inner_next(b, ubb):
    """the closest `next()` call block dominating ubb (the loop the update belongs to)"""
    best = None
    for bb, t in b.calls(lambda cd, t: callee_method(t) == "next" and "RenderTableCell" in ((t.get("callee") or {}).get("self_ty") or "")):
        if b.dominates(bb, ubb) and (best is None or b.dominates(best, bb)):
            best = bb
    return best


def _some_target(b, nb):
    """entry of the loop body: the Some edge of the switch on the result of the next() call in block nb"""
    t = b.term(nb)
    dl = t["dest"]["l"]
    for a in b.reach_from(nb):
        if b.term(a)["k"] == "switch":
            neg, src = b.switch_source(a)
            if src[0] == "discr" and src[1]["l"] == dl:
                tb = [tb for v, tb in b.term(a)["targets"] if v == 1]
                return tb[0] if tb else None
    return None


def rule_a(ctx):
    F = ctx.facts
    n = 0
    for fn, name, want in CURSORS:
        b = F.one(fn)
        ls = [l for l, loc in enumerate(b.locals) if loc.get("name") == name and "usize" in loc["ty"]]
        if not ctx.check(len(ls) == 1, "C06-A", "%s:%s:exists" % (fn, name), b.span, b.id, "%d locals named %s" % (len(ls), name)):
            continue
        l = ls[0]
        forms = _forms(b, l)
        got = {f for _bb, f in forms}
        n += 1
        ctx.check(got <= want and any("+" in f or f in ("nextpos", "next_mapped_pos") for f in got), "C06-A",
                  "%s:%s:advance" % (fn, name), b.span, b.id, "cursor %s is defined as %s; expected %s" % (name, sorted(got), sorted(want)))
        if len(forms) < 2:
            continue
        # the update executes on every path through the loop body: once the update block is removed, the loop's
        # next() block can no longer reach itself
        ups = [bb for bb, f in forms if f != "0_usize"]
        for ubb in ups:
            nb = _inner_next(b, ubb)
            if nb is None:
                ctx.violation("C06-A", "%s:%s:in-loop" % (fn, name), b.span, b.id, "cursor update is not inside a cell loop")
                continue
            some = _some_target(b, nb)
            if some is None:
                ctx.violation("C06-A", "%s:%s:in-loop" % (fn, name), b.span, b.id, "cannot find the loop body entry")
                continue
            cyc = nb in b.reach_from(some, avoid=[ubb])
            ctx.check(not cyc, "C06-A", "%s:%s:on-every-path" % (fn, name), b.term(ubb)["span"], b.id,
                      "a path through the loop body skips the cursor update (cells after it would land in the wrong column)")
    ctx.floor("C06-A", "column cursors", n, 7)
    # into_cells: colspan is the cell's own
    b = F.one("RenderTableRow::into_cells")
    for l, loc in enumerate(b.locals):
        if loc.get("name") == "colspan":
            got = {f for _bb, f in _forms(b, l)}
            ctx.check(got == {"cell.colspan"}, "C06-A", "into_cells:colspan=cell.colspan", b.span, b.id, str(sorted(got)))


def rule_b(ctx):
    F = ctx.facts
    n = 0
    for fn in ("render_table_row", "render_table_row_vert"):
        b = F.one(fn)
        for _bb, cb in transitive_closures(F, b):
            for bb, t in cb.calls(lambda cd, t: callee_method(t) == "new_sub_renderer"):
                n += 1
                o = origin(cb, t["args"][1])
                okc = o is not None and o[0] == "place" and place_fields(o[1])[-1:] == [("RenderTableCell", "col_width")]
                # and the cell is the node handed to the pre-hook (arg 3)
                okc = okc and ("arg", 3) in cb.atoms(t["args"][1])
                ctx.check(okc, "C06-B", "%s:cell-width=cell.col_width" % fn, t["span"], fn_key(cb),
                          "cell rendered at %s" % norm(cb.expr(t["args"][1])))
    ctx.floor("C06-B", "cell sub-renderer constructions", n, 2)
    ws = options.writes(F, "RenderTableCell", "col_width")
    okc = len(ws) == 1 and ends(ws[0][0].id, "RenderTableRow::into_cells")
    ctx.check(okc, "C06-B", "col_width:single-writer", "", "", "writers: %s" % [(b.id, site(b, bb, w)) for b, bb, w, _ in ws])
    lits = options.literal_inits(F, "RenderTableCell")
    for b, st, ops in lits:
        at = b.atoms(ops["col_width"])
        ctx.check(("agg", "std::option::Option", "None") in at, "C06-B", "col_width:initially-None@%s" % fn_key(b), st["span"], b.id, "")
    # into_cells sizes come from the row's col_sizes, set by into_rows from render_table_tree's col_widths
    ir = F.one("RenderTable::into_rows")
    cs = F.call_sites(lambda cd, t: cd == ir.id)
    okc = len(cs) == 1 and ends(cs[0][0].id, "render_table_tree") and "col_widths" in norm(cs[0][0].expr(cs[0][2]["args"][1]))
    ctx.check(okc, "C06-B", "into_rows(col_widths)", ir.span, ir.id, "")


def rule_c(ctx):
    F = ctx.facts
    b = F.one("render_table_tree")
    # the decrement: col_widths[i] -= 1
    dec = []
    for bb in sorted(b.reachable()):
        for st in b.stmts(bb):
            if st["k"] == "assign" and st["lhs"]["p"] and "use" in st["rv"]:
                ex = norm(b.expr(st["rv"]["use"]))
                if "index_mut(&mut col_widths" in norm(b.expr(st["lhs"])) or ("col_widths" in norm(b.expr(st["lhs"])) and ex.endswith("- 1_usize)")):
                    dec.append((bb, st, ex))
    if not ctx.check(len(dec) == 1 and dec[0][2].endswith("- 1_usize)"), "C06-C", "shrink:one-decrement-by-1", b.span, b.id,
                     "decrements: %s" % [d[2] for d in dec]):
        return
    dbb = dec[0][0]
    # loop = blocks that can reach dbb and are reachable from dbb
    fwd = b.reach_from(dbb)
    loop = {x for x in fwd if dbb in b.reach_from(x)}
    exits = [(x, s) for x in loop for s in b.succ(x) if s not in loop and not b.is_cleanup(s)]
    # ignore exits that only lead to panics/unreachable (assert failures are not normal exits: they have no normal successor)
    real = []
    for (x, s) in exits:
        if b.term(s)["k"] == "unreachable":
            continue
        real.append((x, s))
    if ctx.check(len(real) == 1, "C06-C", "shrink:single-exit", b.term(dbb)["span"], b.id, "loop exits: %s" % [(x, s) for x, s in real]):
        x, s = real[0]
        truth, src = edge_is_true(b, x, s)
        okc = src is not None and src[0] == "bin" and src[1]["bin"] in ("Le", "Ge")
        if okc:
            ea, eb = norm(b.expr_top(src[1]["a"], expand_named=True)), norm(b.expr_top(src[1]["b"], expand_named=True))
            if src[1]["bin"] == "Ge":
                ea, eb = eb, ea
            okc = truth is True and "sum(" in ea and "- 1_usize" in ea and ("len(&col_widths)" in ea) and "Renderer::width(" in eb or \
                (truth is True and ea.count("+") >= 1 and "sum" in ea and "width(" in eb)
            ctx.check(okc, "C06-C", "shrink:exit-iff-Σw+n−1<=width", b.term(x)["span"], b.id, "exit condition: %s <= %s" % (ea[:90], eb[:60]))
        else:
            ctx.violation("C06-C", "shrink:exit-iff-Σw+n−1<=width", b.term(x)["span"], b.id, "exit is not a <= comparison")
    # every cycle passes the decrement
    hdr = [x for x in loop if any(p not in loop for p in b.pred(x))]
    for h in hdr:
        cyc = h in b.reach_from(b.succ(h)[0], avoid=[dbb]) if b.succ(h) else False
        ctx.check(not cyc, "C06-C", "shrink:every-iteration-decrements", b.term(h)["span"], b.id, "")
    # the loop only runs in the side-by-side layout
    ok_guard = any(b.dominates(a, dbb) and edge_is_true(b, a, s)[1] and edge_is_true(b, a, s)[1][0] == "place" and
                   b.local_name(edge_is_true(b, a, s)[1][1]["l"]) == "vert_row" and edge_is_true(b, a, s)[0] is False
                   for a in b.reachable() if b.term(a)["k"] == "switch" for s in b.succ(a) if b.dominates(s, dbb))
    ctx.check(ok_guard, "C06-C", "shrink:only-when-side-by-side", b.term(dbb)["span"], b.id, "")


def rule_d(ctx):
    C03.rule_g(ctx, only=("RenderTableRow", "RenderTableCell", "SubRenderer<", "RenderLine<"), rid="C06-D")
    F = ctx.facts
    # rows and cells are handed on by plain into_iter().map(..).collect() / for loops
    for fn in ("RenderTable::into_rows", "RenderTableRow::into_cells"):
        b = F.one(fn)
        bad = [callee_method(t) for _bb, t in b.calls() if callee_method(t) in ("rev", "skip", "take", "step_by", "filter", "filter_map", "zip")]
        ctx.check(not bad, "C06-D", "%s:all-in-order" % fn, b.span, b.id, str(bad))


def rule_e(ctx):
    F = ctx.facts
    ws = options.writes(F, "RenderTableCell", "colspan")
    got = sorted({fn_key(b) for b, bb, w, _ in ws})
    want = ["RenderTable::new", "tbody_to_render_tree::{closure:+TableBody,cells_mut}"]
    ctx.check(got == want, "C06-E", "colspan:writers", "", "", "writers of RenderTableCell.colspan: %s" % got)
    # tbody replaces colspan == 0 by max_columns - num_cols + 1 (>= 1 because max_columns >= num_cols)
    for b, bb, w, _ in ws:
        if "tbody_to_render_tree" in b.id:
            st = b.stmts(bb)[w[1]]
            ex = norm(b.expr(st["rv"]["use"])) if "use" in st["rv"] else "?"
            okc = ex.endswith("+ 1_usize)") and "max_columns" in ex
            # governed by colspan == 0
            gov = False
            for (a, s) in b.cdeps_transitive(bb):
                truth, src = edge_is_true(b, a, s)
                if src and src[0] == "bin" and src[1]["bin"] == "Eq" and truth is True:
                    ea, eb = norm(b.expr(src[1]["a"])), norm(b.expr(src[1]["b"]))
                    if "colspan" in ea + eb and "0_usize" in (ea, eb):
                        gov = True
            ctx.check(okc and gov, "C06-E", "tbody:colspan-0-replaced-by>=1", st["span"], fn_key(b), "colspan := %s" % ex)
    # RenderTable::new: inserted positions vs looked-up positions
    b = F.one("RenderTable::new")
    ins = [(bb, t) for bb, t in b.calls(lambda cd, t: callee_method(t) == "insert" and "BTreeSet" in (callee_def(t) or ""))]
    got_ins = sorted(norm(b.expr(t["args"][1])) for bb, t in ins)
    ctx.check(got_ins == ["0_usize", "col"], "C06-E", "remap:inserted-positions={0, running Σcolspan}", b.span, b.id, str(got_ins))
    gets = b.calls(lambda cd, t: callee_method(t) == "get" and "HashMap" in (callee_def(t) or ""))
    okc = len(gets) == 1 and norm(b.expr(gets[0][1]["args"][1])) == "&nextpos"
    ctx.check(okc, "C06-E", "remap:looked-up-position=running Σmax(colspan,1)", b.span, b.id, "")
    # td parse default
    td = F.one("td_to_render_tree")
    uo = [(bb, t) for bb, t in td.calls(lambda cd, t: callee_method(t) == "unwrap_or")]
    okc = len(uo) == 1 and (op_const(uo[0][1]["args"][1]) or {}).get("int") == 1
    ctx.check(okc, "C06-E", "td:colspan-parse-or-1", td.span, td.id, "")
