"""C06 — table cells stay in their columns, in order; columns with text get space (narrow structural clauses)."""
from ..facts import AnchorMissing, callee_def, op_place, op_const, is_bare
from ..util import (SUBR, RTRAIT, ends, site, fn_key, callee_method, require, has_call, has_field, find_dispatch,
                    closure_bodies_created_in, transitive_closures, deep_atoms, direct_field, direct_place, origin,
                    edge_is_true, place_fields, edges_where)
from .. import drops, options
from ..widths import norm
from . import C03

EXPLANATION = (
    "The allocation heuristic (which column shrinks, whether a column with text can reach zero) is runtime "
    "arithmetic and is NOT decided (the known zero-width-cell loss is reported under C03). Decided statically: "
    "(A) all five per-row column cursors advance by the cell's colspan, from 0, on every path through the "
    "loop body, including the path that skips a zero-width cell; (B) a cell is rendered at exactly its "
    "allocated width, which has a single writer; (C) the shrink loop of render_table_tree has exactly one exit "
    "and it is the `Σwidths + n − 1 <= renderer.width()` edge; each iteration decrements one column; (D) no "
    "order-perturbing operation on rows, cells or their renderers; (E) the colspan remap looks up exactly the "
    "positions it inserted, given colspan >= 1, whose writers are enumerated.")
NOT_DECIDED = ("column allocation arithmetic; that a column holding text gets non-zero width; cell text lying between "
               "its bars (positional arithmetic)")
ASSUMPTIONS = []

# column cursors are discovered structurally (a usize local initialised to 0 and updated inside a loop over
# RenderTableCells); the numbers are the cursors confirmed by hand per function
CURSOR_FUNCS = {"RenderTable::new": 3, "RenderTable::calc_size_estimate": 1, "render_table_tree": 1,
                "RenderTableRow::into_cells": 1}
# accepted advance forms, $K = the cursor itself (canonical expressions, `+` ≙ saturating_add)
ADVANCE = [
    (r"\(@K@ \+ [^+]*\.colspan\)", "K + cell.colspan"),
    (r"\(@K@ \+ Ord::max\([^+]*\.colspan, 1_usize\)\)", "K + max(cell.colspan, 1)"),
    (r"<T>::unwrap\(<K, V, S, A>::get\(.*, &\(\$\d+ \+ Ord::max\([^+]*\.colspan, 1_usize\)\)\)\)", "colmap[pos + max(cell.colspan, 1)]"),
]


def check(ctx):
    ctx.rule("C06-A", "every column walk advances its cursor by the cell's colspan on every path through the loop body")
    ctx.rule("C06-B", "a cell is rendered at exactly its allocated width; col_width has a single writer")
    ctx.rule("C06-C", "the shrink loop exits only through Σwidths + n − 1 <= renderer.width(); each iteration decrements one column")
    ctx.rule("C06-D", "no order-perturbing operation on rows, cells, cell renderers or line sets")
    ctx.rule("C06-E", "colspan remap is total given colspan >= 1; writers of colspan enumerated")
    for rid, fn in (("C06-A", rule_a), ("C06-B", rule_b), ("C06-C", rule_c), ("C06-D", rule_d), ("C06-E", rule_e)):
        ctx.guard(rid, fn)
    from .. import widths
    ctx.guard("C06-C", widths.rule_min_size_matches_shrink, "C06-C")
    # a cell's allocated width is the sum of the columns it spans plus the separators between them (shared with C02-F)
    ctx.guard("C06-B", widths.rule_stacked_cells_full_width, "C06-B")
    ctx.rule("C06-F", "every <td>/<th> becomes a cell of its row: td_to_render_tree hands its children to `pending` (which "
             "always calls the reducer) and its reducer returns Some(TableCell) on every path — an empty cell still occupies its column")
    ctx.guard("C06-F", rule_f)
    ctx.rule("C06-G", "the colspan remap is unconditional: every RenderTable built by RenderTable::new is constructed after the "
             "loop that rewrites the cells' colspans (columns never split by any row are collapsed into one; without that a "
             "short spanning cell's estimate is divided down to zero and the cell is skipped)")
    ctx.guard("C06-G", rule_g)
    ctx.rule("C06-H", "a spanning cell's estimate is spread over its columns as size / colspan and min_width / colspan, the same way "
             "in the table's own estimate and in the column allocation: the dividend of every division by a colspan is the "
             "estimate's field itself (a smaller dividend lets the per-column minimum reach 0 for ordinary words, and the "
             "columns under the span are then allocated nothing)")
    ctx.guard("C06-H", rule_h)
    ctx.guard("C06-C", widths.rule_estimate_merge, "C06-C")


def _forms(b, l):
    out = []
    for r in b.defs()[l]:
        if r[1] not in b.reachable():
            continue
        if r[0] == "stmt" and "use" in r[3]["rv"]:
            out.append((r[1], norm(b.expr(r[3]["rv"]["use"]))))
        elif r[0] == "call":
            t_ = r[2]
            out.append((r[1], norm("%s(%s)" % (callee_method(t_), ", ".join(b.expr(a) for a in t_["args"])))))
        elif r[0] == "stmt":
            out.append((r[1], "?"))
    return out


def _inner_next(b, ubb):
    """the closest `next()` call block dominating ubb (the loop the update belongs to)"""
    best = None
    for bb, t in b.calls(lambda cd, t: callee_method(t) == "next" and "RenderTableCell" in ((t.get("callee") or {}).get("self_ty") or "")):
        if b.dominates(bb, ubb) and (best is None or b.dominates(best, bb)):
            best = bb
    return best


def _some_target(b, nb):
    """entry of the loop body: the Some edge of the switch on the result of the next() call in block nb"""
    t = b.term(nb)
    dl = t["dest"]["l"]
    for a in b.reach_from(nb):
        if b.term(a)["k"] == "switch":
            neg, src = b.switch_source(a)
            if src[0] == "discr" and src[1]["l"] == dl:
                tb = [tb for v, tb in b.term(a)["targets"] if v == 1]
                return tb[0] if tb else None
    return None


def _cell_loop_next(b):
    return [bb for bb, t in b.calls(lambda cd, t: callee_method(t) == "next" and "RenderTableCell" in ((t.get("callee") or {}).get("self_ty") or ""))]


def _cursors(b):
    """usize locals with a `0` initialisation and at least one other definition that lies inside a cell loop"""
    out = []
    nexts = _cell_loop_next(b)
    for l, loc in enumerate(b.locals):
        if loc["ty"] != "usize":
            continue
        ds = [r for r in b.defs()[l] if r[1] in b.reachable()] if all(r[0] != "arg" for r in b.defs()[l]) else []
        if len(ds) < 2:
            continue
        zero = [r for r in ds if r[0] == "stmt" and (op_const((r[3].get("rv") or {}).get("use") or {}) or {}).get("int") == 0]
        ups = [r for r in ds if r not in zero]
        if zero and ups and any(b.dominates(nb, r[1]) for r in ups for nb in nexts):
            out.append((l, zero, ups))
    return out


def _scan_cursors(F, b):
    """column cursors kept as the state of `cells.scan(0, |state, cell| { *state = ..; Some(*state) })`:
    [(scan call block, scan term, closure body, [(update block, canonical form)], state key)]"""
    out = []
    for bb, t in b.calls(lambda cd, t: callee_method(t) == "scan" and ends(cd, "Iterator::scan")):
        if (op_const(t["args"][1]) or {}).get("int") != 0 or "RenderTableCell" not in " ".join((t.get("callee") or {}).get("targs") or []):
            continue
        cpl = direct_place(b, t["args"][2])
        sd = b.single_def(cpl["l"]) if cpl is not None and is_bare(cpl) else None
        if not (sd and sd[0] == "stmt" and sd[3]["rv"].get("agg") == "closure"):
            continue
        cb = F.bodies.get(sd[3]["rv"].get("def"))
        if cb is None:
            continue
        env = {}
        forms = []
        for x in sorted(cb.reachable()):
            for st in cb.stmts(x):
                if st["k"] == "assign" and st["lhs"]["l"] == 2 and st["lhs"]["p"] == ["*"] and "use" in st["rv"]:
                    forms.append((x, norm(cb.canon(st["rv"]["use"], env=env))))
        out.append((bb, t, cb, forms, norm(cb.canon({"c": {"l": 2, "p": ["*"], "ty": "usize"}}, env=env))))
    return out


def _flows_to_position(b, l):
    """does local l feed an index, a range bound, a set/map key or a colspan/col_width store?"""
    for bb in b.reachable():
        t = b.term(bb)
        if t["k"] == "call" and callee_method(t) in ("index", "index_mut", "insert", "get", "get_mut", "contains", "new_sub_renderer"):
            if any(("lidx", l) in b.atoms(a, through_calls=False) for a in t["args"][1:]):
                return True
        for st in b.stmts(bb):
            rv = st.get("rv") or {}
            if rv.get("agg") == "adt" and "Range" in str(rv.get("adt")) and any(("lidx", l) in b.atoms(o, through_calls=False) for o in rv["ops"]):
                return True
            if st["k"] == "assign" and st["lhs"]["p"] and any(isinstance(e, dict) and e.get("n") in ("colspan", "col_width") for e in st["lhs"]["p"]):
                if "use" in rv and ("lidx", l) in b.atoms(rv["use"]):
                    return True
    return False


def rule_a(ctx, rid="C06-A"):
    import re
    F = ctx.facts
    n = 0
    for fn, want_n in CURSOR_FUNCS.items():
        b = F.one(fn)
        env = {}
        good = 0
        for (l, zero, ups) in _cursors(b):
            k = b.canon(l, env=env)
            forms = []
            for r in ups:
                if r[0] == "stmt" and "use" in r[3]["rv"]:
                    forms.append((r[1], norm(b.canon(r[3]["rv"]["use"], env=env))))
                elif r[0] == "call":
                    forms.append((r[1], norm("%s(%s)" % (callee_method(r[2]), ", ".join(b.canon(a, env=env) for a in r[2]["args"])))))
                else:
                    forms.append((r[1], "?"))
            pats = [re.compile(p.replace("@K@", re.escape(k))) for p, _d in ADVANCE]
            okf = all(any(p.fullmatch(f) for p in pats) for _bb, f in forms)
            key = "%s:cursor#%s" % (fn, "|".join(sorted(f.replace(k, "K")[:50] for _bb, f in forms)))
            if not okf and not _flows_to_position(b, l):
                ctx.info(rid, "%s: 0-initialised counter in a cell loop that feeds no position (%s) — not a column cursor" % (fn, forms))
                continue
            n += 1
            good += 1 if okf else 0
            ctx.check(okf, rid, key + ":advance", b.term(forms[0][0])["span"], b.id,
                      "a column cursor is advanced as %s; accepted forms: %s" % ([f for _bb, f in forms], [d for _p, d in ADVANCE]))
            # the update executes on every path through the loop body: once the update block is removed, the loop's
            # next() block can no longer reach itself
            for ubb, _f in forms:
                nb = _inner_next(b, ubb)
                if nb is None:
                    ctx.violation(rid, key + ":in-loop", b.span, b.id, "cursor update is not inside a cell loop")
                    continue
                some = _some_target(b, nb)
                if some is None:
                    ctx.violation(rid, key + ":in-loop", b.span, b.id, "cannot find the loop body entry")
                    continue
                cyc = nb in b.reach_from(some, avoid=[u2 for u2, _f2 in forms])  # (the update may be written in several arms)
                ctx.check(not cyc, rid, key + ":on-every-path", b.term(ubb)["span"], b.id,
                          "a path through the loop body skips the cursor update (cells after it would land in the wrong column)")
        for (sbb, stt, cb, forms, k) in _scan_cursors(F, b):
            pats = [re.compile(p.replace("@K@", re.escape(k))) for p, _d in ADVANCE]
            okf = bool(forms) and all(any(p.fullmatch(f) for p in pats) for _bb, f in forms)
            key = "%s:scan-cursor#%s" % (fn, "|".join(sorted(f.replace(k, "K")[:50] for _bb, f in forms)))
            n += 1
            good += 1 if okf else 0
            ctx.check(okf, rid, key + ":advance", stt["span"], cb.id,
                      "a column cursor (scan state) is advanced as %s; accepted forms: %s" % ([f for _bb, f in forms], [d for _p, d in ADVANCE]))
            # the update executes on every call of the closure, and what it yields is the updated state
            ubbs = [x for x, _f in forms]
            rets = [x for x in cb.reach_from(0, avoid=ubbs) if cb.term(x)["k"] == "return" and x not in ubbs]
            ctx.check(not rets, rid, key + ":on-every-path", stt["span"], cb.id,
                      "a path through the scan closure skips the cursor update")
        ctx.check(good >= want_n, rid, "%s:cursors-present" % fn, b.span, b.id,
                  "%d column cursor(s) advancing by the cell's colspan found, %d confirmed by hand" % (good, want_n))
    ctx.floor(rid, "column cursors", n, 6)


def rule_b(ctx):
    F = ctx.facts
    n = 0
    for fn in ("render_table_row", "render_table_row_vert"):
        b = F.one(fn)
        for _bb, cb in transitive_closures(F, b):
            for bb, t in cb.calls(lambda cd, t: callee_method(t) == "new_sub_renderer"):
                n += 1
                o = origin(cb, t["args"][1])
                okc = o is not None and o[0] == "place" and place_fields(o[1])[-1:] == [("RenderTableCell", "col_width")]
                # and the cell is the node handed to the pre-hook (arg 3)
                okc = okc and ("arg", 3) in cb.atoms(t["args"][1])
                ctx.check(okc, "C06-B", "%s:cell-width=cell.col_width" % fn, t["span"], fn_key(cb),
                          "cell rendered at %s" % norm(cb.expr(t["args"][1])))
    ctx.floor("C06-B", "cell sub-renderer constructions", n, 2)
    ws = options.writes(F, "RenderTableCell", "col_width")
    okc = len(ws) == 1 and ends(ws[0][0].id, "RenderTableRow::into_cells")
    ctx.check(okc, "C06-B", "col_width:single-writer", "", "", "writers: %s" % [(b.id, site(b, bb, w)) for b, bb, w, _ in ws])
    lits = options.literal_inits(F, "RenderTableCell")
    for b, st, ops in lits:
        at = b.atoms(ops["col_width"])
        ctx.check(("agg", "std::option::Option", "None") in at, "C06-B", "col_width:initially-None@%s" % fn_key(b), st["span"], b.id, "")
    # into_cells sizes come from the row's col_sizes, set by into_rows from render_table_tree's col_widths
    # into_cells sizes come from the row's col_sizes, set by into_rows from render_table_tree's column widths:
    # the vector handed to into_rows is defined only by collecting over the column estimates and by the shrink loop
    from ..widths import table_locals
    b, W, V, S = table_locals(F)
    kinds = sorted({(r[0], callee_method(r[2]) if r[0] in ("call", "mutcall") else "") for r in b.defs()[W]})
    nst = len([r for r in b.defs()[W] if r[0] == "stmt"])  # the shrink loop's single decrement (C06-C)
    ctx.check(set(kinds) <= {("call", "collect"), ("call", "from_elem"), ("mutcall", "index_mut"), ("stmt", "")} and ("call", "collect") in kinds and nst <= 1, "C06-B",
              "into_rows(col_widths)", b.span, b.id, "the widths handed to into_rows are defined by %s" % kinds)
    ir = F.one("RenderTable::into_rows")
    ctx.check(len(F.call_sites(lambda cd, t: cd == ir.id)) == 1, "C06-B", "into_rows:single-caller", ir.span, ir.id, "")


def rule_c(ctx):
    F = ctx.facts
    from ..widths import table_locals
    b, W, V, S = table_locals(F)
    env = {}
    wsym = b.canon(W, env=env)
    # the decrement: col_widths[i] -= 1
    dec = []
    for bb in sorted(b.reachable()):
        for st in b.stmts(bb):
            if st["k"] == "assign" and st["lhs"]["p"] and "use" in st["rv"]:
                lhs = norm(b.canon(st["lhs"], env=env))
                if "index_mut(&mut %s" % wsym in lhs:
                    dec.append((bb, st, norm(b.canon(st["rv"]["use"], env=env)), lhs))
    if not ctx.check(len(dec) == 1 and dec[0][2] == "(%s - 1_usize)" % dec[0][3], "C06-C", "shrink:one-decrement-by-1", b.span, b.id,
                     "stores into the column widths: %s" % [d[2] for d in dec]):
        return
    dbb = dec[0][0]
    # loop = blocks that can reach dbb and are reachable from dbb
    fwd = b.reach_from(dbb)
    loop = {x for x in fwd if dbb in b.reach_from(x)}
    exits = [(x, s) for x in loop for s in b.succ(x) if s not in loop and not b.is_cleanup(s)]
    # ignore exits that only lead to panics/unreachable (assert failures are not normal exits: they have no normal successor)
    real = []
    for (x, s) in exits:
        if b.term(s)["k"] == "unreachable":
            continue
        real.append((x, s))
    if ctx.check(len(real) == 1, "C06-C", "shrink:single-exit", b.term(dbb)["span"], b.id, "loop exits: %s" % [(x, s) for x, s in real]):
        x, s = real[0]
        truth, src = edge_is_true(b, x, s)
        okc = src is not None and src[0] == "bin" and src[1]["bin"] in ("Le", "Ge", "Gt", "Lt")
        if okc and src[1]["bin"] in ("Gt", "Lt"):
            # `while cur > width { .. }`: the exit is the false edge of the strict comparison, i.e. cur <= width
            src = (src[0], dict(src[1], bin={"Gt": "Le", "Lt": "Ge"}[src[1]["bin"]]))
            truth = (not truth) if truth is not None else None
        if okc:
            ea, eb = norm(b.canon(src[1]["a"], env=env)), norm(b.canon(src[1]["b"], env=env))
            from ..widths import _is_width_call
            wop = src[1]["b"]
            if src[1]["bin"] == "Ge":
                ea, eb = eb, ea
                wop = src[1]["a"]
            okc = truth is True and "sum(" in ea and "- 1_usize" in ea and ("len(&%s)" % wsym in ea) and _is_width_call(b, wop)
            ctx.check(okc, "C06-C", "shrink:exit-iff-Σw+n−1<=width", b.term(x)["span"], b.id, "exit condition: %s <= %s" % (ea[:90], eb[:60]))
        else:
            ctx.violation("C06-C", "shrink:exit-iff-Σw+n−1<=width", b.term(x)["span"], b.id, "exit is not a <= comparison")
    # every cycle passes the decrement
    hdr = [x for x in loop if any(p not in loop for p in b.pred(x))]
    for h in hdr:
        cyc = h in b.reach_from(b.succ(h)[0], avoid=[dbb]) if b.succ(h) else False
        ctx.check(not cyc, "C06-C", "shrink:every-iteration-decrements", b.term(h)["span"], b.id, "")
    # the loop only runs in the side-by-side layout
    ok_guard = False
    for a in b.reachable():
        if b.term(a)["k"] == "switch":
            for s in b.succ(a):
                if b.dominates(s, dbb) and b.dominates(a, dbb):
                    truth, src = edge_is_true(b, a, s)
                    if truth is False and src and src[0] == "place" and is_bare(src[1]) and src[1]["l"] == V:
                        ok_guard = True
    ctx.check(ok_guard, "C06-C", "shrink:only-when-side-by-side", b.term(dbb)["span"], b.id, "")


def rule_d(ctx):
    C03.rule_g(ctx, only=("RenderTableRow", "RenderTableCell", "SubRenderer<", "RenderLine<", "RenderInput", "RenderNode"), rid="C06-D")
    F = ctx.facts
    # rows and cells are handed on by plain into_iter().map(..).collect() / for loops
    for fn in ("RenderTable::into_rows", "RenderTableRow::into_cells"):
        b = F.one(fn)
        bad = [callee_method(t) for _bb, t in b.calls() if callee_method(t) in ("rev", "skip", "take", "step_by", "filter", "filter_map", "zip")]
        ctx.check(not bad, "C06-D", "%s:all-in-order" % fn, b.span, b.id, str(bad))


def rule_e(ctx):
    F = ctx.facts
    ws = options.writes(F, "RenderTableCell", "colspan")
    got = sorted({fn_key(b) for b, bb, w, _ in ws})
    want = ["RenderTable::new", "tbody_to_render_tree::{closure:+TableBody,cells_mut}"]
    ctx.check(got == want, "C06-E", "colspan:writers", "", "", "writers of RenderTableCell.colspan: %s" % got)
    # tbody replaces colspan == 0 by max_columns - num_cols + 1 (>= 1 because max_columns >= num_cols)
    for b, bb, w, _ in ws:
        if "tbody_to_render_tree" in b.id:
            st = b.stmts(bb)[w[1]]
            ex = norm(b.canon(st["rv"]["use"])) if "use" in st["rv"] else "?"
            # (max over rows of the column count − this row's count) + 1
            okc = ex.endswith("+ 1_usize)") and ("::sub(" in ex or ") - " in ex) and "Iterator::max(" in ex
            # governed by colspan == 0
            gov = False
            for (a, s) in b.cdeps_transitive(bb):
                truth, src = edge_is_true(b, a, s)
                if src and src[0] == "bin" and src[1]["bin"] == "Eq" and truth is True:
                    ea, eb = norm(b.canon(src[1]["a"])), norm(b.canon(src[1]["b"]))
                    if "colspan" in ea + eb and "0_usize" in (ea, eb):
                        gov = True
            if not gov:
                # the same test written as an iterator filter: `cells_mut().filter(|c| c.colspan == 0)`
                filt = [t2 for _b2, t2 in b.calls(lambda cd, t2: callee_method(t2) == "next" and "Filter<" in ((t2.get("callee") or {}).get("self_ty") or ""))
                        if b.dominates(_b2, bb)]
                if filt:
                    for (_cbb, _i, cb2, _ops, _fields) in closure_bodies_created_in(F, b):
                        for x in cb2.reachable():
                            for st2 in cb2.stmts(x):
                                rv2 = st2.get("rv") or {}
                                if rv2.get("bin") == "Eq" and st2["lhs"]["l"] == 0:
                                    ea, eb = norm(cb2.canon(rv2["a"])), norm(cb2.canon(rv2["b"]))
                                    if "colspan" in ea + eb and "0_usize" in (ea, eb):
                                        gov = True
            ctx.check(okc and gov, "C06-E", "tbody:colspan-0-replaced-by>=1", st["span"], fn_key(b), "colspan := %s" % ex)
    # RenderTable::new: inserted positions vs looked-up positions
    b = F.one("RenderTable::new")
    ins = [(bb, t) for bb, t in b.calls(lambda cd, t: callee_method(t) == "insert" and "BTreeSet" in (callee_def(t) or ""))]
    env = {}
    got_ins = sorted(norm(b.canon(t["args"][1], env=env)) for bb, t in ins)
    import re
    okc = len(got_ins) == 2 and got_ins[1] == "0_usize" and re.fullmatch(r"\$\d+", got_ins[0]) is not None
    if okc:
        # the inserted running position is a cursor advancing by the cell's colspan (C06-A)
        cur = [l for (l, z, u) in _cursors(b) if b.canon(l, env=env) == got_ins[0]]
        okc = len(cur) == 1
    elif got_ins == ["0_usize"]:
        # the same walk as `set.extend(cells.scan(0, |pos, cell| { *pos += cell.colspan; Some(*pos) }))`
        ext = [(bb, t) for bb, t in b.calls(lambda cd, t: callee_method(t) == "extend" and "BTreeSet" in (callee_def(t) or ""))]
        sc = _scan_cursors(F, b)
        okc = len(ext) == 1 and len(sc) == 1 and ("call", "std::iter::Iterator::scan") in b.atoms(ext[0][1]["args"][1])
        if okc:
            _sbb, _stt, cb, forms, k = sc[0]
            yields = [norm(cb.canon(st["rv"]["ops"][0])) for x in cb.reachable() for st in cb.stmts(x)
                      if st["k"] == "assign" and st["lhs"]["l"] == 0 and (st.get("rv") or {}).get("variant") == "Some"]
            okc = bool(forms) and all(re.fullmatch(r"\(%s \+ [^+]*\.colspan\)" % re.escape(k), f) for _x, f in forms) and yields == [k] and \
                not any((st.get("rv") or {}).get("variant") == "None" for x in cb.reachable() for st in cb.stmts(x))
        got_ins = got_ins + ["scan-cursor" if okc else "extend(?)"]
    ctx.check(okc, "C06-E", "remap:inserted-positions={0, running Σcolspan}", b.span, b.id, str(got_ins))
    gets = b.calls(lambda cd, t: callee_method(t) == "get" and "HashMap" in (callee_def(t) or ""))
    okc = len(gets) == 1 and re.fullmatch(r"&\(\$\d+ \+ Ord::max\([^+]*\.colspan, 1_usize\)\)", norm(b.canon(gets[0][1]["args"][1], env=env))) is not None
    ctx.check(okc, "C06-E", "remap:looked-up-position=running Σmax(colspan,1)", b.span, b.id,
              str([norm(b.canon(g[1]["args"][1], env=env)) for g in gets]))
    # td parse default
    td = F.one("td_to_render_tree")
    # (the parse may sit in the closure of `.find(..).map_or(1, |a| a.value.parse().unwrap_or(1))`)
    uo = [(x, t) for x in [td] + [c for _b, c in transitive_closures(F, td)]
          for _bb, t in x.calls(lambda cd, t: callee_method(t) in ("unwrap_or", "map_or") and "usize" in " ".join((t.get("callee") or {}).get("targs") or []) + str(x.local_ty(t["dest"]["l"]) if not t["dest"]["p"] else ""))]
    okc = bool(uo) and all((op_const(t["args"][1]) or {}).get("int") == 1 for _x, t in uo) and \
        any(callee_method(t) == "unwrap_or" for _x, t in uo)
    ctx.check(okc, "C06-E", "td:colspan-parse-or-1", td.span, td.id, "defaults: %s" % [(callee_method(t), (op_const(t["args"][1]) or {}).get("int")) for _x, t in uo])


def rule_h(ctx):
    F = ctx.facts
    for fn in ("RenderTable::calc_size_estimate", "render_table_tree"):
        b = F.one(fn)
        n = 0
        seen = set()
        for x in sorted(b.reachable()):
            for st in b.stmts(x):
                rv = st.get("rv") or {}
                if rv.get("bin") != "Div" or not norm(b.canon(rv["b"])).endswith("colspan"):
                    continue
                n += 1
                o = origin(b, rv["a"])
                fld = None
                if o and o[0] == "place":
                    fs = place_fields(o[1])
                    if fs and ends(fs[-1][0], "SizeEstimate") and fs[-1][1] in ("size", "min_width"):
                        fld = fs[-1][1]
                seen.add(fld)
                ctx.check(fld is not None, "C06-H", "%s:%s/colspan" % (fn, fld or "?#%d" % n), st["span"], b.id,
                          "a division by the cell's colspan whose dividend is not the estimate's size or min_width itself: %s"
                          % norm(b.canon(rv["a"]))[:120])
        ctx.floor("C06-H", "divisions by colspan in %s" % fn, n, 2)
        ctx.check({"size", "min_width"} <= seen, "C06-H", "%s:both-components-spread" % fn, b.span, b.id, str(sorted(map(str, seen))))


def rule_g(ctx):
    F = ctx.facts
    b = F.one("RenderTable::new")
    stores = set()
    for b2, bb, _w, _acc in options.writes(F, "RenderTableCell", "colspan"):
        if b2.id == b.id:
            stores.add(bb)
        elif b2.kind == "Closure" and b2.root == b.id:
            stores |= {cbb for (cbb, _i, cdef, _o, _f) in b.closures_created() if cdef == b2.id or F.bodies[cdef].id in b2.id}
    require(stores, "RenderTable::new no longer rewrites colspans")
    # outermost loop around a rewrite: a header dominates the store and is reachable again from it
    heads = []
    for h in b.reachable():
        if any(b.dominates(h, s_) and any(p in b.reach_from(s_) for p in b.pred(h) if b.dominates(h, p)) for s_ in stores):
            heads.append(h)
    heads = [h for h in heads if not any(o != h and b.dominates(o, h) for o in heads)]
    ctx.floor("C06-G", "remap loops in RenderTable::new", len(heads), 1)
    # an empty row list needs no remap
    def pred(truth, src, a, s):
        return truth is True and src and src[0] == "call" and callee_method(src[1]) == "is_empty" and \
            ("arg", 1) in b.atoms(src[1]["args"][0])
    cut = edges_where(b, pred)
    aggs = [(x, st) for x in sorted(b.reachable()) for st in b.stmts(x)
            if (st.get("rv") or {}).get("agg") == "adt" and ends((st.get("rv") or {}).get("adt"), "RenderTable")]
    ctx.floor("C06-G", "RenderTable constructions in RenderTable::new", len(aggs), 1)
    for x, st in aggs:
        seen, stack = set(), [0]
        while stack:
            y = stack.pop()
            if y in seen or y in heads:
                continue
            seen.add(y)
            for s_ in b.succ(y):
                if (y, s_) not in cut and not b.is_cleanup(s_):
                    stack.append(s_)
        okc = x not in seen and not any(s_ in b.reach_from(x) for s_ in stores)
        ctx.check(okc, "C06-G", "RenderTable::new:table-built-after-remap", st["span"], b.id,
                  "a RenderTable is constructed on a path that does not run the colspan remap loop first: columns that no row "
                  "splits stay separate, a spanning cell's estimate is divided by its colspan and can reach zero, and "
                  "into_cells then skips the cell with its text")


def rule_f(ctx):
    F = ctx.facts
    td = F.one("td_to_render_tree")
    calls = [(bb, callee_def(t).split("::")[-1]) for bb, t in td.calls(lambda cd, t: cd in ("pending", "pending_noempty", "pending2") or
                                                                       str(cd).split("::")[-1] in ("pending", "pending_noempty"))]
    ctx.check([c for _bb, c in calls] == ["pending"], "C06-F", "td:children-through-pending", td.span, td.id,
              "td_to_render_tree builds its node through %s; pending_noempty would drop a <td></td> and shift the cells to its right" % [c for _b, c in calls])
    # no other result shape
    res = sorted({(st.get("rv") or {}).get("variant") for x in td.reachable() for st in td.stmts(x)
                  if ends((st.get("rv") or {}).get("adt"), "TreeMapResult")})
    ctx.check(not res, "C06-F", "td:no-direct-result", td.span, td.id, "td_to_render_tree also returns %s directly" % res)
    cls = [cb for _bb, _i, cb, _o, _f in closure_bodies_created_in(F, td)
           if any((st.get("rv") or {}).get("variant") == "TableCell" for x in cb.reachable() for st in cb.stmts(x))]
    if ctx.check(len(cls) == 1, "C06-F", "td:one-reducer", td.span, td.id, ""):
        cb = cls[0]
        rets = []
        for x in cb.reachable():
            for st in cb.stmts(x):
                rv = st.get("rv") or {}
                if st["k"] == "assign" and st["lhs"]["l"] == 0 and not st["lhs"]["p"] and rv.get("agg") == "adt" and ends(rv.get("adt"), "Option"):
                    rets.append(rv.get("variant"))
        builds = any((st.get("rv") or {}).get("variant") == "TableCell" for x in cb.reachable() for st in cb.stmts(x))
        ctx.check(rets == ["Some"] and builds, "C06-F", "td:reducer-always-Some(TableCell)", cb.span, fn_key(cb), "returns %s" % rets)
