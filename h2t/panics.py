"""Panic-site inventory (C01-A / C17-A): every operation on a route that may panic, with discharge by
magnitude class (D1), dominating guard (D2) or reviewed table row (D3)."""
from .facts import callee_def, op_const, op_place, is_bare
from .util import (ends, callee_method, fn_key, edge_is_true, direct_place, origin, edges_where,
                   unreachable_without_edges, has_call)
from .mag import Mag, ALLOC, WIDTH, ATTR, TOP, show, le_alloc, WIDE
from .widths import norm

# panicking std APIs: method name -> description; matched on the resolved callee path
PANIC_API = {
    "unwrap": "Option/Result::unwrap", "expect": "Option/Result::expect", "unwrap_err": "Result::unwrap_err",
    "index": "indexing", "index_mut": "indexing", "remove": "Vec::remove", "insert": "Vec/String::insert",
    "swap_remove": "Vec::swap_remove", "drain": "Vec::drain", "split_off": "split_off", "split_at": "split_at",
    "insert_str": "String::insert_str", "borrow": "RefCell::borrow", "borrow_mut": "RefCell::borrow_mut",
    "sum": "Iterator::sum (overflow)", "product": "Iterator::product (overflow)", "repeat": "str::repeat (capacity)",
    "from_elem": "vec![x; n] (capacity)", "from_digit": "char::from_digit", "copy_from_slice": "copy_from_slice",
    "truncate": None, "swap": "slice::swap", "chunks": "chunks(0)", "step_by": "step_by(0)", "windows": "windows(0)",
    "replace_range": "replace_range", "with_capacity": "with_capacity", "reserve": "reserve",
}
OPS = {"add": "Add", "sub": "Sub", "mul": "Mul", "div": "Div", "rem": "Rem", "neg": "Neg", "shl": "Shl", "shr": "Shr",
       "add_assign": "Add", "sub_assign": "Sub", "mul_assign": "Mul", "div_assign": "Div", "rem_assign": "Rem"}
INT_TYPES = ("usize", "u64", "u32", "u16", "u8", "isize", "i64", "i32", "i16", "i8", "u128", "i128")
NOT_PANICKING_PATHS = ("std::collections::HashMap", "std::collections::BTreeSet", "std::collections::HashSet",
                       "std::collections::BTreeMap", "hash_map::", "btree", "std::cell::Cell")


def is_panicking_call(t):
    """(kind, description) if the call's resolved callee is in the panicking-API table"""
    c = t.get("callee") or {}
    cd = callee_def(t) or ""
    m = callee_method(t)
    if c.get("diverges"):
        return ("diverge", cd)
    # integer arithmetic through the operator traits (e.g. `i32 - &i32`): the core impls inherit the crate's
    # overflow checks and panic on division by zero
    tr = c.get("trait") or ""
    if tr.startswith("std::ops::") and m in OPS and (c.get("self_ty") or "").lstrip("&") in INT_TYPES:
        return (OPS[m], "integer %s via operator trait" % m)
    if m not in PANIC_API or PANIC_API[m] is None:
        return None
    if c.get("local") or c.get("resolved_local"):
        return None
    st = c.get("self_ty", "")
    path = c.get("resolved_path") or c.get("path") or cd
    if m in ("insert", "remove", "drain", "swap", "borrow", "borrow_mut", "repeat", "truncate", "index", "index_mut", "sum", "product"):
        pass
    if m in ("borrow", "borrow_mut") and "RefCell" not in path and "RefCell" not in st:
        return None
    if m in ("insert", "remove") and any(x in path or x in st for x in ("HashMap", "BTreeSet", "HashSet", "BTreeMap", "hash_map", "btree")):
        return None
    if m in ("index", "index_mut") and any(x in path or x in st for x in ("RangeFull",)) and "str" not in st and "String" not in st:
        return None
    if m == "repeat" and "iter::repeat" in path:
        return None
    if m == "swap" and "mem::swap" in path:
        return None
    if m in ("unwrap", "expect", "unwrap_err") and not any(x in path for x in ("Option", "Result")):
        return None
    if m == "reserve" or m == "with_capacity":
        return None
    return (m, PANIC_API[m])


def render_roots(F):
    """Entry points of rendering: the public configuration/render API, the TreeSink callbacks html5ever
    invokes while parsing, and drop/clone glue of the public types."""
    roots = []
    for b in F.bodies.values():
        if b.kind == "Closure":
            continue
        i = b.id
        if i.startswith("config::") or i in ("from_read", "from_read_rich", "from_read_with_decorator", "parse",
                                            "dom_to_parsed_style", "ansi_colours::from_read_coloured"):
            if b.raw.get("public") or i.endswith("make_context") or i.endswith("do_parse"):
                roots.append(i)
        elif "html5ever::tree_builder::TreeSink>::" in i:
            roots.append(i)
        elif i in ("<markup5ever_rcdom::Node as std::ops::Drop>::drop", "<markup5ever_rcdom::RcDom as std::default::Default>::default"):
            roots.append(i)
        elif b.raw.get("implements", "").endswith("Clone::clone") and any(
                x in b.raw.get("self_ty", "") for x in ("RenderTree", "RenderNode", "RenderTable", "ComputedStyle", "WithSpec")):
            roots.append(i)
        elif i.startswith("RenderTree::"):
            roots.append(i)
    return sorted(set(roots))


def h8(s):
    import hashlib
    return hashlib.sha256(s.encode()).hexdigest()[:8]


# site keys hash the canonical operand expressions to this depth only: what defines an operand three or four
# definitions upstream (how a string was built, which helper produced a vector) is not part of the site's identity
KEY_DEPTH = 4


def _edge_text(b, a, s):
    """canonical text of what taking edge a->s means"""
    from .util import edge_is_true
    t = b.term(a)
    if t["k"] != "switch":
        return None
    truth, src = edge_is_true(b, a, s)
    if src is None:
        return None
    if src[0] == "bin":
        ca, cb_, op = norm(b.canon(src[1]["a"], depth=KEY_DEPTH)), norm(b.canon(src[1]["b"], depth=KEY_DEPTH)), src[1]["bin"]
        if truth is not None and op in ("Lt", "Le", "Gt", "Ge", "Eq", "Ne"):
            # one spelling per fact: `!(a <= b)`, `a > b` and `b < a` are the same guard
            if not truth:
                op = {"Lt": "Ge", "Le": "Gt", "Gt": "Le", "Ge": "Lt", "Eq": "Ne", "Ne": "Eq"}[op]
            if op in ("Gt", "Ge"):
                ca, cb_, op = cb_, ca, {"Gt": "Lt", "Ge": "Le"}[op]
            if op in ("Eq", "Ne") and cb_ < ca:
                ca, cb_ = cb_, ca
            return "(%s %s %s)" % (ca, op, cb_)
        e = "(%s %s %s)" % (ca, op, cb_)
    elif src[0] == "call":
        e = "%s(%s)" % (short(callee_def(src[1])) if False else (callee_def(src[1]) or "?").split("<")[0].split("::")[-1] or "call",
                        ", ".join(norm(b.canon(x, depth=KEY_DEPTH)) for x in src[1]["args"]))
    elif src[0] == "discr":
        vals = sorted(v for v, tb in t["targets"] if tb == s)
        if t["otherwise"] == s:
            # name the edge by the variants it stands for, so that `if let A = x {} else {..}` and
            # `match x { A => .., B => .. }` describe the else/B edge identically
            ty = str(src[1].get("ty", "")).split("<")[0]
            adt = b.facts.adts.get(ty)
            allv = None
            if adt is not None:
                allv = [v["discr"] for v in adt["variants"]]
            elif ty in ("std::option::Option", "std::result::Result", "std::ops::ControlFlow"):
                allv = [0, 1]
            if allv is not None:
                listed = {v for v, _ in t["targets"]}
                vals = sorted(set(vals) | (set(allv) - listed))
        e = "discr(%s)%s" % (norm(b.canon(src[1], depth=KEY_DEPTH)), vals if vals else "other-than%s" % sorted(v for v, _ in t["targets"]))
        return e
    elif src[0] == "place":
        e = norm(b.canon(src[1], depth=KEY_DEPTH))
    else:
        e = str(src[0])
    if truth is None:
        vals = sorted(v for v, tb in t["targets"] if tb == s)
        return "%s in %s" % (e, vals if vals else "other-than%s" % sorted(v for v, _ in t["targets"]))
    return "%s=%s" % (e, truth)


def guard_fingerprint(b, bb, depth=4, _seen=None):
    """The conditions that hold whenever block bb executes: for every switch that dominates bb, the out-edges through
    which bb can be reached without passing the switch again (if that is not all of them).  A switch on a bool
    temporary that only ever holds constants (`matches!(..)`, `a && b`) is replaced by the conditions under which
    the temporary received the value."""
    from .facts import flag_locals, is_bare as _ib
    from .util import edge_is_true
    out = set()
    seen = _seen if _seen is not None else set()
    if getattr(b, "_flagset", None) is None:
        b._flagset = flag_locals(b)
    for a in b.reachable():
        if b.term(a)["k"] != "switch" or a == bb or not b.dominates(a, bb):
            continue
        succs = [s for s in b.succ(a) if not b.is_cleanup(s)]
        via = [s for s in succs if s == bb or bb in b.reach_from(s, avoid=[a])]
        if not via or len(via) == len(succs):
            continue
        alts = []
        for s in via:
            truth, src = edge_is_true(b, a, s)
            if src is not None and src[0] == "place" and _ib(src[1]) and src[1]["l"] in b._flagset and truth is not None and (a, s) not in seen:
                seen.add((a, s))
                want = "true" if truth else "false"
                defs = [r for r in b.defs()[src[1]["l"]] if r[0] == "stmt" and (op_const(r[3]["rv"].get("use") or {}) or {}).get("v") == want]
                if defs:
                    subs = sorted({guard_fingerprint(b, r[1], 0, seen) for r in defs})
                    alts.append("{" + " | ".join(subs) + "}" if len(subs) > 1 else (subs[0] or "true"))
                    continue
            e = _edge_text(b, a, s)
            if e:
                alts.append(e)
        if alts:
            txt = " | ".join(sorted(set(alts)))
            for part in (txt.split(" & ") if len(alts) == 1 else [txt]):
                if part and part != "true":
                    out.add(part)
    if b.kind == "Closure" and b.parent and depth > 0:
        pb = b.facts.bodies.get(b.parent)
        if pb is not None:
            for (cbb, _i, cdef, _ops, _fields) in pb.closures_created():
                if cdef == b.id:
                    out.add("^" + guard_fingerprint(pb, cbb, depth - 1))
    return " & ".join(sorted(out))


class Site:
    """key  = function key : kind # hash of the *canonical* (name-independent) operand expressions — what reviewed
              rows and known findings are matched by (renaming a local does not change it);
       text = function key : kind(readable operand expressions) — for humans and for the table generator."""
    __slots__ = ("b", "bb", "kind", "desc", "ops", "span", "key", "exp", "term", "opty", "text", "canon", "guards", "key_nog")

    def __init__(self, b, bb, kind, desc, ops, span, exp, term, opty="", raw_ops=()):
        self.b, self.bb, self.kind, self.desc, self.ops, self.span, self.exp, self.term = b, bb, kind, desc, ops, span, exp, term
        self.opty = opty
        self.text = "%s:%s(%s)" % (fn_key(b), kind, ", ".join(ops))
        if kind == "diverge":
            # the message of the panic distinguishes panic!/unreachable!/unimplemented!/assert failures
            # (the text after "assertion failed:" is the source text of the condition — it contains variable names
            # and is dropped; the number of such sites per function is what the table row's xN pins)
            import re as _re
            msg = ", ".join(norm(b.canon(o, depth=KEY_DEPTH)) for o in raw_ops)[:400]
            msg = _re.sub(r'"assertion failed: [^"]*"', '"assertion failed"', msg)
            self.canon = ", ".join(ops) + "|" + msg
        else:
            self.canon = ", ".join(norm(b.canon(o, depth=KEY_DEPTH)) for o in raw_ops)
        # the guards in force at the site (the conditions it is control dependent on, in this function and — for a
        # closure — at the place that creates it) are part of its identity: a reviewed row argues from them, so a
        # changed guard makes the site a new, unreviewed one
        self.guards = guard_fingerprint(b, bb)
        self.key = "%s:%s#%s" % (fn_key(b), kind, h8(self.canon + "||" + self.guards))
        # for rows whose argument is about the operands' values alone (marked [any-guard] where the reasons are
        # written): the same site identified without its guards
        self.key_nog = "%s:%s#%s~" % (fn_key(b), kind, h8(self.canon))


def inventory(F, reach):
    out = []
    for fid in sorted(reach):
        b = F.bodies[fid]
        for bb in sorted(b.reachable()):
            t = b.term(bb)
            if t["k"] == "assert":
                msg = t["msg"]
                if msg.startswith(("MisalignedPointerDereference", "NullPointerDereference")):
                    continue  # compiler-inserted checks of invariants safe Rust guarantees
                ops = [norm(b.expr(o)) for o in t["ops"]]
                opty = ""
                # operand type: from the defining checked op
                cpl = op_place(t["cond"])
                if cpl is not None:
                    sd = b.single_def(cpl["l"])
                    if sd and sd[0] == "stmt":
                        opty = (sd[3].get("rv") or {}).get("opty", "")
                out.append(Site(b, bb, msg.replace("Overflow:", "").replace("Unchecked", ""), msg, ops, t["span"], t["exp"], t, opty,
                                raw_ops=t["ops"]))
            elif t["k"] == "call":
                pk = is_panicking_call(t)
                if pk is None:
                    continue
                kind, desc = pk
                if kind == "diverge":
                    ops = [short(callee_def(t))]
                    out.append(Site(b, bb, "diverge", desc, ops, t["span"], t["exp"], t, raw_ops=t["args"]))
                else:
                    ops = [norm(b.expr(a))[:70] for a in t["args"]]
                    out.append(Site(b, bb, kind, desc, ops, t["span"], t["exp"], t, raw_ops=t["args"]))
    return out


def short(p):
    return (p or "?").split("<")[0].split("::")[-1] if p else "?"


# ---------------------------------------------------------------------------------------------
# discharge
# ---------------------------------------------------------------------------------------------
def _cmp_guards(b, bb):
    """dominating comparisons: [(op, expr_a, expr_b, truth)] for switch edges that dominate bb"""
    out = []
    for a in b.reachable():
        if b.term(a)["k"] != "switch" or not b.dominates(a, bb) or a == bb:
            continue
        neg, src = b.switch_source(a)
        for s in b.succ(a):
            if not b.dominates(s, bb) and not unreachable_without_edges(b, bb, {(a, s)}):
                continue
            truth, src2 = edge_is_true(b, a, s)
            if truth is None or src2 is None:
                continue
            if src2[0] == "bin":
                out.append((src2[1]["bin"], norm(b.expr(src2[1]["a"])), norm(b.expr(src2[1]["b"])), truth))
            elif src2[0] == "call":
                m = callee_method(src2[1])
                args = [norm(b.expr(x)) for x in src2[1]["args"]]
                out.append(("call:" + str(m), args[0] if args else "", args[1] if len(args) > 1 else "", truth))
    return out


def implies_le(guards, small, big):
    """do the dominating guards imply small <= big ?"""
    for (op, ea, eb, truth) in guards:
        if ea == big and eb == small:
            if (op in ("Gt", "Ge") and truth) or (op in ("Lt", "Le") and not truth) or (op == "Lt" and not truth):
                return True
        if ea == small and eb == big:
            if (op in ("Lt", "Le") and truth) or (op in ("Gt", "Ge") and not truth):
                return True
    return False


def const_int(s):
    import re
    m = re.match(r"^(-?\d+)_(usize|u8|u16|u32|u64|i8|i16|i32|i64|isize)$", s)
    return int(m.group(1)) if m else None


def implies_ge_const(guards, ex, c):
    """guards imply ex >= c (c small positive const)"""
    for (op, ea, eb, truth) in guards:
        k = const_int(eb)
        if ea == ex and k is not None:
            if op == "Gt" and truth and k >= c - 1:
                return True
            if op == "Ge" and truth and k >= c:
                return True
            if op == "Ne" and truth and k == 0 and c == 1:
                return True
            if op == "Eq" and not truth and k == 0 and c == 1:
                return True
            if op == "Lt" and not truth and k >= c:
                return True
            if op == "Le" and not truth and k >= c - 1:
                return True
        k = const_int(ea)
        if eb == ex and k is not None:
            if op == "Lt" and truth and k >= c - 1:
                return True
            if op == "Le" and truth and k >= c:
                return True
    return False


def implies_ne_zero(guards, ex):
    for (op, ea, eb, truth) in guards:
        for x, y in ((ea, eb), (eb, ea)):
            if x == ex and const_int(y) == 0:
                if (op == "Eq" and not truth) or (op == "Ne" and truth) or (op == "Gt" and truth and x == ea):
                    return True
    return False


TYPE_MAX = {"u8": 255, "u16": 65535, "u32": 2**32 - 1, "u64": 2**64 - 1, "usize": 2**64 - 1,
            "i8": 127, "i16": 32767, "i32": 2**31 - 1, "i64": 2**63 - 1, "isize": 2**63 - 1}


def upper_bound(b, op, depth=6):
    """a sound upper bound of a non-negative integer operand from its defining expression alone: constants, masks
    (`x & m`), right shifts, narrowing/widening casts, or the maximum of its unsigned type; None for signed or unknown"""
    if depth <= 0:
        return None
    k = op_const(op)
    if k is not None:
        v = k.get("int")
        return v if isinstance(v, int) and v >= 0 else None
    pl = op_place(op)
    if pl is None:
        return None
    ty = pl.get("ty", "")
    tmax = TYPE_MAX.get(ty) if ty.startswith("u") else None
    if pl["p"]:
        return tmax
    sd = b.single_def(pl["l"])
    if not sd or sd[0] != "stmt":
        return tmax
    rv = sd[3].get("rv") or {}
    cands = [tmax] if tmax is not None else []
    if "use" in rv:
        u = upper_bound(b, rv["use"], depth - 1)
        if u is not None:
            cands.append(u)
    elif rv.get("bin") == "BitAnd":
        for side in ("a", "b"):
            u = upper_bound(b, rv[side], depth - 1)
            if u is not None:
                cands.append(u)
    elif rv.get("bin") == "Shr":
        u = upper_bound(b, rv["a"], depth - 1)
        kk = op_const(rv["b"])
        if u is not None:
            cands.append(u >> kk["int"] if kk and isinstance(kk.get("int"), int) and kk["int"] >= 0 else u)
    elif "cast" in rv and rv.get("kind") == "int_to_int":
        u = upper_bound(b, rv["cast"], depth - 1)
        src_unsigned = str(rv.get("from", "")).startswith("u")
        if u is not None and src_unsigned:
            # a truncating cast keeps values that already fit; otherwise only the target type's maximum is known
            if tmax is None or u <= tmax:
                cands.append(u)
    return min(cands) if cands else None


def discharge(F, mag, site):
    """returns (how, reason) or None"""
    b, bb, t = site.b, site.bb, site.term
    k = site.kind
    if t["k"] == "assert":
        ops = t["ops"]
        cls = [mag.cls_op(b, o) for o in ops]
        wide = site.opty in WIDE or site.opty == ""
        if k == "Add":
            if all(le_alloc(c) for c in cls) and wide:
                return ("D1", "operands %s in a 64-bit type: bounded by live memory (A1)" % "+".join(show(c) for c in cls))
        if k in ("Mul", "Add") and site.opty in TYPE_MAX:
            ubs = [upper_bound(b, o) for o in ops]
            if all(u is not None for u in ubs):
                tot = ubs[0] * ubs[1] if k == "Mul" else ubs[0] + ubs[1]
                if tot <= TYPE_MAX[site.opty]:
                    return ("D2", "interval bound: operands are at most %s, the result at most %d fits %s" % (ubs, tot, site.opty))
        if k == "Mul":
            consts = [const_int(e) for e in site.ops]
            if all(le_alloc(c) for c in cls) and wide and any(c is not None and abs(c) <= 64 for c in consts):
                return ("D1", "memory-bounded value times a small constant")
        if k == "Sub":
            g = _cmp_guards(b, bb)
            if len(site.ops) == 2 and site.ops[0].endswith("::MAX") and site.opty in ("usize", "u64"):
                return ("D2", "subtraction from the maximum value cannot underflow")
            if len(site.ops) == 2:
                # a - min(a, _)
                o = origin(b, ops[1])
                if o is not None and o[0] == "call" and callee_method(o[1]) == "min" and \
                        any(norm(b.expr(x)) == site.ops[0] for x in o[1]["args"]):
                    return ("D2", "subtrahend is min(%s, _)" % site.ops[0])
            if len(site.ops) == 2:
                if implies_le(g, site.ops[1], site.ops[0]):
                    return ("D2", "dominated by a comparison implying %s <= %s" % (site.ops[1], site.ops[0]))
                c = const_int(site.ops[1])
                if c is not None and c > 0 and implies_ge_const(g, site.ops[0], c):
                    return ("D2", "dominated by a comparison implying %s >= %d" % (site.ops[0], c))
        if k in ("DivisionByZero", "RemainderByZero"):
            # the assert carries the dividend; the divisor is the operand compared with 0 in the condition
            div = None
            cpl = op_place(t["cond"])
            if cpl is not None:
                sd = b.single_def(cpl["l"])
                if sd and sd[0] == "stmt" and (sd[3].get("rv") or {}).get("bin") == "Eq":
                    div = sd[3]["rv"]["a"]
            if div is not None:
                dn = norm(b.expr(div))
                dx = norm(b.expr_top(div, expand_named=True))
                c = const_int(dx)
                if c is not None and c != 0:
                    return ("D2", "non-zero constant divisor %d" % c)
                g = _cmp_guards(b, bb)
                if implies_ge_const(g, dn, 1) or implies_ne_zero(g, dn):
                    return ("D2", "dominated by a test that the divisor %s is non-zero" % dn)
        if k in ("Shr", "Shl"):
            c = const_int(site.ops[1]) if len(site.ops) > 1 else None
            if c is not None and 0 <= c < 32:
                return ("D2", "constant shift amount %d" % c)
        return None
    # arithmetic through operator traits
    if k in ("Add", "Sub", "Mul", "Div", "Rem"):
        cls = [mag.cls_op(b, a) for a in t["args"]]
        sty = ((t.get("callee") or {}).get("self_ty") or "").lstrip("&")
        wide = sty in WIDE
        g = _cmp_guards(b, bb)
        if k == "Add" and all(le_alloc(c) for c in cls) and wide:
            return ("D1", "operands memory-bounded in a 64-bit type (A1)")
        if k == "Sub" and len(site.ops) == 2 and implies_le(g, site.ops[1], site.ops[0]):
            return ("D2", "dominated by a comparison implying %s <= %s" % (site.ops[1], site.ops[0]))
        return None
    # calls
    if k in ("unwrap", "expect"):
        o = origin(b, {"c": direct_place(b, t["args"][0])} if False else t["args"][0])
        # built Some / Ok on the spot
        src = op_place(t["args"][0])
        g = _cmp_guards(b, bb)
        recv = norm(b.expr(t["args"][0]))
        for (op, ea, eb, truth) in g:
            if op in ("call:is_some", "call:is_ok") and truth and ea.lstrip("&") == recv.lstrip("&"):
                return ("D2", "dominated by is_some()/is_ok()")
    if k == "sum" or k == "product":
        # class of the summed items = class of the call's receiver chain
        c = mag.cls_op(b, t["args"][0])
        if le_alloc(c) and k == "sum":
            return ("D1", "sum of memory-bounded values (A1)")
    if k in ("repeat", "from_elem"):
        idx = 1
        c = mag.cls_op(b, t["args"][idx]) if len(t["args"]) > idx else TOP
        if le_alloc(c):
            return ("D1", "count is memory-bounded (%s)" % show(c))
    if k == "index" and len(site.ops) > 1 and site.ops[1] == "ops::RangeFrom{1_usize}":
        recv = site.ops[0]
        sty = ((t.get("callee") or {}).get("self_ty") or "")
        if "str" in sty or "str" in (callee_def(t) or ""):
            # s[1..] on a str is total when the first char is a one-byte char: dominated by a match of that char
            # against ASCII constants
            for a in b.reachable():
                tt = b.term(a)
                if tt["k"] != "switch" or tt["ty"] != "char" or not b.dominates(a, bb):
                    continue
                tgts = [(v, tb) for v, tb in tt["targets"] if b.dominates(tb, bb) or tb == bb]
                if tgts and all(v < 128 for v, _ in tgts) and not b.dominates(tt["otherwise"], bb):
                    return ("D2", "first char matched against ASCII constant(s) %s: one byte" % sorted(chr(v) for v, _ in tgts)[:6])
        else:
            # slice[1..] needs a non-empty slice: dominated by the Some edge of `slice.first()`
            for a in b.reachable():
                tt = b.term(a)
                if tt["k"] != "switch" or not b.dominates(a, bb):
                    continue
                neg, src = b.switch_source(a)
                if src[0] == "discr":
                    sd = b.single_def(src[1]["l"])
                    if sd and sd[0] == "call" and callee_method(sd[2]) in ("first", "split_first", "last") and \
                            norm(b.expr(sd[2]["args"][0])).lstrip("&") == recv.lstrip("&"):
                        some = [tb for v, tb in tt["targets"] if v == 1]
                        if some and b.dominates(some[0], bb):
                            return ("D2", "dominated by the Some edge of %s.first()" % recv)
    if k in ("insert", "insert_str") and len(site.ops) > 1 and site.ops[1] == "0_usize":
        return ("D2", "index 0 is always in bounds (and a char boundary)")
    if k == "drain" and len(site.ops) > 1 and site.ops[1] == "ops::RangeFull{}":
        return ("D2", "full range")
    if k in ("index", "index_mut"):
        # index into a Vec/slice by a loop variable of 0..len or enumerate of the same collection is not recognised
        # automatically; RangeFull on strings is total
        if len(t["args"]) > 1 and "RangeFull" in (op_place(t["args"][1]) or {}).get("ty", ""):
            return ("D2", "full range")
    return None


def load_table():
    """tables/panic_sites.txt: `site key [xN] :: readable site text :: invariant / reason`.  One reviewed row per key;
    xN (default 1) is the number of sites with that key that were reviewed — several sites of one function can have
    the same kind and the same canonical operands; a further one is not covered by the row."""
    import os
    import re
    from .facts import VERIF
    rows = {}
    p = os.path.join(VERIF, "tables", "panic_sites.txt")
    if os.path.exists(p):
        for line in open(p):
            line = line.rstrip("\n")
            if not line.strip() or line.startswith("#"):
                continue
            parts = line.split(" :: ")
            if len(parts) >= 3:
                k = parts[0].strip()
                n = 1
                m = re.fullmatch(r"(.*) x(\d+)", k)
                if m:
                    k, n = m.group(1), int(m.group(2))
                rows[k] = (parts[-1].strip(), n)
    return rows


def shared_borrow_rule(F, roots):
    """RefCell::borrow() panics only while a mutable borrow of the same cell is live.  If no borrow_mut of a DOM
    cell is reachable from the rendering entry points (everything except html5ever's TreeSink callbacks and
    Node::drop, which run during parsing / destruction), shared borrows taken while rendering cannot conflict.
    Returns (ok, set of body ids that are render-phase)."""
    render_roots_only = [r for r in roots if "TreeSink>::" not in r and "Node as std::ops::Drop" not in r
                         and not r.endswith("parse_html")]
    reach = F.reachable_from(render_roots_only)
    muts = []
    for fid in reach:
        b = F.bodies[fid]
        for bb, t in b.calls(lambda cd, t: callee_method(t) == "borrow_mut" and "RefCell" in (callee_def(t) or "")):
            muts.append((fid, t["span"]))
    return (not muts, reach, muts)
