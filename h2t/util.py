"""Helpers shared by the property modules."""
from .facts import (AnchorMissing, callee_decl, callee_def, op_const, op_place, place_fields,
                    short_path, is_bare)

RENDERER = "render::text_renderer::"
SUBR = "render::text_renderer::SubRenderer"
TEXTR = "render::text_renderer::TextRenderer"
RTRAIT = "<render::text_renderer::SubRenderer<D> as render::Renderer>::"


def norm_callee(name):
    """`<A as B>::m` -> `B::m` (trait-qualified paths lose their Self type)"""
    if name and name.startswith("<") and " as " in name:
        depth = 0
        for i, ch in enumerate(name):
            if ch == "<":
                depth += 1
            elif ch == ">":
                depth -= 1
                if depth == 0:
                    inner = name[1:i]
                    # split at the top-level " as "
                    d2 = 0
                    for j in range(len(inner)):
                        if inner[j] == "<":
                            d2 += 1
                        elif inner[j] == ">":
                            d2 -= 1
                        elif d2 == 0 and inner[j:j + 4] == " as ":
                            return inner[j + 4:] + name[i + 1:]
                    break
    return name


def ends(name, *sufs):
    if name is None:
        return False
    nn = norm_callee(name)
    for s in sufs:
        for n in (name, nn):
            if n == s or n.endswith("::" + s) or n.endswith(s):
                return True
    return False


def find_dispatch(b, ty_suffix, min_targets=3, after=None):
    """The switch on the discriminant of a place whose type ends with ty_suffix that dominates all
    other such switches (the `match`, not the drop ladders that drop elaboration adds later)."""
    cands = []
    for a in sorted(b.reachable()):
        t = b.term(a)
        if t["k"] != "switch" or len(t["targets"]) < min_targets:
            continue
        neg, src = b.switch_source(a)
        if src[0] == "discr" and src[1]["ty"].endswith(ty_suffix):
            if after is None or b.dominates(after, a):
                cands.append(a)
    for c in cands:
        if all(b.dominates(c, o) for o in cands):
            return c
    raise AnchorMissing("no dominating dispatch on %s in %s" % (ty_suffix, b.id))


def is_callee(t, *names):
    """call terminator's resolved callee (or declared callee) ends with one of names"""
    return ends(callee_def(t), *names) or ends(callee_decl(t), *names)


def callee_method(t):
    c = t.get("callee") or {}
    return c.get("method") or (c.get("def", "").split("::")[-1])


def callee_self(t):
    c = t.get("callee") or {}
    return c.get("self_ty", "")


def field_accesses(F, owner, name):
    """[(body, bb, where, place, access)] for each mention of field `owner.name` (owner = ADT
    path, matched by suffix) in reachable, non-cleanup code of all bodies."""
    out = []
    for b in F.bodies.values():
        for (bb, where, pl, acc) in b.all_places():
            for e in pl["p"]:
                if isinstance(e, dict) and "f" in e and e["n"] == name and ends(e["o"], owner):
                    out.append((b, bb, where, pl, acc))
                    break
    return out


def site(b, bb, where=None):
    if where and where[0] == "stmt":
        return b.stmts(bb)[where[1]]["span"]
    return b.term(bb)["span"]


_ROLE_CACHE = {}


def closure_role(b):
    """content-based name of a closure (positional indices must not be part of a key): the variants of
    crate-local enums/structs it constructs and the crate-local functions it calls, sorted, first four."""
    k = (id(b.facts), b.id)
    if k in _ROLE_CACHE:
        return _ROLE_CACHE[k]
    items = set()
    for bb in b.reachable():
        for st in b.stmts(bb):
            rv = st.get("rv") or {}
            if rv.get("agg") == "adt" and rv.get("adt") in b.facts.adts and not rv["adt"].startswith("std::"):
                nm = rv.get("variant") or rv["adt"].split("::")[-1]
                if nm not in ("Ok", "Err", "Some", "None"):
                    items.add("+" + nm)
        t = b.term(bb)
        if t["k"] == "call":
            c = t.get("callee") or {}
            if c.get("local") or c.get("resolved_local"):
                m = c.get("method") or c.get("def", "").split("::")[-1]
                if m not in ("deref", "deref_mut", "clone", "default", "new", "new_styled", "from", "nop"):
                    items.add(m)
    role = ",".join(sorted(items)[:4])
    _ROLE_CACHE[k] = role
    return role


def fn_key(b):
    """stable function key: closures are named by their root function plus a content-based role
    (closure indices are positional and must not be part of a key)."""
    if b.kind == "Closure":
        r = closure_role(b)
        return b.root + "::{closure" + (":" + r if r else "") + "}"
    return b.id


def consumer_of_ref(b, bb, where, local):
    """If statement `where` in bb defines temp `local` = &[mut] place, find the call in which the
    temp (or a reborrow/copy of it) is used as an argument.  Returns (bb2, term, argidx) or None."""
    seen = {local}
    work = [local]
    # follow simple copies / reborrows forward
    while work:
        l = work.pop()
        for bb2 in sorted(b.reachable()):
            for st in b.stmts(bb2):
                if st["k"] != "assign":
                    continue
                rv = st["rv"]
                src = None
                if "use" in rv:
                    src = op_place(rv["use"])
                elif "ref" in rv:
                    src = rv["ref"]
                elif "cast" in rv:
                    src = op_place(rv["cast"])
                if src is not None and src["l"] == l and is_bare(st["lhs"]) and st["lhs"]["l"] not in seen:
                    # only reborrows (*l) / plain copies; a field projection is a different place
                    if all(e == "*" for e in src["p"]):
                        seen.add(st["lhs"]["l"])
                        work.append(st["lhs"]["l"])
            t = b.term(bb2)
            if t["k"] == "call":
                for ai, a in enumerate(t["args"]):
                    pl = op_place(a)
                    if pl and pl["l"] == l and all(e == "*" for e in pl["p"]):
                        return (bb2, t, ai)
    return None


def arg_atoms(b, t, idx, **kw):
    return b.atoms(t["args"][idx], **kw)


def calls_named(b, *names):
    return b.calls(lambda cd, t: is_callee(t, *names))


def const_of(op):
    k = op_const(op)
    return k


def closure_bodies_created_in(F, b):
    out = []
    for (bb, i, cdef, ops, fields) in b.closures_created():
        cb = F.bodies.get(cdef)
        if cb is not None:
            out.append((bb, i, cb, ops, fields))
    return out


def transitive_closures(F, b):
    """all closure bodies created (transitively) inside body b, with the creating block in b's
    own CFG for the outermost level: [(bb_in_b, closure_body)]"""
    out = []
    for (bb, i, cb, ops, fields) in closure_bodies_created_in(F, b):
        out.append((bb, cb))
        for (_bb2, cb2) in transitive_closures(F, cb):
            out.append((bb, cb2))
    return out


def returns_blocks(b):
    return [bb for bb in b.reachable() if b.term(bb)["k"] == "return"]


def switch_edge_value(b, a, s):
    """value(s) of the switch in block a that lead to successor s: list of ints, or
    ('otherwise', [listed values])"""
    t = b.term(a)
    vals = [v for v, tb in t["targets"] if tb == s]
    if vals:
        return vals
    if t["otherwise"] == s:
        return ("otherwise", [v for v, _ in t["targets"]])
    return None


def edge_is_true(b, a, s):
    """For a bool switch in block a: does edge a->s correspond to the *source* condition being
    true (taking `Not` chains into account)?  Returns (truth, source) or (None, source)."""
    t = b.term(a)
    if t["k"] != "switch":
        return (None, None)
    neg, src = b.switch_source(a)
    ev = switch_edge_value(b, a, s)
    if ev is None:
        return (None, src)
    if isinstance(ev, tuple):
        listed = ev[1]
        if listed == [0]:
            val = True
        elif listed == [1]:
            val = False
        else:
            return (None, src)
    else:
        if ev == [0]:
            val = False
        elif ev == [1]:
            val = True
        else:
            return (None, src)
    if neg:
        val = not val
    return (val, src)


def src_field(src):
    """(owner, name) of the last field projection if the switch source is a place"""
    if src and src[0] == "place":
        fs = place_fields(src[1])
        if fs:
            return fs[-1]
    return None


def controlled_by_field(b, bb, owner, name, want_true=None):
    """Is block bb (transitively) control dependent on a switch whose source is a read of field
    owner.name?  If want_true is given, the edge must be the true/false edge.  Returns list of
    matching (branch_block, succ, truth)."""
    out = []
    for (a, s) in b.cdeps_transitive(bb):
        truth, src = edge_is_true(b, a, s)
        f = src_field(src)
        if f and f[1] == name and ends(f[0], owner):
            if want_true is None or truth == want_true:
                out.append((a, s, truth))
    return out


def field_true_edges(b, owner, name):
    """edges that imply `owner.name` is true: the true edge of a switch on a read of the field, or — data form of
    `c && self.field` — of a switch on a bool local whose every definition is a read of the field or the constant false"""
    cut = set()
    for a in b.reachable():
        t = b.term(a)
        if t["k"] != "switch":
            continue
        neg, src = b.switch_source(a)
        f = src_field(src)
        okf = bool(f and f[1] == name and ends(f[0], owner))
        if not okf and src and src[0] == "place" and is_bare(src[1]) and b.local_ty(src[1]["l"]) == "bool" and not neg:
            ds = [r for r in b.defs()[src[1]["l"]] if r[1] in b.reachable()]
            reads, others = [], []
            for r in ds:
                rv = (r[3].get("rv") or {}) if r[0] == "stmt" else {}
                pl = op_place(rv["use"]) if "use" in rv else None
                k = op_const(rv["use"]) if "use" in rv else None
                fs = place_fields(pl) if pl is not None else []
                if fs and fs[-1][1] == name and ends(fs[-1][0], owner):
                    reads.append(r)
                elif k is not None and k.get("ty") == "bool" and k.get("v") == "false":
                    pass
                else:
                    others.append(r)
            okf = bool(reads) and not others
        if okf:
            for s in b.succ(a):
                truth, _ = edge_is_true(b, a, s)
                if truth is True:
                    cut.add((a, s))
    return cut


def dominated_by_true_edge(b, bb, owner, name, want_true=True):
    """Stronger than control dependence: every path from entry to bb passes the want_true edge of
    a switch on field owner.name.  Implemented as: bb unreachable from entry once those edges
    are cut."""
    cut = set()
    for a in b.reachable():
        t = b.term(a)
        if t["k"] != "switch":
            continue
        neg, src = b.switch_source(a)
        f = src_field(src)
        if not f and want_true and src and src[0] == "place" and is_bare(src[1]) and b.local_ty(src[1]["l"]) == "bool":
            # data form of `c && self.field`: a bool local whose every definition is either a read of the field or the
            # constant false — its true edge implies the field
            ds = [r for r in b.defs()[src[1]["l"]] if r[1] in b.reachable()]
            reads, others = [], []
            for r in ds:
                rv = (r[3].get("rv") or {}) if r[0] == "stmt" else {}
                pl = op_place(rv["use"]) if "use" in rv else None
                k = op_const(rv["use"]) if "use" in rv else None
                fs = place_fields(pl) if pl is not None else []
                if fs and fs[-1][1] == name and ends(fs[-1][0], owner):
                    reads.append(r)
                elif k is not None and k.get("ty") == "bool" and k.get("v") == "false":
                    pass
                else:
                    others.append(r)
            if reads and not others and not neg:
                f = (owner, name)
        if f and f[1] == name and ends(f[0], owner):
            for s in b.succ(a):
                truth, _ = edge_is_true(b, a, s)
                if truth == want_true:
                    cut.add((a, s))
    if not cut:
        return False
    seen = set()
    st = [0]
    while st:
        x = st.pop()
        if x in seen:
            continue
        seen.add(x)
        if x == bb:
            return False
        for s in b.succ(x):
            if (x, s) in cut or b.is_cleanup(s):
                continue
            st.append(s)
    return True


def require(cond, msg):
    if not cond:
        raise AnchorMissing(msg)


def deep_atoms(F, b, start, depth=4, **kw):
    """atoms of `start` in body b, continued through closure captures into the creating body:
    an ('upvar', name) atom of a closure body is expanded with the atoms of the operand captured
    for `name` at every site that constructs the closure."""
    at = set(b.atoms(start, **kw))
    if depth <= 0 or b.kind != "Closure":
        return at
    ups = {a[1] for a in at if a[0] == "upvar"}
    if not ups:
        return at
    parent = F.bodies.get(b.parent)
    if parent is None:
        return at
    for (bb, i, cdef, ops, fields) in parent.closures_created():
        if cdef != b.id:
            continue
        for name in ups:
            if name in fields:
                op = ops[fields.index(name)]
                at |= {("via_upvar",) + tuple(x) for x in ()}
                at |= deep_atoms(F, parent, op, depth - 1, **kw)
    return at


def has_call(at, *sufs):
    return any(a[0] == "call" and ends(a[1], *sufs) for a in at)


def has_field(at, owner, name):
    return any(a[0] == "field" and a[2] == name and ends(a[1], owner) for a in at)


def unreachable_without_edges(b, bb, cut):
    """True iff every path from entry to bb uses one of the edges in `cut` (set of (a, s))."""
    if not cut:
        return False
    seen = set()
    st = [0]
    while st:
        x = st.pop()
        if x in seen:
            continue
        seen.add(x)
        if x == bb:
            return False
        for s in b.succ(x):
            if (x, s) in cut or b.is_cleanup(s):
                continue
            st.append(s)
    return True


def edges_where(b, pred):
    """edges (a, s) of bool-like switches for which pred(truth, src, a, s) holds"""
    out = set()
    for a in b.reachable():
        if b.term(a)["k"] != "switch":
            continue
        for s in b.succ(a):
            truth, src = edge_is_true(b, a, s)
            if pred(truth, src, a, s):
                out.add((a, s))
    return out


def final_uses(b, l, depth=8):
    """Forward uses of bare local l, following plain copies/moves and `Not`:
    [(kind, bb, detail)] with kind in 'switch' | 'callarg' | 'agg' | 'bin' | 'store' | 'ret' | 'cast' | 'ref'"""
    out = []
    seen = set()
    work = [(l, False)]
    while work:
        cur, neg = work.pop()
        if cur in seen:
            continue
        seen.add(cur)
        for bb in sorted(b.reachable()):
            for i, st in enumerate(b.stmts(bb)):
                if st["k"] != "assign":
                    continue
                rv = st["rv"]
                def is_cur(op):
                    pl = op_place(op) if op else None
                    return pl is not None and is_bare(pl) and pl["l"] == cur
                if "use" in rv and is_cur(rv["use"]):
                    if is_bare(st["lhs"]):
                        if st["lhs"]["l"] == 0:
                            out.append(("ret", bb, st))
                        else:
                            work.append((st["lhs"]["l"], neg))
                    else:
                        out.append(("store", bb, st))
                elif "un" in rv and is_cur(rv["a"]):
                    if rv["un"] == "Not" and is_bare(st["lhs"]):
                        work.append((st["lhs"]["l"], not neg))
                    else:
                        out.append(("un", bb, st))
                elif "bin" in rv and (is_cur(rv["a"]) or is_cur(rv["b"])):
                    out.append(("bin", bb, st))
                elif "cast" in rv and is_cur(rv["cast"]):
                    out.append(("cast", bb, st))
                elif "agg" in rv:
                    for oi, o in enumerate(rv["ops"]):
                        if is_cur(o):
                            out.append(("agg", bb, (st, oi)))
                elif "ref" in rv and rv["ref"]["l"] == cur:
                    out.append(("ref", bb, st))
            t = b.term(bb)
            if t["k"] == "switch":
                pl = op_place(t["discr"])
                if pl is not None and is_bare(pl) and pl["l"] == cur:
                    out.append(("switch", bb, neg))
            elif t["k"] == "call":
                for ai, a in enumerate(t["args"]):
                    pl = op_place(a)
                    if pl is not None and is_bare(pl) and pl["l"] == cur:
                        out.append(("callarg", bb, (t, ai)))
            elif t["k"] == "assert":
                pl = op_place(t["cond"])
                if pl is not None and is_bare(pl) and pl["l"] == cur:
                    out.append(("assert", bb, t))
    return out


def field_reads(F, owner, name):
    """Reads of field owner.name: [(body, bb, stmt_or_None, dest_local_or_None, access)] — for a read
    by copy into a local the destination local is given so that its uses can be followed."""
    out = []
    for (b, bb, where, pl, acc) in field_accesses(F, owner, name):
        if acc not in ("read", "move", "ref", "discr"):
            continue
        last = [e for e in pl["p"] if isinstance(e, dict) and "f" in e][-1]
        if last["n"] != name:
            continue  # a sub-field of the option field: not the field itself
        dest = None
        st = None
        if where[0] == "stmt":
            st = b.stmts(bb)[where[1]]
            if st["k"] == "assign" and is_bare(st["lhs"]):
                dest = st["lhs"]["l"]
        out.append((b, bb, where, st, dest, acc))
    return out


def agg_operand_index(st, owner, name):
    """index of the operand of an aggregate statement (`S { f: move x.f, ..x }`, struct-update syntax) that reads the
    field owner.name directly, or None"""
    rv = (st or {}).get("rv") or {}
    if st is None or st.get("k") != "assign" or "agg" not in rv:
        return None
    for oi, o in enumerate(rv.get("ops", [])):
        pl = op_place(o)
        if pl is None:
            continue
        fs = [e for e in pl["p"] if isinstance(e, dict) and "f" in e]
        if fs and fs[-1]["n"] == name and ends(fs[-1]["o"], owner):
            return oi
    return None


def direct_place(b, op, depth=12):
    """Follow single-definition copies, moves, reborrows and casts from an operand back to the place it
    denotes (no slicing): returns the place or None.  Steps through `*r` when r is a single-definition reference to a
    place, and through a field of a single-definition aggregate (tuple, struct literal, closure environment: a
    captured variable resolves to what the creating code captured)."""
    pl = op_place(op) if isinstance(op, dict) and ("c" in op or "m" in op) else op
    if isinstance(pl, dict) and "p" not in pl:
        return None  # a constant operand
    while pl is not None and depth > 0:
        depth -= 1
        p = pl["p"]
        sd = b.single_def(pl["l"]) if pl["l"] > b.arg_count else None
        rv = (sd[3].get("rv") or {}) if (sd and sd[0] == "stmt" and not sd[3]["lhs"]["p"]) else {}
        if p and p[0] == "*" and "ref" in rv:
            pl = {"l": rv["ref"]["l"], "p": list(rv["ref"]["p"]) + list(p[1:]), "ty": pl.get("ty", "")}
            continue
        if p and p[0] == "*" and "use" in rv and op_place(rv["use"]) is not None and not b.local_name(pl["l"]):
            src = op_place(rv["use"])
            pl = {"l": src["l"], "p": list(src["p"]) + list(p), "ty": pl.get("ty", "")}
            continue
        if p and isinstance(p[0], dict) and "f" in p[0] and rv.get("agg") in ("tuple", "closure", "adt") and \
                p[0]["f"] < len(rv.get("ops", ())) and not b.has_partial_writes(pl["l"]) and "vi" not in rv:
            o = rv["ops"][p[0]["f"]]
            npl = op_place(o)
            if npl is None:
                return None
            pl = {"l": npl["l"], "p": list(npl["p"]) + list(p[1:]), "ty": pl.get("ty", "")}
            continue
        if any(isinstance(e, dict) and "f" in e for e in p):
            return pl
        if not sd or sd[0] != "stmt" or b.local_name(pl["l"]):
            return pl
        if p:
            return pl
        if "ref" in rv:
            pl = rv["ref"]
        elif "use" in rv and op_place(rv["use"]) is not None:
            pl = op_place(rv["use"])
        elif "cast" in rv and op_place(rv["cast"]) is not None:
            pl = op_place(rv["cast"])
        else:
            return pl
    return pl


def storage_roots(b, pl, _seen=None):
    """Field-sensitive backward trace over *all* definitions: the set of (local, projection-repr) storage places a
    place may denote, stepping through copies, moves, casts, reborrows and the matching operand of tuple / struct /
    enum-variant literals (`Some((a, b))` matched back apart gives a and b separately, which atoms() cannot)."""
    seen = _seen if _seen is not None else set()
    key = (pl["l"], repr(pl["p"]))
    if key in seen:
        return set()
    seen.add(key)
    l, p = pl["l"], list(pl["p"])
    me = {(l, b.expr({"l": l, "p": p}))}
    if l <= b.arg_count:
        return me
    ds = [r for r in b.defs()[l] if r[1] in b.reachable()]
    whole = [r for r in ds if r[0] == "stmt" and not r[3]["lhs"]["p"]]
    if not whole or len(whole) != len([r for r in ds if r[0] != "mutcall"]):
        return me
    out = set()
    for r in whole:
        rv = r[3].get("rv") or {}
        src = None
        if "use" in rv or "cast" in rv:
            sp = op_place(rv.get("use") or rv.get("cast"))
            if sp is None:
                continue
            src = {"l": sp["l"], "p": list(sp["p"]) + p}
        elif "ref" in rv:
            if not p or p[0] != "*":
                out |= me
                continue
            src = {"l": rv["ref"]["l"], "p": list(rv["ref"]["p"]) + p[1:]}
        elif rv.get("agg") in ("tuple", "adt", "closure"):
            rest = list(p)
            dc = None
            while rest and isinstance(rest[0], dict) and "dc" in rest[0]:
                dc = rest.pop(0)
            if not rest or not isinstance(rest[0], dict) or "f" not in rest[0]:
                out |= me
                continue
            if dc is not None and "vi" in rv and dc.get("vi") != rv["vi"]:
                continue  # a different variant: this definition cannot reach a read of that variant's field
            f = rest[0]["f"]
            if f >= len(rv.get("ops", ())):
                out |= me
                continue
            sp = op_place(rv["ops"][f])
            if sp is None:
                continue
            src = {"l": sp["l"], "p": list(sp["p"]) + rest[1:]}
        else:
            out |= me
            continue
        out |= storage_roots(b, src, seen)
    return out


def direct_field(b, op):
    pl = direct_place(b, op)
    if pl is None:
        return None
    fs = place_fields(pl)
    return fs[-1] if fs else None


def effects_in(b, blocks):
    """side effects in the given blocks: calls (method names) and stores through references/fields of
    non-temporary places: [('call', name, span) | ('store', place-expr, span)]"""
    out = []
    for x in blocks:
        for st in b.stmts(x):
            if st["k"] == "assign" and st["lhs"]["p"] and st["lhs"]["p"][0] == "*":
                out.append(("store", b.expr(st["lhs"]), st["span"]))
        t = b.term(x)
        if t["k"] == "call":
            out.append(("call", callee_method(t) or str(callee_def(t)), t["span"]))
    return out


TRANSPARENT = ("branch", "unwrap", "expect", "unwrap_or_default", "into", "from", "clone", "deref", "to_owned")


def origin(b, op, depth=16):
    """Trace an operand back through single definitions — copies, casts, downcast/field reads of
    temporaries, `?` (Try::branch), unwrap/expect, clone — to what produced it:
    ('call', term) | ('place', place) | ('const', k) | ('rv', rvalue) | None.  No slicing: flow-sensitive
    enough for 'this argument is the result of that call'."""
    pl = op_place(op) if isinstance(op, dict) and ("c" in op or "m" in op) else (op if isinstance(op, dict) and "l" in op else None)
    if pl is None:
        k = op_const(op) if isinstance(op, dict) else None
        return ("const", k) if k is not None else None
    while depth > 0:
        depth -= 1
        fs = [e for e in pl["p"] if isinstance(e, dict) and "f" in e]
        named_field = [e for e in fs if not e["o"].startswith(("std::ops::ControlFlow", "std::option::Option", "std::result::Result", "tuple"))]
        if named_field:
            return ("place", pl)
        sd = b.single_def(pl["l"])
        if sd is None:
            return ("place", pl)
        if sd[0] == "arg":
            return ("place", pl)
        if sd[0] == "call":
            t = sd[2]
            if callee_method(t) in TRANSPARENT and t["args"]:
                nxt = op_place(t["args"][0])
                if nxt is None:
                    return ("const", op_const(t["args"][0]))
                pl = nxt
                continue
            return ("call", t)
        st = sd[3]
        rv = st.get("rv") or {}
        if "use" in rv:
            nxt = op_place(rv["use"])
            if nxt is None:
                return ("const", op_const(rv["use"]))
            pl = nxt
        elif "ref" in rv:
            pl = rv["ref"]
        elif "cast" in rv and op_place(rv["cast"]) is not None:
            pl = op_place(rv["cast"])
        else:
            return ("rv", rv)
    return None


def reach_with_bool_consts(b, start, stop=()):
    """blocks reachable from `start` when bool temporaries that were assigned a constant on the way decide the
    switches on them (the shape of `matches!(x, A | B)` followed by `if`): returns the set of blocks.  Exploration
    stops at blocks in `stop` (e.g. the loop header) and never enters cleanup blocks."""
    from .facts import op_const as _oc
    seen = set()
    out = set()
    work = [(start, ())]
    while work:
        bb, known = work.pop()
        key = (bb, known)
        if key in seen or bb in stop:
            continue
        seen.add(key)
        out.add(bb)
        kn = dict(known)
        for st in b.stmts(bb):
            if st["k"] == "assign" and not st["lhs"]["p"]:
                l = st["lhs"]["l"]
                rv = st.get("rv") or {}
                k = _oc(rv["use"]) if "use" in rv else None
                if k is not None and k.get("ty") == "bool":
                    kn[l] = 1 if k.get("v") == "true" else 0
                elif l in kn:
                    del kn[l]
        t = b.term(bb)
        if t["k"] == "call" and not t["dest"]["p"] and t["dest"]["l"] in kn:
            del kn[t["dest"]["l"]]
        nxt = None
        if t["k"] == "switch":
            neg, src = b.switch_source(bb)
            if src[0] == "place" and is_bare(src[1]) and src[1]["l"] in kn:
                v = kn[src[1]["l"]]
                v = (1 - v) if neg else v
                tb = [x for val, x in t["targets"] if val == v]
                nxt = [tb[0]] if tb else ([t["otherwise"]] if t["otherwise"] is not None else [])
        if nxt is None:
            nxt = [s for s in b.succ(bb) if not b.is_cleanup(s)]
        fk = tuple(sorted(kn.items()))
        for s in nxt:
            work.append((s, fk))
    return out
