"""Behaviour-preserving edits of /repo (applied to scratch copies only): every claimed check must stay silent."""
LIB = "src/lib.rs"
TR = "src/render/text_renderer.rs"
CSS = "src/css.rs"
PARSER = "src/css/parser.rs"
ALL = ["C01", "C02", "C03", "C05", "C06", "C07", "C08", "C09", "C10", "C11", "C14", "C15", "C16", "C17", "C18", "C19", "C20"]

BENIGN = [
    dict(name="benign:comments-and-blank-lines", props=ALL, edits=[
        (LIB, "#![deny(missing_docs)]", "#![deny(missing_docs)]\n\n// a comment\n// another comment\n\n"),
        (TR, "use crate::Colour;", "// shifted by a few lines\n\n\nuse crate::Colour;"),
        (CSS, "//! Some basic CSS support.", "//! Some basic CSS support.\n//!\n//! (more documentation)\n"),
    ]),
    dict(name="benign:rename-local-in-width_minus", props=["C01", "C02", "C07", "C11"], edits=[
        (TR, "        let new_width = self.width.saturating_sub(prefix_len);\n        if new_width < min_width && !self.options.allow_width_overflow {\n            return Err(TooNarrow);\n        }\n        Ok(new_width.max(min_width))",
         "        let remaining = self.width.saturating_sub(prefix_len);\n        if remaining < min_width && !self.options.allow_width_overflow {\n            return Err(TooNarrow);\n        }\n        Ok(remaining.max(min_width))"),
    ]),
    dict(name="benign:swap-comparison-direction", props=["C01", "C02", "C15"], edits=[
        (TR, "        if width > my_width {\n            self.push_ws(width - my_width, tag);\n        }", "        if my_width < width {\n            self.push_ws(width - my_width, tag);\n        }"),
    ]),
    dict(name="benign:reorder-match-arms", props=["C01", "C03", "C09", "C14"], edits=[
        (LIB, "        Em(children) => {\n            renderer.start_emphasis()?;\n            pending2(children, |renderer: &mut TextRenderer<D>, _| {\n                renderer.end_emphasis()?;\n                pushed_style.unwind(renderer);\n                Ok(Some(None))\n            })\n        }\n        Strong(children) => {\n            renderer.start_strong()?;\n            pending2(children, |renderer: &mut TextRenderer<D>, _| {\n                renderer.end_strong()?;\n                pushed_style.unwind(renderer);\n                Ok(Some(None))\n            })\n        }",
         "        Strong(children) => {\n            renderer.start_strong()?;\n            pending2(children, |renderer: &mut TextRenderer<D>, _| {\n                renderer.end_strong()?;\n                pushed_style.unwind(renderer);\n                Ok(Some(None))\n            })\n        }\n        Em(children) => {\n            renderer.start_emphasis()?;\n            pending2(children, |renderer: &mut TextRenderer<D>, _| {\n                renderer.end_emphasis()?;\n                pushed_style.unwind(renderer);\n                Ok(Some(None))\n            })\n        }"),
    ]),
    dict(name="benign:match-to-if-let", props=["C01", "C03", "C14"], edits=[
        (TR, "        if let Str(ts) = tle {\n            self.push_str(ts);\n        } else {\n            self.v.push(tle);\n        }", "        match tle {\n            Str(ts) => self.push_str(ts),\n            other => self.v.push(other),\n        }"),
    ]),
    dict(name="benign:new-unrelated-function", props=ALL, edits=[
        (LIB, "const MIN_WIDTH: usize = 3;", "const MIN_WIDTH: usize = 3;\n\n#[allow(dead_code)]\nfn total_len(parts: &[String]) -> usize {\n    let mut n = 0;\n    for p in parts {\n        n += p.len() + 1;\n    }\n    n\n}\n"),
    ]),
    dict(name="benign:new-safe-arithmetic-on-route", props=["C01", "C10", "C15"], edits=[
        (LIB, "    let tot_size: usize = col_sizes.iter().map(|est| est.size).sum();", "    let tot_size: usize = col_sizes.iter().map(|est| est.size).sum();\n    let _ncols_plus_one = col_sizes.len() + 1;"),
    ]),
    dict(name="benign:extract-helper-for-footnote-text", props=["C08", "C01", "C10"], edits=[
        (TR, "            let footnote_num = self.links.len();\n            self.add_inline_text(&format!(\"[{}]\", footnote_num))?;", "            let footnote_num = self.links.len();\n            let text = format!(\"[{}]\", footnote_num);\n            self.add_inline_text(&text)?;"),
    ]),
    dict(name="benign:rename-closure-params", props=["C09", "C03", "C07", "C02"], edits=[
        (LIB, "        Container(children) => pending2(children, |renderer, _| {\n            pushed_style.unwind(renderer);\n            Ok(Some(None))\n        }),", "        Container(kids) => pending2(kids, |r, _unused| {\n            pushed_style.unwind(r);\n            Ok(Some(None))\n        }),"),
    ]),
    dict(name="benign:move-function-in-file", props=["C02", "C11", "C01"], edits=[
        (TR, "    fn ws_mode(&self) -> WhiteSpace {\n        self.ws_stack.last().cloned().unwrap_or(WhiteSpace::Normal)\n    }\n}\n\nfn filter_text_strikeout", "}\n\nimpl<D: TextDecorator> SubRenderer<D> {\n    fn ws_mode(&self) -> WhiteSpace {\n        self.ws_stack.last().cloned().unwrap_or(WhiteSpace::Normal)\n    }\n}\n\nfn filter_text_strikeout"),
    ]),
    dict(name="benign:new-decorator-impl", props=["C16", "C09", "C10"], edits=[
        (TR, "/// A decorator to generate rich text (styled) rather than\n/// pure text output.", "#[allow(dead_code)]\n#[derive(Clone, Debug)]\nstruct BracketDecorator {}\n\nimpl TextDecorator for BracketDecorator {\n    type Annotation = ();\n    fn decorate_link_start(&mut self, _url: &str) -> (String, ()) { (\"<\".to_string(), ()) }\n    fn decorate_link_end(&mut self) -> String { \">\".to_string() }\n    fn decorate_em_start(&self) -> (String, ()) { (\"_\".to_string(), ()) }\n    fn decorate_em_end(&self) -> String { \"_\".to_string() }\n    fn decorate_strong_start(&self) -> (String, ()) { (\"*\".to_string(), ()) }\n    fn decorate_strong_end(&self) -> String { \"*\".to_string() }\n    fn decorate_strikeout_start(&self) -> (String, ()) { (\"~\".to_string(), ()) }\n    fn decorate_strikeout_end(&self) -> String { \"~\".to_string() }\n    fn decorate_code_start(&self) -> (String, ()) { (\"`\".to_string(), ()) }\n    fn decorate_code_end(&self) -> String { \"`\".to_string() }\n    fn decorate_preformat_first(&self) {}\n    fn decorate_preformat_cont(&self) {}\n    fn decorate_image(&mut self, _src: &str, title: &str) -> (String, ()) { (title.to_string(), ()) }\n    fn header_prefix(&self, level: usize) -> String { \"=\".repeat(level.min(6)) + \" \" }\n    fn quote_prefix(&self) -> String { \"| \".to_string() }\n    fn unordered_item_prefix(&self) -> String { \"- \".to_string() }\n    fn ordered_item_prefix(&self, i: i64) -> String { format!(\"{}) \", i) }\n    fn make_subblock_decorator(&self) -> Self { self.clone() }\n}\n\n/// A decorator to generate rich text (styled) rather than\n/// pure text output."),
    ]),
    dict(name="benign:checked-arithmetic-idiom", props=["C01", "C06", "C07"], edits=[
        (LIB, "                    i.set(i.get().saturating_add(1));", "                    i.set(i.get().checked_add(1).unwrap_or(i64::MAX));"),
    ]),
    dict(name="benign:rename-locals-and-parameters", props=ALL, renames=[
        ("col_widths", "cws"), ("vert_row", "stacked"), ("tot_width", "total"), ("nextpos", "np"), ("min_size", "least"),
        ("num_cols", "ncols"), ("prefix_width", "pw"), ("inner_min", "imin"), ("sub_builder", "sbld"), ("remain", "leftover"),
        ("to_copy", "ncopy"), ("lineleft", "room"), ("wpos", "wp"), ("last_cellno", "lastc"), ("vertical", "is_vert"),
        ("height_zero", "hz"), ("overflow_hidden", "oh"), ("cellno", "cn"), ("prefix_width_max", "pwmax"),
        ("prefix_width_min", "pwmin"), ("max_number", "maxn"), ("min_number", "minn"), ("num_items", "nitems"), ("sub_r", "subr"),
        ("main_tag", "mtag"), ("wrap_tag", "wtag"), ("colno", "cno"), ("pushed_style", "pst"),
    ]),
    # ---- forms the round-6 rules must accept
    dict(name="benign:finalise-label-built-first", props=["C08", "C01"], edits=[
        (TR, 'TaggedLine::from_string(format!("[{}]: {}", idx + 1, s), &Default::default())',
         'let label = format!("[{}]", idx + 1);\n                TaggedLine::from_string(format!("{}: {}", label, s), &Default::default())'),
    ]),
    dict(name="benign:flush_word-early-return-on-empty", props=["C03", "C01", "C11"], edits=[
        (TR, "        if !self.word.is_empty() {\n            self.pre_wrapped = false;\n            let space_in_line",
         "        if self.word.is_empty() {\n            self.wordlen = 0;\n            return Ok(());\n        }\n        {\n            self.pre_wrapped = false;\n            let space_in_line"),
    ]),
    dict(name="benign:stylesheets-for_each", props=["C18", "C17", "C19"], edits=[
        (CSS, "            for css in styles {\n                // Ignore CSS parse errors.\n                let _ = result.add_author_css(&css);\n            }",
         "            styles.iter().for_each(|css| {\n                // Ignore CSS parse errors.\n                let _ = result.add_author_css(css);\n            });"),
    ]),
    dict(name="benign:empty-table-shortcut", props=["C06", "C01", "C03"], edits=[
        (LIB, "        // This will include 0 and the index after the last colspan.\n        let mut col_positions = BTreeSet::new();",
         "        if rows.is_empty() {\n            return RenderTable { rows, num_columns: 0, size_estimate: Cell::new(None) };\n        }\n        // This will include 0 and the index after the last colspan.\n        let mut col_positions = BTreeSet::new();"),
    ]),
    dict(name="benign:break-estimate-via-constant", props=["C02", "C11", "C01"], edits=[
        (LIB, "            Break => SizeEstimate {\n                size: 1,\n                min_width: 1,\n                prefix_size: 0,\n            },",
         "            Break => {\n                const ONE_COLUMN: usize = 1;\n                SizeEstimate { size: ONE_COLUMN, min_width: ONE_COLUMN, prefix_size: 0 }\n            }"),
    ]),
    # ---- forms the round-7 rules must accept
    dict(name="benign:nth-child-coefficient-helper", props=["C20", "C17", "C01"], edits=[
        (PARSER, "fn parse_nth_child_args(text: &str) -> IResult<&str, SelectorComponent> {",
         "fn signed(sign: Sign, digits: &str) -> Result<i32, ParseIntError> {\n    Ok(<i32 as FromStr>::from_str(digits)? * sign.val())\n}\n\nfn parse_nth_child_args(text: &str) -> IResult<&str, SelectorComponent> {"),
        (PARSER, "                let b = <i32 as FromStr>::from_str(b_val)? * b_sign.val();\n                Ok((0, b))",
         "                let b = signed(b_sign, b_val)?;\n                Ok((0, b))"),
    ]),
    dict(name="benign:text-node-contents-cloned", props=["C10", "C03", "C01"], edits=[
        (LIB, "            Finished(RenderNode::new(Text((&*tstr.borrow()).into())))",
         "            let text: String = tstr.borrow().to_string();\n            Finished(RenderNode::new(Text(text)))"),
    ]),
    # ---- forms the round-8 rules must accept
    dict(name="benign:spacetag-cleared-with-take", props=["C09", "C01", "C03"], edits=[
        (TR, "                    // We're word-wrapping, so discard any whitespace.\n                    self.spacetag = None;\n                    self.wslen = 0;",
         "                    // We're word-wrapping, so discard any whitespace.\n                    self.wslen = 0;\n                    drop(self.spacetag.take());"),
    ]),
    dict(name="benign:room-counter-renamed-and-split", props=["C02", "C01"], edits=[
        (TR, "        let mut lineleft = self.width - self.line.len;", "        let used = self.line.len;\n        let mut lineleft = self.width - used;"),
    ]),
    # ---- forms the round-9 rules must accept
    dict(name="benign:raw_mode-struct-update", props=["C15", "C11", "C18", "C01", "C10"], edits=[
        (LIB, "            self.raw = raw;\n            self.draw_borders = false;\n            self", "            Self { raw, draw_borders: false, ..self }"),
    ]),
    dict(name="benign:join-in-place", props=["C05", "C01"], edits=[
        (TR, "        let prev = self.segments[x];\n        self.segments[x] = match prev {\n            Straight | JoinAbove => JoinAbove,\n            JoinBelow | JoinCross => JoinCross,\n            StraightVert => StraightVert,\n        }",
         "        let seg = &mut self.segments[x];\n        *seg = match *seg {\n            Straight | JoinAbove => JoinAbove,\n            JoinBelow | JoinCross => JoinCross,\n            StraightVert => StraightVert,\n        };"),
    ]),
]
