"""One-instance mutations of /repo (applied to scratch copies only).  Each still compiles; each names
the property check and the rule that must report it."""
LIB = "src/lib.rs"
TR = "src/render/text_renderer.rs"
CSS = "src/css.rs"

MUTANTS = [
    # ---- C08
    dict(name="C08:clear-links-in-end_link", props=["C08"], rule="C08-B", edits=[(TR,
         "            let footnote_num = self.links.len();", "            let footnote_num = self.links.len();\n            self.links.clear();")]),
    dict(name="C08:ref-not-under-option", props=["C08"], rule="C08-C", edits=[(TR,
         "        if self.options.include_link_footnotes {\n            let footnote_num", "        {\n            let footnote_num")]),
    dict(name="C08:bypass-counting-wrapper", props=["C08"], rule="C08-D", edits=[(LIB,
         "            renderer.start_link(&href)?;", "            std::ops::DerefMut::deref_mut(renderer).start_link(&href)?;")]),
    dict(name="C08:finalise-always-gets-links", props=["C08"], rule="C08-E", edits=[(TR,
         "            self.decorator.finalise(Vec::new())", "            self.decorator.finalise(links)")]),
    dict(name="C08:label-is-index", props=["C08"], rule="C08-F", edits=[(TR,
         'format!("[{}]: {}", idx + 1, s)', 'format!("[{}]: {}", idx, s)')]),
    dict(name="C08:empty-link-kept", props=["C08"], rule="C08-G", edits=[(LIB,
         "                                if cs.iter().any(|c| !c.is_shallow_empty()) {", "                                if cs.iter().any(|c| !c.is_shallow_empty()) || true {")]),
    # ---- C09
    dict(name="C09:end_strong-no-pop", props=["C09"], rule="C09-A", edits=[(TR,
         "        let s = self.decorator.decorate_strong_end();\n        self.add_inline_text(&s)?;\n        self.ann_stack.pop();",
         "        let s = self.decorator.decorate_strong_end();\n        self.add_inline_text(&s)?;")]),
    dict(name="C09:push-after-prefix", props=["C09"], rule="C09-A", edits=[(TR,
         "        let (s, annotation) = self.decorator.decorate_code_start();\n        self.ann_stack.push(annotation);\n        self.add_inline_text(&s)?;",
         "        let (s, annotation) = self.decorator.decorate_code_start();\n        self.add_inline_text(&s)?;\n        self.ann_stack.push(annotation);")]),
    dict(name="C09:dt-ends-strong", props=["C09"], rule="C09-B", edits=[(LIB,
         "            renderer.start_emphasis()?;\n            pending2(children, |renderer: &mut TextRenderer<D>, _| {\n                renderer.end_emphasis()?;\n                pushed_style.unwind(renderer);\n                Ok(Some(None))\n            })\n        }\n        Dd(children)",
         "            renderer.start_emphasis()?;\n            pending2(children, |renderer: &mut TextRenderer<D>, _| {\n                renderer.end_strong()?;\n                pushed_style.unwind(renderer);\n                Ok(Some(None))\n            })\n        }\n        Dd(children)")]),
    dict(name="C09:div-forgets-unwind", props=["C09"], rule="C09-C", edits=[(LIB,
         "                renderer.new_line()?;\n                pushed_style.unwind(renderer);", "                renderer.new_line()?;\n                drop(pushed_style);")]),
    dict(name="C09:unwind-pops-colour-first", props=["C09"], rule="C09-D", edits=[(LIB,
         "        if self.bgcolour {\n            renderer.pop_bgcolour();\n        }\n        if self.colour {\n            renderer.pop_colour();\n        }",
         "        if self.colour {\n            renderer.pop_colour();\n        }\n        if self.bgcolour {\n            renderer.pop_bgcolour();\n        }")]),
    dict(name="C09:subrenderer-forgets-stack", props=["C09"], rule="C09-E", edits=[(TR,
         "        result.ann_stack = self.ann_stack.clone();", "        result.ann_stack = Vec::new();")]),
    dict(name="C09:prefix-tag-default", props=["C09"], rule="C09-E", edits=[(TR,
         "        self.flush_wrapping()?;\n        let tag = self.ann_stack.clone();", "        self.flush_wrapping()?;\n        let tag: Vec<D::Annotation> = Vec::new();")]),
    dict(name="C09:preformat-tags-swapped", props=["C09"], rule="C09-F", edits=[(TR,
         "wrapping.add_text(filtered_text, ws_mode, main_tag, cont_tag)?;", "wrapping.add_text(filtered_text, ws_mode, cont_tag, main_tag)?;")]),
    # ---- C14
    dict(name="C14:revert-hard-wrap-fix", props=["C14"], rule="C14-B", edits=[(TR,
         "                self.line.push(element);\n            }", "                let _ = &element;\n            }")]),
    dict(name="C14:marker-at-end", props=["C14"], rule="C14-A", edits=[(LIB,
         "Ok(Some(insert_child(fragnode, node, ChildPosition::Start)))", "Ok(Some(insert_child(fragnode, node, ChildPosition::End)))")]),
    dict(name="C14:nothing-shape-skips-marker", props=["C14"], rule="C14-A", edits=[(LIB,
         "                Nothing => Finished(RenderNode::new(FragStart(fragname))),", "                Nothing => Nothing,")]),
    dict(name="C14:flush-forgets-trailing", props=["C14"], rule="C14-C", edits=[(TR,
         "            self.pending_frags.extend(frags);", "            drop(frags);")]),
    dict(name="C14:marker-has-width", props=["C14"], rule="C14-D", edits=[(TR,
         "        } else {\n            self.v.push(tle);\n        }", "        } else {\n            self.len += 1;\n            self.v.push(tle);\n        }")]),
]
