#!/bin/bash
# usage: run_driver.sh <config> <out.json> [repo_dir]
# Runs the h2t-lint rustc driver over the real cargo build of the repo for one feature configuration.
set -euo pipefail
CFG="$1"; OUT="$2"; REPO="${3:-/repo}"
case "$CFG" in
  default) FEAT="" ;;
  css) FEAT="--features css" ;;
  css_ext) FEAT="--features css_ext" ;;
  html_trace) FEAT="--features html_trace" ;;
  *) echo "unknown config $CFG" >&2; exit 2 ;;
esac
DRV="$(cd "$(dirname "$0")/.." && pwd)/lint/target/release/h2t-lint"
[ -x "$DRV" ] || { echo "driver not built: run MANIFEST.setup_cmd" >&2; exit 2; }
SYSROOT=$(rustc +nightly --print sysroot)
T=$(mktemp -d /tmp/h2t-target.XXXXXX)
trap 'rm -rf "$T"' EXIT
NONCE="$$-$(date +%s%N)"
rm -f "$OUT"
cd "$REPO"
LD_LIBRARY_PATH="$SYSROOT/lib" CARGO_NET_OFFLINE=true H2T_FACTS_OUT="$OUT" H2T_CONFIG="$CFG" H2T_NONCE="$NONCE" \
  RUSTFLAGS="-Zmir-opt-level=0 -Awarnings" RUSTC_WORKSPACE_WRAPPER="$DRV" CARGO_TARGET_DIR="$T" \
  cargo +nightly check --offline --lib $FEAT >"$T/cargo.log" 2>&1 || { tail -40 "$T/cargo.log" >&2; exit 3; }
[ -s "$OUT" ] || { echo "driver produced no facts" >&2; exit 3; }
grep -q "\"nonce\":\"$NONCE\"" "$OUT" || { echo "stale fact file" >&2; exit 3; }
