#!/usr/bin/env python3
"""tools/seed_results.py < seedrun-output : record `result_now` in seeded/<id>/meta.json from the lines
`<id>: fired: C02[C02-I,] C11[C11-D,]` that bin/seedrun prints."""
import json
import os
import re
import sys

VERIF = os.path.dirname(os.path.dirname(os.path.abspath(__file__)))
n = 0
for line in sys.stdin:
    m = re.match(r"(C\d\d-s\w+): fired:(.*)$", line.strip())
    if not m:
        continue
    res = {p: [r for r in rules.split(",") if r] for p, rules in re.findall(r"(C\d\d)\[([^\]]*)\]", m.group(2))}
    p = os.path.join(VERIF, "seeded", m.group(1), "meta.json")
    meta = json.load(open(p))
    meta["result_now"] = res if res else "NONE"
    json.dump(meta, open(p, "w"), indent=1)
    n += 1
    if not res:
        print("NOT REPORTED:", m.group(1))
print("%d seed result(s) recorded" % n)
