#!/usr/bin/env python3
"""Regenerate seeded/README.md from seeded/*/meta.json (written by bin/seedcheck)."""
import glob
import json
import os

VERIF = os.path.dirname(os.path.dirname(os.path.abspath(__file__)))


def fmt(cf):
    if cf in (None, "NONE", {}):
        return "**missed**"
    if isinstance(cf, dict):
        return "; ".join("%s[%s]" % (p, ",".join(v["rules"] if isinstance(v, dict) else v)) for p, v in sorted(cf.items()))
    return str(cf)


def main():
    out = ["# Independently seeded changes", "",
           "Each directory holds a change to jugglerchris/rust-html2text written by a fresh sub-agent that was given only",
           "the text of one property and a scratch worktree (nothing from /verif): `patch.diff`, the agent's demonstration",
           "`seeded_demo.rs` (an integration test that fails with the change and passes without), its `notes.md`, and",
           "`meta.json` written by `bin/seedcheck`, which re-confirms everything in a scratch worktree outside /repo and",
           "/verif (removed afterwards): the patch applies to /repo HEAD, the 107-test baseline still passes with it, the",
           "demonstration fails with it and passes without it, and which of the registered checks report it.",
           "None of these changes is ever committed to /repo. `bin/seedrun <id>...` re-evaluates the quick checks on a",
           "scratch copy with the patch applied.", "",
           "| seed | property | what the change is (needs to manifest) | baseline passes | demo fails/passes | first result | result now | strengthened by |",
           "|---|---|---|---|---|---|---|---|"]
    for d in sorted(glob.glob(os.path.join(VERIF, "seeded", "*", "meta.json"))):
        m = json.load(open(d))
        out.append("| %s | %s | %s | %s | %s / %s | %s | %s | %s |" % (
            m["id"], m["property"], m.get("needs_to_manifest", "see notes.md"),
            "yes" if m.get("baseline_passes_with_change") else "NO",
            "fails" if m.get("demo_fails_with_change") else "DOES NOT FAIL",
            "passes" if m.get("demo_passes_without_change") else "DOES NOT PASS",
            fmt(m.get("first_result")), fmt(m.get("result_now", m.get("checks_fired"))), m.get("strengthened", "—")))
    out += ["", "A change is kept only when all three confirmations hold. \"first result\" is what the machinery reported",
            "when the change first arrived; \"result now\" is the latest `bin/seedrun` (or `bin/seedcheck`) evaluation. A seed reported only by a",
            "*different* property's check than the one it targets is listed as such, not counted as caught by its own.", ""]
    open(os.path.join(VERIF, "seeded", "README.md"), "w").write("\n".join(out))


main()
