#!/usr/bin/env python3
"""Authoring aid (NOT used by any check): lists the panic sites that no automatic rule discharges on the
current tree and writes tables/panic_sites.txt from the reviewed reasons below.  Each reason was written
after reading the site; the generated table is what the checks consume (exact site keys).  A key that
matches no reason is printed and left out of the table (the check will then report it)."""
import os
import re
import sys

sys.path.insert(0, os.path.dirname(os.path.dirname(os.path.abspath(__file__))))
from h2t.facts import load_facts  # noqa: E402
from h2t import panics  # noqa: E402
from h2t.mag import Mag  # noqa: E402

RCDOM = ("A2/TreeSink: markup5ever_rcdom.rs is the upstream reference TreeSink; this panic encodes html5ever's "
         "TreeSink contract (the tree builder only passes handles it obtained from this sink, in the state the "
         "contract prescribes); cells are borrowed only for the duration of one statement during parsing")

SBS = ("INV-SBS: this code runs only in the side-by-side layout, where every column width is min(size estimate, ·) "
       "(render_table_tree's first collect) or that value decreased by the shrink loop: a column width never exceeds the "
       "column's size estimate, which is memory-bounded (A1); the user-supplied renderer width enters col_widths only in "
       "the stacked branch (`vert_row`), which never reaches this code (into_cells' vertical branch copies one entry, "
       "append_vert_row replaces append_columns_with_borders, the shrink loop and table_width sum are under !vert_row)")
EST = ("[any-guard] INV-EST-A1: size estimates are sums of display widths of document text plus prefix widths and, for tables, "
       "num_columns − 1 separators with num_columns bounded by INV-REMAP: memory-bounded (A1)")

R = [
    # ---- sites whose operands get their magnitude through a closure passed to an iterator adaptor (the magnitude
    #      analysis follows closure results since the soundness correction recorded in DESIGN section 9)
    (r"append_columns_with_borders:Add\(pos, \(w \+ 1_usize\)\)$", "[any-guard] " + SBS + "; pos is a running sum of (w + 1) over the columns"),
    (r"append_columns_with_borders:Add\(pos, w\)$", "[any-guard] " + SBS),
    (r"append_columns_with_borders:Add\(w, 1_usize\)$", "[any-guard] " + SBS),
    (r"^RenderTable::calc_size_estimate:Add\(<std::vec::Vec<T, A> as std::ops::IndexMut<I>>::index_mut\(&mut sizes", EST),
    (r"^RenderTable::calc_size_estimate:Add\(Iterator::sum\(", EST),
    (r"^RenderTable::calc_size_estimate:sum\(", EST),
    (r"^RenderTable::calc_size_estimate:from_elem\(", "INV-REMAP: num_columns is the maximum over the rows of Σ remapped colspan, bounded by the number of cells (see tables/mag_invariants.txt)"),
    (r"^render_table_tree:from_elem\(<SizeEstimate as std::default::Default>::default\(\), num_columns\)$", "INV-REMAP: num_columns is bounded by the number of cells"),
    (r"^RenderTableRow::into_cells:sum\(", SBS + " (this is the non-vertical branch: `if vertical` copies a single entry instead)"),
    (r"^RenderTableRow::num_cells:sum\(", "INV-REMAP: num_cells is called only by RenderTable::new after the remap loop (side condition: sole caller), when every colspan is an index difference"),
    (r"^SizeEstimate::add:Add\(self.size, other.size\)$", EST),
    (r"^SizeEstimate::add_hor:Add\(self\.(size|min_width), other\.(size|min_width)\)$", EST),
    (r"BorderHoriz::<T>::join_(above|below):Add\(x, 1_usize\)$", "x is a junction position pos + w inside a side-by-side table: " + SBS),
    (r"BorderHoriz::<T>::merge_from_(below|above):Add\(idx, pos\)$", "idx indexes the nested border's segments and pos is a column position inside a side-by-side table: " + SBS),
    (r"^render_table_tree:Add\(Iterator::sum\(<impl \[T\]>::iter\(&<std::vec::Vec<T, A> as std::ops::Deref>::deref\(&col_widths\)\)\), ", SBS + " (under `if !vert_row`; rule C06-C checks that guard)"),
    (r"^render_table_tree:sum\(<impl \[T\]>::iter\(&<std::vec::Vec<T, A> as std::ops::Deref>::deref\(&col", SBS + " (under `if !vert_row` / the else branch of `if vert_row`; rules C06-C and C05-H check those guards)"),
    (r"^render_table_tree:Add\(Iterator::sum\(Iterator::map\(", EST),
    (r"^render_table_tree:sum\(Iterator::map\(", EST),
    (r"^tbody_to_render_tree::\{closure:\+TableBody,cells_mut\}:Add\(<&usize as std::ops::Sub<usize>>::sub\(max_columns, num_cols\), 1_usize\)$", "num_cols >= 1 for a row that contains a zero-colspan cell (each cell counts max(colspan, 1)), so max_columns − num_cols + 1 <= max_columns"),
    # ---- css.rs
    (r"^css::Selector::do_matches:Sub\(idx, .*from\(b\)\)$", "[any-guard] idx counts element siblings (<= 2^62, A1) and b is an i32 widened to i64: |idx - b| < 2^63"),
    (r"^css::Selector::do_matches:(Rem|Div)\(idx_offset, a\)$", "[any-guard] signed overflow needs idx_offset == i64::MIN, but idx_offset = idx - b with idx >= 1 and b >= -2^31"),
    # ---- css/parser.rs
    (r"^css::parser::ident_escape:Sub\(nexti, start_idx\)$", "char_indices yields strictly increasing byte indices and start_idx is the first one"),
    (r"^css::parser::ident_escape:index\(&rest, ops::Range\{start_idx, end_idx\}\)$", "both bounds are char_indices positions (or i+1 after a one-byte hex digit) of `rest`, start_idx < end_idx <= len"),
    (r"^css::parser::ident_escape:unwrap\(<impl u32>::from_str_radix", "the slice is 1..=6 ASCII hex digits (the scan stops after 6), which always fits a u32"),
    (r"^css::parser::ident_escape:index\(&rest, ops::RangeFrom\{end_idx\}\)$", "end_idx is a char_indices position of `rest` (or the position after a one-byte hex digit)"),
    (r"^css::parser::ident_escape:index\(&rest, ops::RangeFrom\{bytes\}\)$", "bytes = len_utf8 of the first char of `rest`"),
    (r"^css::parser::parse_token:index\(&rest, ops::RangeFrom\{num_bytes\}\)$", "num_bytes = len_utf8 of the first char of `rest`"),
    (r"^css::parser::parse_color:Mul\(.* 15_u32\) as u8\), 17_u8\)$", "a 4-bit nibble (& 15) times 17 is at most 255"),
    (r"^css::parser::parse_integer:unwrap\(<impl std::str::FromStr for f32>", "[any-guard] digit1 output: one or more ASCII digits always parse as f32 (large values become inf)"),
    (r"^css::parser::parse_decimal:unwrap\(<impl std::str::FromStr for f32>", "[any-guard] recognize(digit0 '.' digit1): always a valid f32 literal"),
    (r"^css::parser::parse_number:diverge\(panic\)$", "unreachable!(): sign is the output of opt(alt(tag(\"-\"), tag(\"+\"))), i.e. None, Some(\"-\") or Some(\"+\")"),
    (r"^css::parser::parse_string_token:unwrap\(<std::str::CharIndices", "parse_string_token is only called by parse_token after it saw a quote as the first char of the same string (side condition checked: sole caller)"),
    (r"^css::parser::parse_string_token:diverge\(panic\)$", "debug_assert on the opening quote: parse_token dispatches here only for '\"' and '\\'' (sole caller, checked)"),
    (r"^css::parser::parse_string_token:index\(&text, ops::RangeFrom\{\(i \+ 1_usize\)\}\)$", "i is the byte index of a one-byte char (the closing quote or a backslash) inside text"),
    (r"^css::parser::parse_string_token:index\(&text, ops::RangeFrom\{i\}\)$", "i is a char_indices position of text"),
    (r"^css::parser::parse_nth_child_args::\{closure:val\}:Mul\(val, Sign::val", "[any-guard] val was parsed from unsigned decimal digits into i32 (0..=i32::MAX) and Sign::val is +1 or -1"),
    # ---- lib.rs tables
    (r"^RenderTableRow::into_cells:unwrap\(self.col_sizes\)$", "INV-ROWS: every TableRow handed to the renderer was produced by RenderTable::into_rows, which sets col_sizes = Some(..) (tr_to_render_tree's rows are consumed by tbody/table reducers; html5ever never yields a <tr> outside a table section, A2)"),
    (r"^RenderTableRow::into_cells:index\(&col_sizes, ", "INV-COLS: colno + colspan <= Σ colspan of the row <= num_columns = col_sizes.len() (num_columns is the maximum of RenderTableRow::num_cells over the rows and colspan >= 1 after the remap)"),
    (r"^RenderTableRow::into_cells:Add\(colno, (cell\.)?colspan\)$", "INV-REMAP: RenderTable::new rewrote every colspan to a difference of indices into the sorted set of column positions, so per-row sums are bounded by the number of cells (A1); RenderTable is constructed only there (side condition checked)"),
    (r"^RenderTableRow::into_cells:Add\(col_width, cell.colspan\)$", "col_width is a sum of allocated column widths (each <= its size estimate, A1) and colspan is remap-bounded (INV-REMAP)"),
    (r"^RenderTableRow::into_cells:Sub\(\(col_width \+ cell.colspan\), 1_usize\)$", "executed only under col_width > 0 with colspan >= 1 (INV-COLSPAN1): the sum is at least 2"),
    (r"^RenderTable::new:unwrap\(<K, V, S, A>::get\(&colmap, &nextpos\)\)$", "[any-guard] the positions looked up (running Σ max(colspan,1)) are the positions inserted (running Σ colspan) because colspan >= 1 on entry: tbody_to_render_tree replaces 0 (rule C06-E checks both walks and the writers of colspan)"),
    (r"^RenderTable::new:Sub\(next_mapped_pos, mapped_pos\)$", "[any-guard] colmap maps the sorted positions to increasing indices and positions are non-decreasing along a row"),
    (r"^RenderTable::calc_size_estimate:DivisionByZero\(cellsize\.", "INV-COLSPAN1: the divisor is cell.colspan, stored by RenderTable::new as (..).max(1) (side condition checked)"),
    (r"^RenderTable::calc_size_estimate:Add\(colno, ", "INV-REMAP (see into_cells)"),
    (r"^RenderTable::calc_size_estimate:index(_mut)?\(&(mut )?sizes, \(colno \+ colnum\)\)$", "INV-COLS: sizes has num_columns entries and colno + colnum < Σ colspan of the row <= num_columns"),
    (r"^RenderTable::calc_size_estimate:Sub\(\(Iterator::sum\(.*self.num_columns\), 1_usize\)$", "num_columns >= 1 here: the num_columns == 0 case returned at the top of the function"),
    (r"^RenderNode::get_size_estimate:unwrap\(<T>::get\(&self.size_estimate\)\)$", "INV-EST: phase 1 of render_tree_to_string (precalc_size_estimate over the whole tree, including the contents of table cells) stores an estimate in every node before anything reads one (rule C01-B2 checks the two variant sets)"),
    (r"^RenderNode::calc_size_estimate:diverge\(panic\)$", "unreachable!() in the inner match of the Dd/BlockQuote/Ul arm (same scrutinee as the outer arm) and unimplemented!() for TableRow/TableBody/TableCell, which exist only inside a Table's rows or are created by into_rows/into_cells while rendering, after all estimates (A2: html5ever yields tr/td/tbody only inside a table)"),
    (r"^precalc_size_estimate:diverge\(panic\)$", "unimplemented!() for TableRow/TableBody/TableCell: see calc_size_estimate"),
    (r"^tbody_to_render_tree::\{closure:\+TableBody,cells_mut\}:index_mut\(&mut rows, i\)$", "i enumerates num_columns, which was collected from rows.iter() and has the same length"),
    (r"^tbody_to_render_tree::\{closure:\+TableBody,cells_mut\}:Sub\(max_columns, num_cols\)$", "max_columns is the maximum of the num_cols values"),
    (r"^process_dom_node:index\(&<string_cache::atom::Atom<Static> as std::ops::Deref>::deref\(&name.lo, ops::RangeFrom\{1_usize\}\)$", "in the h1..h6 arm the local name is the ASCII string \"h1\"..\"h6\""),
    (r"^process_dom_node:unwrap\(<impl str>::parse", "in the h1..h6 arm name.local[1..] is one of \"1\"..\"6\""),
    (r"^process_dom_node:unwrap\(Write::write_fmt\(&mut err_out", "err_out is std::io::sink() on every route (side condition checked: both callers of dom_to_render_tree_with_context pass io::sink()), which never fails"),
    (r"^do_render_node:diverge\(panic\)$", "debug_assert that the prefix width equals the estimate's prefix_size: both are the display width of the same decorator method's string (rule C02-D); A4: the estimate copy of a user decorator returns the same prefixes"),
    (r"^do_render_node:Sub\(size_estimate.min_width, prefix_width\)$", "the BlockQuote estimate is children.add_hor(prefix_width): min_width >= prefix_width (A4, INV-EST)"),
    (r"^do_render_node::\{closure:new_sub_renderer,push,width_minus\}:Sub\(size_estimate, prefix_len\)$", "the Ul estimate is children.add_hor(prefix_width): min_width >= prefix width (A4, INV-EST)"),
    (r"^do_render_node::\{closure:new_sub_renderer,push,width_minus\}:Sub\(size_estimate, size_estimate\)$", "Ol: min_width - prefix_size of the same estimate, built as children.add_hor(prefix_size)"),
    (r"^do_render_node:Sub\(size_estimate.min_width, 2_usize\)$", "the Dd estimate is children.add_hor(2)"),
    (r"^do_render_node:diverge\(panic_fmt\)$", "unimplemented!(\"Unexpected TableBody\"): TableBody nodes are consumed by table_to_render_tree and never reach the renderer (A2)"),
    (r"^do_render_node::sup_digits::\{closure\}:Sub\(b, 48_u8\)$", "only reached when all chars of the string are ASCII digits (the all(is_ascii_digit) test dominates the map)"),
    (r"^do_render_node::sup_digits::\{closure\}:BoundsCheck\(10_usize, ", "b - b'0' is 0..=9 for an ASCII digit"),
    (r"^render_table_tree:DivisionByZero\(estimate\.", "INV-COLSPAN1 (divisor is cell.colspan)"),
    (r"^render_table_tree:Add\(colno, ", "INV-REMAP"),
    (r"^render_table_tree:index(_mut)?\(&(mut )?col_sizes, \(colno \+ i\)\)$", "INV-COLS: col_sizes has num_columns entries"),
    (r"^render_table_tree::\{closure\}:DivisionByZero\(core::num::<impl usize>::MAX\)$", "divisor is width: this closure runs only when !vert_row, and vert_row is true when width == 0"),
    (r"^render_table_tree::\{closure\}:DivisionByZero\(width\)$", "divisor is tot_size >= sz.size > 0 (the sz.size == 0 case returned 0 above)"),
    (r"^render_table_tree::\{closure\}:Mul\(\(width / tot_size\), sz.size\)$", "sz.size <= tot_size, so the product is at most width"),
    (r"^render_table_tree::\{closure\}:Mul\(sz.size, width\)$", "guarded by the usize::MAX / width <= sz.size test: on this edge sz.size * width < usize::MAX"),
    (r"^render_table_tree::\{closure\}:DivisionByZero\(\(sz.size \* width\)\)$", "divisor is tot_size >= sz.size > 0"),
    (r"^render_table_tree:Sub\(\(Iterator::sum\(.*num_cols\), 1_usize\)$", "inside `if num_cols > 0`"),
    (r"^render_table_tree:unwrap\(Iterator::max_by_key", "col_widths is non-empty inside `if num_cols > 0`"),
    (r"^render_table_tree::\{closure\}:index\(&col_sizes, colno\)$", "colno enumerates col_widths, which was collected from col_sizes (same length)"),
    (r"^render_table_tree:index_mut\(&mut col_widths, i\)$", "i is an enumerate index of col_widths"),
    (r"^render_table_tree:Sub\(<std::vec::Vec<T, A> as std::ops::IndexMut<I>>::index_mut\(&mut col_widths, i\), 1_usize\)$", "INV-SHRINK: the loop runs only while Σw + n − 1 > width >= min_size = Σmin_width + n − 1, so some column has w > min_width >= 0 and the chosen column (maximal slack w − min_width > 0) has w >= 1"),
    (r"^render_table_row::\{closure:new_sub_renderer,push\}:unwrap\(cell.col_width\)$", "into_cells stores Some(..) in every cell it returns (single writer, rule C06-B)"),
    (r"^render_table_row_vert::\{closure:\+Fail,new_sub_renderer,push\}:unwrap\(cell.col_width\)$", "into_cells stores Some(..) in every cell it returns (single writer, rule C06-B)"),
    (r"^render_table_row::\{closure:new_sub_renderer,push\}:diverge\(panic\)$", "panic!() for a non-cell child: the children are into_cells' result, which only builds TableCell nodes"),
    # ---- text_renderer.rs
    (r"^<render::text_renderer::TextRenderer<D> as std::ops::Deref(Mut)?>::deref(_mut)?:expect\(", "INV-STACK: the renderer stack starts with one renderer; every pop in the tree walk is in a reducer/post-hook created after the matching push of the same arm"),
    (r"^render::text_renderer::TextRenderer::<D>::(start|end)_link:unwrap\(<impl \[T\]>::last_mut", "INV-STACK"),
    (r"^render::text_renderer::TextRenderer::<D>::pop:expect\(", "INV-STACK"),
    (r"^render::text_renderer::TextRenderer::<D>::into_inner:(expect\(|diverge\(assert_failed\))", "INV-STACK: after the walk every pushed sub-renderer has been popped, exactly the initial one remains"),
    (r"^render::text_renderer::TaggedLine::<T>::push_ws:repeat\(&\" \", len\)$", "len is pending whitespace (A1) except from pad_to(width − my_width) under pad_block_width, which the property restricts to bounded widths"),
    (r"^render::text_renderer::TaggedLine::<T>::width:sum\(", "sum of display widths of the strings stored in the line (A1)"),
    (r"^render::text_renderer::TaggedLine::<T>::width:diverge\(assert_failed\)$", "INV-LEN: len is maintained as the sum of the widths of the stored strings (rule C14-D checks every writer of len)"),
    (r"^render::text_renderer::WrappedBlock::<T>::flush_word(_hard_wrap)?:Sub\(self.width, self.line.len\)$", "INV-LINE: line.len <= width between calls — every append to the line is width-guarded (rule C02-E) and an over-wide piece emitted under allow_overflow is flushed immediately"),
    (r"^render::text_renderer::WrappedBlock::<T>::flush_word:unwrap\(<T>::(take|as_ref)\(&(mut )?self.spacetag\)\)$", "INV-SPACETAG: wslen > 0 implies spacetag is Some — each of the three places that make wslen positive sets spacetag first; these unwraps are under wslen > 0"),
    (r"^render::text_renderer::WrappedBlock::<T>::flush_word_hard_wrap:Sub\(w, wpos\)$", "wpos is the display width of the already consumed prefix of the piece, w the width of the whole piece"),
    (r"^render::text_renderer::WrappedBlock::<T>::flush_word_hard_wrap:index\(&piece.s, ", "bpos and bpos + split_idx are sums of char_indices offsets (char boundaries) within piece.s"),
    (r"^render::text_renderer::WrappedBlock::<T>::flush_word_hard_wrap:unwrap\(<char as unicode_width::UnicodeWidthChar>::width\(c\)\)$", "word pieces are built only by push_char under `if let Some(cwidth) = width(c)`, so every char of a piece has Some width"),
    (r"^render::text_renderer::WrappedBlock::<T>::flush_word_hard_wrap:Sub\(lineleft, w\)$", "bpos == 0 means nothing was split off, so the loop condition w − wpos > lineleft was false with wpos == 0"),
    (r"^render::text_renderer::WrappedBlock::<T>::flush_word_hard_wrap:Sub\(lineleft, <impl usize>::saturating_sub\(w, wpos\)\)$", "the loop exited because w − wpos <= lineleft"),
    (r"^render::text_renderer::BorderHoriz::<T>::new(_type)?:from_elem\(", "border widths are table widths: Σ allocated column widths (A1) in the side-by-side layout; the renderer width only in the stacked layout, which draws borders only when width < min_size (memory-bounded) because raw mode disables borders"),
    (r"^render::text_renderer::BorderHoriz::<T>::join_(above|below):index(_mut)?\(&(mut )?self.segments, x\)$", "[any-guard] stretch_to(x + 1) ran first: segments.len() > x"),
    (r"^<render::text_renderer::SubRenderer<D> as render::Renderer>::pop_preformat:(diverge\(panic\)|Sub\(self.pre_depth, 1_usize\))$", "push_preformat/pop_preformat are paired by PushedStyleInfo::apply/unwind (rules C09-C/D)"),
    (r"append_columns_with_borders::\{closure:into_lines[^}]*\}:Add\(tot_width, width\)$", "Σ cell widths <= the table width the shrink loop enforced (rule C06-C)"),
    (r"append_columns_with_borders:Sub\(<T, A>::len\(&line_sets\), 1_usize\)$", "the sole caller (render_table_row's reducer, checked) calls only when some child is non-empty, so there is at least one column"),
    (r"append_columns_with_borders:index\(&line_sets, ops::RangeTo", "len − 1 <= len"),
    (r"append_columns_with_borders:expect\(<T, A>::back_mut\(&mut self.lines\), ", "a cell can start with a border line only when borders are drawn, and then the table's top rule (or the previous row's bottom rule) was added to this renderer before the row"),
    (r"append_columns_with_borders:remove\(&mut sublines, 0_usize\)$", "starts_border was computed from sublines.first() being Some(Line)"),
    (r"append_columns_with_borders:diverge\(panic\)$", "unreachable!(): the previous line is a rule whenever a nested border is collapsed (see the expect above)"),
    (r"append_columns_with_borders:index(_mut)?\(&(mut )?column_padding, (col_no|cellno)\)$", "column_padding has line_sets.len() entries and the index enumerates line_sets"),
    (r"append_columns_with_borders::\{closure\}:index\(&spaces, ops::Range\{0_usize, width\}\)$", "spaces consists of tot_width ASCII spaces and width <= tot_width"),
    (r"end_strikeout:expect\(<T, A>::pop\(&mut self.text_filter_stack\)", "paired with the push in start_strikeout under the same option (rules C15-B, C09-B)"),
    (r"(Plain|Rich)Decorator as render::text_renderer::TextDecorator>::header_prefix:repeat\(&\"#\", level\)$", "level is 1..=6: it is parsed from the tag names h1..h6 (who-may-construct Header)"),
    # ---- rcdom
    (r"markup5ever_rcdom", RCDOM),
]


def main():
    keys = {}
    mult = {}
    nog = {}
    for cfg in ("default", "css", "css_ext", "html_trace"):
        F = load_facts(cfg)
        roots = panics.render_roots(F)
        reach = F.reachable_from(roots)
        mag = Mag(F)
        okb, rp, _m = panics.shared_borrow_rule(F, roots)
        per = {}
        for s in panics.inventory(F, reach):
            if panics.discharge(F, mag, s):
                continue
            if s.kind == "borrow" and okb and s.b.id in rp:
                continue
            keys.setdefault(s.key, (s.span, s.text))
            nog[s.key] = s.key_nog
            per[s.key] = per.get(s.key, 0) + 1
        for k, n in per.items():
            mult[k] = max(mult.get(k, 0), n)
    out = ["# Reviewed panic sites (C01-A / C17-A), D3.  `site key [xN] :: readable site :: invariant it leans on / reason`.",
           "# xN: the row covers N sites of that function with the same kind and canonical operands (default 1).",
           "# The key ends in a hash of the canonical, name-independent operand expressions (renaming a local keeps it).",
           "# Generated from tools/make_panic_table.py (the reasons are written by hand there); consumed as exact keys.",
           "# Named invariants: INV-LINE, INV-LEN, INV-STACK, INV-EST, INV-COLS, INV-REMAP, INV-COLSPAN1, INV-SHRINK, INV-ROWS,",
           "# INV-SPACETAG; A1/A2/A4 are the assumptions of DESIGN.md section 7."]
    missing = []
    anyg = {}
    for k in sorted(keys, key=lambda k: keys[k][1]):
        span, text = keys[k]
        reason = None
        for pat, r in R:
            if re.search(pat, text):
                reason = r
                break
        if reason is None:
            missing.append((span, text))
        else:
            if reason.startswith("[any-guard]"):
                # value-based argument: the row is keyed without the guards; sites sharing operands share it
                kk = nog[k]
                anyg[kk] = (anyg.get(kk, (0, text, reason))[0] + mult.get(k, 1), text, reason)
                continue
            out.append("%s%s :: %s :: %s" % (k, " x%d" % mult[k] if mult.get(k, 1) > 1 else "", text, reason))
    for kk in sorted(anyg, key=lambda x: anyg[x][1]):
        n, text, reason = anyg[kk]
        out.append("%s%s :: %s :: %s" % (kk, " x%d" % n if n > 1 else "", text, reason))
    with open(os.path.join(os.path.dirname(os.path.dirname(os.path.abspath(__file__))), "tables", "panic_sites.txt"), "w") as fh:
        fh.write("\n".join(out) + "\n")
    print("%d keys, %d rows written, %d without a reason" % (len(keys), len(out) - 5, len(missing)))
    for sp, k in missing:
        print("  NO REASON: %s  %s" % (sp, k))


main()
